#!/bin/sh
# seedonly.sh <seed id> <prop> [only] : run one property's check (optionally one contract) against a seeded change in a
# scratch worktree (PYVC_REPO), evidence redirected; prints verdict lines.
id=$1; p=$2; only=$3
wt=/tmp/so_$$
git -C /repo worktree add --detach $wt HEAD >/dev/null 2>&1 || exit 3
git -C $wt apply /verif/seeded/$id/patch.diff || { git -C /repo worktree remove --force $wt; exit 3; }
cd /verif
if [ -n "$only" ]; then PYVC_REPO=$wt PYVC_OUT_DIR=/tmp/so_out_$$ ./check $p --only "$only" 2>&1 | grep -E "^VIOLATION|^UNDECIDED|^CRASH|obligations discharged" | cut -c1-300
else PYVC_REPO=$wt PYVC_OUT_DIR=/tmp/so_out_$$ ./check $p 2>&1 | grep -E "^VIOLATION|^UNDECIDED|^CRASH|obligations discharged" | cut -c1-300; fi
git -C /repo worktree remove --force $wt >/dev/null 2>&1; rm -rf /tmp/so_out_$$
