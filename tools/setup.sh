#!/bin/sh
# offline setup: nothing to build - the engine is pure python run by python3-vt (z3-solver wheel), native parts by /venv/bin/python
set -e
cd "$(dirname "$0")/.."
python3-vt -c "import z3; print('z3', z3.get_version_string())"
/venv/bin/python -c "import sdc11073, lxml; print('sdc11073 importable from', sdc11073.__file__)"
mkdir -p evidence replays
chmod +x check
