#!/bin/sh
# collect_seed3.sh Cxx : wave 4 (worktree /tmp/seed4_Cxx); seeds are numbered from 5
p=$1
src=/tmp/seed4_$p/_out
k=5
for pf in patch.diff patch2.diff; do
  [ -f $src/$pf ] || continue
  d=/verif/seeded/$p-$k; mkdir -p $d
  cp $src/$pf $d/patch.diff
  dm=demo.py; [ $pf = patch2.diff ] && dm=demo2.py
  [ -f $src/$dm ] || dm=demo.py
  cp $src/$dm $d/demo.py
  cp $src/notes.md $d/notes.md 2>/dev/null
  echo "### $p-$k: $(grep -c '^[-+][^-+]' $d/patch.diff) changed lines in $(grep '^+++ ' $d/patch.diff | tr '\n' ' ')"
  /verif/tools/seedrun.sh $d/patch.diff $p
  k=$((k+1))
done
git -C /repo worktree remove --force /tmp/seed4_$p 2>/dev/null
