#!/bin/sh
# confirm_seed.sh <name> <patch.diff> <demo.py> : independent confirmation of a seeded change in a scratch worktree:
#   demo fails with the change, passes without it, the existing test suite passes with the change.
# Writes /tmp/confirm_<name>.log ; removes the scratch worktree afterwards.
name=$1; patch=$2; demo=$3
if [ "$4" != "notests" ]; then
  # several runners may work through the list: one of them takes a seed
  grep -q "^tests:" /tmp/confirm_$name.log 2>/dev/null && exit 0
  mkdir /tmp/confirm_$name.lock 2>/dev/null || exit 0
fi
wt=/tmp/cf_$name
log=/tmp/confirm_$name.log
: > $log
git -C /repo worktree remove --force $wt >/dev/null 2>&1
git -C /repo worktree add --detach $wt HEAD >/dev/null 2>&1 || { echo "worktree failed" >> $log; exit 3; }
mkdir -p $wt/_out && cp $demo $wt/_out/demo.py
cd $wt
PYTHONPATH=$wt/src timeout 600 /venv/bin/python _out/demo.py > /tmp/confirm_$name.demo0 2>&1; echo "demo_without_patch_exit=$?" >> $log
if git apply $patch; then echo "patch_applies=yes" >> $log; else echo "patch_applies=no" >> $log; fi
PYTHONPATH=$wt/src timeout 600 /venv/bin/python _out/demo.py > /tmp/confirm_$name.demo1 2>&1; echo "demo_with_patch_exit=$?" >> $log
if [ "$4" != "notests" ]; then
  PYTHONPATH=$wt/src timeout 3000 /venv/bin/python -m pytest -q -p no:cacheprovider --timeout=900 -rf 2>&1 | grep -E "^(FAILED|ERROR)|passed|failed" | cut -c1-300 > /tmp/confirm_$name.tests
  echo "tests: $(tail -1 /tmp/confirm_$name.tests)" >> $log
  # a failure under load is re-run alone, with and without the change, to attribute it
  grep -E "^FAILED" /tmp/confirm_$name.tests | awk '{print $2}' | head -5 | while read t; do
    PYTHONPATH=$wt/src timeout 900 /venv/bin/python -m pytest -q -p no:cacheprovider --timeout=600 "$t" >/dev/null 2>&1; w=$?
    git apply -R $patch
    PYTHONPATH=$wt/src timeout 900 /venv/bin/python -m pytest -q -p no:cacheprovider --timeout=600 "$t" >/dev/null 2>&1; wo=$?
    git apply $patch
    echo "rerun $t with_patch_exit=$w without_patch_exit=$wo" >> $log
  done
fi
cd /tmp
git -C /repo worktree remove --force $wt >/dev/null 2>&1
echo done >> $log
