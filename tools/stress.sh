#!/bin/sh
# stress.sh [rounds] : run every quick check several times while all cores are kept busy; list every run that does not
# exit 0 (a flaky check is a broken check). Output: /tmp/stress/<prop>.<round>.log for the failing runs, summary on stdout.
rounds=${1:-3}
cd "$(dirname "$0")/.."
mkdir -p /tmp/stress
n=$(nproc)
pids=""
for i in $(seq 1 $n); do python3 -c "while True: pass" & pids="$pids $!"; done
trap 'kill $pids 2>/dev/null' EXIT INT TERM
for r in $(seq 1 $rounds); do
  for p in C01 C02 C03 C04 C05 C06 C07 C08 C09 C10 C11 C12 C13 C14 C15 C16 C17 C18 C19 C20; do
    s=$(date +%s)
    VERIF_SEED=$r PYVC_OUT_DIR=/tmp/stress/out ./check $p > /tmp/stress/$p.$r.log 2>&1; code=$?
    echo "round $r $p exit=$code $(( $(date +%s)-s ))s"
    [ $code = 0 ] && rm -f /tmp/stress/$p.$r.log
  done
done
