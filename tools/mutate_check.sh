#!/bin/sh
# mutate_check.sh <prop> <only-substring> <file-relative-to-repo> <python-regex> <replacement> : apply one textual mutation
# to a scratch worktree of /repo, run one contract against it (PYVC_REPO), print the verdict lines, remove the worktree.
prop=$1; only=$2; file=$3; pat=$4; rep=$5
wt=/tmp/mut_$$
git -C /repo worktree add --detach $wt HEAD >/dev/null 2>&1 || exit 3
python3 - "$wt/$file" "$pat" "$rep" <<'P'
import re,sys
p,pat,rep=sys.argv[1:4]
s=open(p).read()
n=len(re.findall(pat,s,flags=re.S))
s2=re.sub(pat,rep,s,count=1,flags=re.S)
open(p,'w').write(s2)
print('matches',n,'changed',s!=s2)
P
cd /verif
if [ -n "$only" ]; then PYVC_REPO=$wt PYVC_OUT_DIR=/tmp/mut_out_$$ ./check $prop --only "$only" 2>&1 | grep -E "^VIOLATION|^UNDECIDED|^CRASH|obligations discharged" | cut -c1-400
else PYVC_REPO=$wt PYVC_OUT_DIR=/tmp/mut_out_$$ ./check $prop 2>&1 | grep -E "^VIOLATION|^UNDECIDED|^CRASH|obligations discharged" | cut -c1-400; fi
git -C /repo worktree remove --force $wt >/dev/null 2>&1
rm -rf /tmp/mut_out_$$
