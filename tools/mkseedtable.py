"""Regenerate section 8.7 of DESIGN.md (between the markers) from seeded/*/meta.json."""
import json, os, re
ROOT = '/verif/seeded'
rows = []
n = miss = 0
for d in sorted(x for x in os.listdir(ROOT) if not x.startswith('_')):
    m = json.load(open(os.path.join(ROOT, d, 'meta.json')))
    notes = ''
    np_ = os.path.join(ROOT, d, 'notes.md')
    patch = open(os.path.join(ROOT, d, 'patch.diff')).read()
    where = ', '.join(f.replace('src/sdc11073/', '') for f in m['files'])
    minus = [l[1:].strip() for l in patch.splitlines() if l.startswith('-') and not l.startswith('---')]
    plus = [l[1:].strip() for l in patch.splitlines() if l.startswith('+') and not l.startswith('+++')]
    change = (minus[0] if minus else '') + ' → ' + (plus[0] if plus else '')
    change = change.replace('|', '\\|')[:110]
    caught = m.get('caught_by') or {}
    own = caught.get(m['property'], [])
    others = sorted(k for k in caught if k != m['property'])
    names = sorted({o.split('.', 1)[1] if '.' in o else o for o in own})[:3]
    conf = m.get('confirmed', {})
    suite = conf.get('test_suite_with_patch', 'pending')
    suite = re.sub(r' in .*', '', suite)
    n += 1
    if m.get('initially_missed'):
        miss += 1
    rows.append(f"| {d} | `{where}`: `{change}` | {suite} | {'; '.join(names) or '-'}{(' (+ ' + ', '.join(others) + ')') if others else ''} | {m.get('initially_missed') or 'caught as first delivered'} |")
table = ['| seed | change (first changed line) | existing suite with the change | reported by (obligations of the target property; other properties) | first run against the checks |',
         '|---|---|---|---|---|'] + rows
text = '\n'.join(table)
summary = f'{n} kept changes ({miss} of them were not reported by the checks as first delivered and led to the strengthening described in the last column; all {n} are reported now).'
p = '/verif/DESIGN.md'
s = open(p).read()
a, b = '<!-- SEEDTABLE:BEGIN -->', '<!-- SEEDTABLE:END -->'
if a in s:
    s = s[:s.index(a) + len(a)] + '\n' + summary + '\n\n' + text + '\n' + s[s.index(b):]
    open(p, 'w').write(s)
print(summary)
