#!/usr/bin/env python3
"""Regenerate MANIFEST.json from tools/manifest_table.json (kept valid against /root/.vp/MANIFEST.schema.json)."""
import json
import os

ROOT = os.path.dirname(os.path.dirname(os.path.abspath(__file__)))
table = json.load(open(os.path.join(ROOT, 'tools', 'manifest_table.json')))
props = [json.loads(l) for l in open(os.path.join(ROOT, 'properties.jsonl'))]
BASE = json.load(open('/root/.vp/BASELINE.json'))['cmd'] if os.path.exists('/root/.vp/BASELINE.json') else ''
checks, na = [], []
for p in props:
    pid = p['id']
    t = table['checks'].get(pid)
    if t is None:
        na.append({'property_id': pid, 'reason': table['not_applicable'].get(pid, 'no check built yet with the contract-based technique; not claimed')})
        continue
    checks.append({
        'property_id': pid,
        'quick_cmd': f'./check {pid} --tier quick',
        'thorough_cmd': f'./check {pid} --tier thorough',
        'evidence_file': f'evidence/{pid}.json',
        'replay_cmd_template': './check --replay {path}',
        'engine': 'pyvc',
        'level_claimed': {'category': 'proof', 'text': t['text'], 'design_ref': f'DESIGN.md section 4, {pid}'},
        'level_note': t['note'],
        'technique': t.get('technique', 'contract-based deductive verification: VCs generated from the real Python AST by symbolic execution against sidecar contracts, discharged by z3/cvc5'),
    })
man = {
    'version': 1,
    'setup_cmd': 'sh tools/setup.sh',
    'hooks': {'guard': 'SDC11073_VERIF', 'enable': 'unused: contracts are sidecar files, no source hooks are compiled in',
              'baseline_off_cmd': BASE.replace('--junitxml=<file>', '--junitxml=/tmp/verif_baseline_junit.xml'),
              'source_commits': [], 'add_only': True},
    'engines': [{'name': 'pyvc', 'path': 'pyvc/', 'serves_properties': [c['property_id'] for c in checks],
                 'kind_free_text': 'home-grown VC generator: symbolic execution of the real function ASTs (re-read from /repo/src on every run) against sidecar contracts in contracts/, obligations discharged by z3 5.1 (python API) with cvc5 1.0 / z3 4.8 CLI fallback; native replay of counterexamples under /venv/bin/python'}],
    'checks': checks,
    'notes': table.get('notes', ''),
    'not_applicable': na,
}
json.dump(man, open(os.path.join(ROOT, 'MANIFEST.json'), 'w'), indent=1)
print(len(checks), 'checks', len(na), 'not applicable')
