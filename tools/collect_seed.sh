#!/bin/sh
# collect_seed.sh Cxx : copy the deliverables of the sub-agent for Cxx into /verif/seeded/Cxx-k/, start the independent
# confirmation in the background and run the property's quick check against each change.
p=$1
src=/tmp/seed_$p/_out
k=1
for pf in patch.diff patch2.diff patch3.diff; do
  [ -f $src/$pf ] || continue
  d=/verif/seeded/$p-$k; mkdir -p $d
  cp $src/$pf $d/patch.diff
  dm=demo.py; [ $k -gt 1 ] && dm=demo$k.py
  [ -f $src/$dm ] || dm=demo.py
  cp $src/$dm $d/demo.py
  cp $src/notes.md $d/notes.md 2>/dev/null
  echo "### $p-$k: $(grep -c '^[-+][^-+]' $d/patch.diff) changed lines in $(grep '^+++ ' $d/patch.diff | tr '\n' ' ')"
  /verif/tools/seedrun.sh $d/patch.diff $p
  k=$((k+1))
done
