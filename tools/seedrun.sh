#!/bin/sh
# seedrun.sh <patch.diff> [props...] : apply a seeded change to /repo, run the quick checks, undo it straight afterwards.
patch=$1; shift
props=${*:-C01 C02 C03 C04 C05 C06 C07 C08 C09 C10 C11 C12 C13 C14 C15 C16 C17 C18 C19 C20}
cd /verif
git -C /repo apply $patch || { echo "patch does not apply"; exit 3; }
trap 'git -C /repo checkout -- . ; git -C /verif checkout -- evidence >/dev/null 2>&1' EXIT INT TERM
for p in $props; do
  out=$(./check $p 2>&1); code=$?
  echo "== $p exit=$code"
  echo "$out" | grep -E "^VIOLATION|^UNDECIDED|^CRASH" | head -6
done
