"""vcdebug.py <prop> <check id> [name-substring] : generate the VCs of one contract and show, per VC, verdict / time;
with PYVC_DUMP=<dir> the failing ones are dumped as SMT-LIB. Development aid only (not part of any check)."""
import importlib, os, sys, time
sys.path.insert(0, os.path.dirname(os.path.dirname(os.path.abspath(__file__))))
import z3
from pyvc.api import REGISTRY
from pyvc.source import Repo
from pyvc import solve

prop, cid = sys.argv[1], sys.argv[2]
sub = sys.argv[3] if len(sys.argv) > 3 else ''
importlib.import_module('contracts.' + prop)
chk = [c for c in REGISTRY[prop] if c.id == cid][0]
t = time.time()
vcs, meta = chk.generate(Repo())
print('generated', len(vcs), 'VCs in', round(time.time() - t, 1), 's; paths', meta.get('paths'))
for vc in vcs:
    if sub not in vc.name or vc.expect == 'sat':
        continue
    t = time.time()
    r = solve.ematch_check(vc.pc, z3.Not(vc.goal), timeout_ms=6000, auto_config=False)
    print(f'{vc.name:90s} {r:10s} {time.time() - t:5.2f}s  trace={vc.info}')
    if r != 'unsat' and os.environ.get('PYVC_DUMP'):
        os.makedirs(os.environ['PYVC_DUMP'], exist_ok=True)
        s = z3.Solver(); s.add(*vc.pc); s.add(z3.Not(vc.goal))
        open(os.path.join(os.environ['PYVC_DUMP'], vc.name + f'.{vc.info.get("n")}.smt2'), 'w').write(s.to_smt2())
if os.environ.get('PYVC_IPY'):
    import code; code.interact(local=globals())
