#!/bin/sh
# collect_seed5.sh Cxx : wave 5 (worktree /tmp/seed5_Cxx); seeds are numbered 7
p=$1
src=/tmp/seed5_$p/_out
[ -f $src/patch.diff ] || { echo "$p: no patch"; exit 1; }
d=/verif/seeded/$p-7; mkdir -p $d
cp $src/patch.diff $d/patch.diff; cp $src/demo.py $d/demo.py; cp $src/notes.md $d/notes.md 2>/dev/null
echo "### $p-7: $(grep -c '^[-+][^-+]' $d/patch.diff) changed lines in $(grep '^+++ ' $d/patch.diff | tr '\n' ' ')"
git -C /repo apply --check $d/patch.diff && echo "applies to /repo HEAD"
