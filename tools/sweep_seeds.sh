#!/bin/sh
# sweep_seeds.sh [ids...] : run every property's quick check against every seeded change (scratch worktree + PYVC_REPO),
# results in /tmp/sweep_out/<id>.txt  (lines: "<prop> exit=<code> <violated obligation names>")
out=/tmp/sweep_out; mkdir -p $out
here=$(pwd)
ids=${*:-$(ls /verif/seeded | grep -v "^_")}
for id in $ids; do
  [ -f $out/$id.txt ] && continue
  wt=/tmp/sw_$id
  git -C /repo worktree remove --force $wt >/dev/null 2>&1
  git -C /repo worktree add --detach $wt HEAD >/dev/null 2>&1 || continue
  if ! git -C $wt apply /verif/seeded/$id/patch.diff; then echo "patch does not apply" > $out/$id.txt; git -C /repo worktree remove --force $wt; continue; fi
  : > $out/$id.tmp
  for p in C01 C02 C03 C04 C05 C06 C07 C08 C09 C10 C11 C12 C13 C14 C15 C16 C17 C18 C19 C20; do
    res=$(PYVC_REPO=$wt ./check $p 2>&1); code=$?
    names=$(echo "$res" | grep "^VIOLATION" | sed -E 's/.*replays\/C[0-9]+_//; s/_[0-9a-f]{10}\.json.*//' | sort -u | tr '\n' ' ')
    echo "$p exit=$code $names" >> $out/$id.tmp
  done
  mv $out/$id.tmp $out/$id.txt
  git -C /repo worktree remove --force $wt >/dev/null 2>&1
done
