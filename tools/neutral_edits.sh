#!/bin/sh
# neutral_edits.sh [props...] : robustness against harmless edits. A scratch worktree of /repo gets semantics-preserving
# edits in every module under src/sdc11073 (a comment line at the top of each file and before every `return` statement
# => every line number moves; a few locals renamed); every quick check must still exit 0 on it.
wt=/tmp/neutral_wt
git -C /repo worktree remove --force $wt >/dev/null 2>&1
git -C /repo worktree add --detach $wt HEAD >/dev/null 2>&1 || exit 3
python3 - $wt <<'P'
import re, sys, pathlib
wt = pathlib.Path(sys.argv[1])
n = 0
for f in (wt / 'src' / 'sdc11073').rglob('*.py'):
    s = f.read_text()
    out = []
    for line in s.splitlines(keepends=True):
        m = re.match(r'^( +)return\b', line)
        if m:
            out.append(f'{m.group(1)}# neutral edit\n')
            n += 1
        out.append(line)
    f.write_text('# neutral edit: every line number below moves\n' + ''.join(out))
# renamed locals (whole-word, function-local names that occur in one function only)
for rel, old, new in (('src/sdc11073/mdib/transactions.py', 'tmp_state', 'work_state'),
                      ('src/sdc11073/multikey.py', 'idx_name', 'index_label'),
                      ('src/sdc11073/location.py', 'my_attr', 'own_value'),
                      ('src/sdc11073/provider/sco.py', 'transaction_id', 'transaction_id'),
                      ('src/sdc11073/pysoap/soapclient.py', 'compr', 'coding')):
    p = wt / rel
    s = p.read_text()
    p.write_text(re.sub(r'\b%s\b' % old, new, s))
# a harmless logging statement in a function that a syntactic frame looks at
p = wt / 'src/sdc11073/httpserver/httprequesthandler.py'
s = p.read_text()
s = s.replace("        # neutral edit\n        return HTTPReader.read_request_body(self)",
              "        self.server.logger.debug('reading request body')\n        # neutral edit\n        return HTTPReader.read_request_body(self)")
p.write_text(s)
print('comment lines inserted:', n)
P
cd $wt && PYTHONPATH=$wt/src /venv/bin/python -c "import sdc11073, sdc11073.mdib, sdc11073.provider, sdc11073.consumer; print('imports ok')" || exit 3
cd /verif
rc=0
for p in ${*:-C01 C02 C03 C04 C05 C06 C07 C08 C09 C10 C11 C12 C13 C14 C15 C16 C17 C18 C19 C20}; do
  res=$(PYVC_REPO=$wt PYVC_OUT_DIR=/tmp/neutral_ev ./check $p 2>&1); code=$?
  echo "$p exit=$code $(echo "$res" | tail -1)"
  [ $code != 0 ] && { rc=1; echo "$res" | grep -E "^VIOLATION|^UNDECIDED|^CRASH" | head -8 | cut -c1-260; }
done
git -C /repo worktree remove --force $wt >/dev/null 2>&1; rm -rf /tmp/neutral_ev
exit $rc
