#!/bin/sh
# collect_seedN.sh <wave dir prefix, e.g. /tmp/seed9_> Cxx : copy a delivered seed to the next free /verif/seeded/Cxx-<n>, remove the worktree
pre=$1; p=$2
src=${pre}$p/_out
[ -f $src/patch.diff ] || { echo "$p: no patch"; exit 1; }
n=1; while [ -d /verif/seeded/$p-$n ]; do n=$((n+1)); done
d=/verif/seeded/$p-$n; mkdir -p $d
cp $src/patch.diff $d/patch.diff; cp $src/demo.py $d/demo.py; cp $src/notes.md $d/notes.md 2>/dev/null
echo "### $p-$n: $(grep -c '^[-+][^-+]' $d/patch.diff) changed lines in $(grep '^+++ ' $d/patch.diff | tr '\n' ' ')"
git -C /repo apply --check $d/patch.diff && echo "applies to /repo HEAD"
git -C /repo worktree remove --force ${pre}$p >/dev/null 2>&1; rm -rf ${pre}$p
echo $p-$n
