#!/bin/sh
# sweep_all.sh <seed id> : run every property's quick check against one seeded change (scratch worktree + PYVC_REPO,
# output redirected with PYVC_OUT_DIR); result in /tmp/sweep_all/<id>.txt ("<prop> exit=<code> <violated obligations>")
id=$1
out=/tmp/sweep_all; mkdir -p $out
here=$(cd "$(dirname "$0")/.." && pwd)
cd $here
wt=/tmp/swa_$id
git -C /repo worktree remove --force $wt >/dev/null 2>&1
git -C /repo worktree add --detach $wt HEAD >/dev/null 2>&1 || exit 3
if ! git -C $wt apply /verif/seeded/$id/patch.diff; then echo "patch does not apply" > $out/$id.txt; git -C /repo worktree remove --force $wt; exit 0; fi
: > $out/$id.tmp
for p in C01 C02 C03 C04 C05 C06 C07 C08 C09 C10 C11 C12 C13 C14 C15 C16 C17 C18 C19 C20; do
  res=$(PYVC_REPO=$wt PYVC_OUT_DIR=/tmp/swa_out_$id ./check $p 2>&1); code=$?
  names=$(echo "$res" | grep "^VIOLATION" | sed -E 's/.*replays\/C[0-9]+_//; s/_[0-9a-f]{10}\.json.*//' | sort -u | tr '\n' ' ')
  echo "$p exit=$code $names" >> $out/$id.tmp
done
mv $out/$id.tmp $out/$id.txt
git -C /repo worktree remove --force $wt >/dev/null 2>&1
rm -rf /tmp/swa_out_$id
