#!/bin/sh
# sweep_target.sh [ids...] : run the quick check of each seed's own property against the seeded change
# (scratch worktree + PYVC_REPO), result line appended to /tmp/sweep_out/<id>.txt ("<prop> exit=<code> <obligations>")
out=/tmp/sweep_out; mkdir -p $out
here=$(cd "$(dirname "$0")/.." && pwd)
cd $here
ids=${*:-$(ls $here/seeded | grep -v "^_")}
for id in $ids; do
  p=${id%%-*}
  grep -q "^$p " $out/$id.txt 2>/dev/null && continue
  wt=/tmp/swt_$id
  git -C /repo worktree remove --force $wt >/dev/null 2>&1
  git -C /repo worktree add --detach $wt HEAD >/dev/null 2>&1 || continue
  if ! git -C $wt apply $here/seeded/$id/patch.diff; then echo "patch does not apply" > $out/$id.txt; git -C /repo worktree remove --force $wt; continue; fi
  res=$(PYVC_REPO=$wt PYVC_OUT_DIR=/tmp/sweep_ev_$id ./check $p 2>&1); code=$?
  names=$(echo "$res" | grep "^VIOLATION" | sed -E 's/.*replays\/C[0-9]+_//; s/_[0-9a-f]{10}\.json.*//' | sort -u | tr '\n' ' ')
  und=$(echo "$res" | grep -c "^UNDECIDED")
  echo "$p exit=$code $names" >> $out/$id.txt
  [ $code != 1 ] && echo "$res" | grep -E "^UNDECIDED|^CRASH|Traceback" | head -5 > $out/$id.undecided
  git -C /repo worktree remove --force $wt >/dev/null 2>&1
  rm -rf /tmp/sweep_ev_$id
done
