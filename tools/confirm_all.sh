#!/bin/sh
# confirm every seeded change that has no finished confirmation log yet, at most $1 (default 3) at a time
par=${1:-3}
cd /verif/seeded
for d in C*/; do
  n=${d%/}
  grep -q "^tests:" /tmp/confirm_$n.log 2>/dev/null && continue
  echo $n
done | xargs -P $par -I{} /verif/tools/confirm_seed.sh {} /verif/seeded/{}/patch.diff /verif/seeded/{}/demo.py
