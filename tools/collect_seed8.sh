#!/bin/sh
# collect_seed6.sh Cxx : wave 8 (worktree /tmp/seed8_Cxx); seeds are numbered 10; removes the agent's worktree
p=$1
src=/tmp/seed8_$p/_out
[ -f $src/patch.diff ] || { echo "$p: no patch"; exit 1; }
d=/verif/seeded/$p-10; mkdir -p $d
cp $src/patch.diff $d/patch.diff; cp $src/demo.py $d/demo.py; cp $src/notes.md $d/notes.md 2>/dev/null
echo "### $p-10: $(grep -c '^[-+][^-+]' $d/patch.diff) changed lines in $(grep '^+++ ' $d/patch.diff | tr '\n' ' ')"
git -C /repo apply --check $d/patch.diff && echo "applies to /repo HEAD"
git -C /repo worktree remove --force /tmp/seed8_$p >/dev/null 2>&1; rm -rf /tmp/seed8_$p
