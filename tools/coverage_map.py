"""For every property: functions of its anchor files that are under contract (targets of registered checks) and those
that are not.  python3-vt tools/coverage_map.py [Cxx]"""
import ast, importlib, json, os, sys
sys.path.insert(0, '/verif')
from pyvc.api import REGISTRY
props = [json.loads(l) for l in open('/verif/properties.jsonl')]
only = sys.argv[1:] 
targets = {}
for p in props:
    pid = p['id']
    try:
        importlib.import_module('contracts.' + pid)
    except Exception as ex:
        print(pid, 'import failed', ex)
for pid, checks in REGISTRY.items():
    for c in checks:
        ts = []
        if getattr(c, 'target', None):
            ts.append(c.target)
        ts += list(getattr(c, 'targets_list', ()) or ())
        for t in ts:
            mod, _, qual = t.partition(':')
            targets.setdefault(mod.replace('.', '/') + '.py', set()).add(qual)
for p in props:
    if only and p['id'] not in only:
        continue
    print('==', p['id'], p['title'])
    for f in p['anchors']['files']:
        if not f.endswith('.py'):
            continue
        path = os.path.join('/repo', f)
        if not os.path.exists(path):
            continue
        key = f.replace('src/', '')
        under = targets.get(key, set())
        tree = ast.parse(open(path).read())
        names = []
        for n in tree.body:
            if isinstance(n, (ast.FunctionDef, ast.AsyncFunctionDef)):
                names.append(n.name)
            elif isinstance(n, ast.ClassDef):
                for m in n.body:
                    if isinstance(m, (ast.FunctionDef, ast.AsyncFunctionDef)):
                        names.append(f'{n.name}.{m.name}')
        cov = [n for n in names if n in under]
        unc = [n for n in names if n not in under and not n.split('.')[-1].startswith('__')]
        print(f'  {f}: {len(cov)}/{len(names)} under contract; not: {", ".join(unc[:40])}{" ..." if len(unc) > 40 else ""}')
