"""Write seeded/<id>/meta.json from the patch, the confirmation logs and the sweep results."""
import json, os, re, glob
ROOT = '/verif/seeded'
INITIAL_MISS = {'C14-10': 'the ProbeMatches handler was under contract only through _add_remote_service (one entry per message in every bounded history); an early return inside its loop over several entries was not excluded',
                'C17-9': 'two cooperating sites: the reader rejects an unsupported coding before reading the body, the handler answers 415 and keeps the connection; nothing stated that a failed read always closes the connection (unread body bytes are parsed as the next request)',
                'C05-10': 'the decimal lexical-form enumeration (no exponent form in xs:decimal) ran under C18 only; C05 re-checked the timestamp lemma but trusted the decimal one',
                'C15-6': 'the send loop was proved never to send the queue head early, but nothing stated that the queue is ordered by due time (dataclass field order is the sort key)',
                'C07-4': 'the deep-copy obligation of write_entity existed under C02 only and was reported there as undecided (copy.copy had no summary); C07 did not re-check that committed states share nothing with the entity the application keeps',
                'C13-6': 'nothing constrained what ends up in the reason phrase of the status line (http.server encodes it as strict latin-1 and writes it verbatim); the bounded requests were ASCII',
                'C03-5': 'the parent-version contract (copy appended to the result) was registered under C02 and C04 only',
                'C05-8': 'the reader of element lists (SubElementListProperty.get_py_value_from_node) was not under contract and no bounded instance holds a list that mixes derived types; first reported as undecided (list comprehension over a symbolic list was not modelled)',
                'C09-6': 'execute_operation was only a callee summary (may return or raise) of the sco contracts; nothing stated that it lets the handler exception through',
                'C12-10': 'the copy-on-update contract of _update_from_other existed under C01 only; the bounded C12 checks append to members that are non-empty at copy time',
                'C19-10': 'the contract called _mk_soap_client with the parameters it had; a new optional parameter (default None) kept the old behaviour for that call. The engine now binds parameters added after the baseline to arbitrary values (also catches C19-5 deductively)',
                'C14-8': 'reported as undecided (exit 2): the new optional parameter was compared with <, which the engine did not model for values of unknown kind',
                'C16-10': 'the chain from the associated location state to the published scope was bounded (C16.published_chain builds every state from scratch); update_from_sdc_location on a state that already carries a location was not under contract',
                'C17-10': 'the codec handlers were trusted library calls (round trip of ONE message at a time, bounded); nothing stated that they keep no state between / across concurrent messages',
                'C20-10': 'the bounded text-filter check fills a storage, queries and compares - it never queries twice with a changed text in between; how n_o_l is obtained was not under contract',
                'C13-9': 'reads of the request stream were only exercised on in-memory streams (end-of-stream arrives at once) and no contract bounded the size of a read; the same gap hid the genuine Content-Length: -1 defect (fixed in 10256c0)',
                'C15-9': 'stopping the networking thread was not under contract: join() with a timeout that clears the send queue drops scheduled repetitions; the schedule and the send loop themselves were proved',
                'C18-9': 'the converters were under contract, the shared read path of typed attributes (which decides whether a present lexical value reaches its converter at all) only under C05',
                'C01-9': 'buffering of early notifications (reload_all / _pre_check_report_ok) was proved under C06 only; C01 names it as its third mechanism but did not re-check it, and no bounded history delivers a report during the replay',
                'C19-9': 'clients created by the provider / consumer factories were proved to carry the TLS context, but nothing stated that the factories are the only way a connection is opened (a direct urllib.request.urlopen in the WSDL reader bypassed them); the bounded TLS run only meets WSDL locations on the hosted endpoint',
                'C04-9': 'the commit-and-notify critical section was proved under C02 only and did not treat the rt_updates observable as a publication; C04 (report order = commit order) did not re-check it',
                'C05-9': 'time zones of DateOfBirth were sampled (whole hours, +-45 min), not enumerated; offsets between -00:59 and -00:01 were never written',
                'C10-9': 'that the stamped new_mdib_version is the version the commit creates was trusted from C02 (transaction created inside the locks, commit sets exactly new_mdib_version) and not re-checked by the C10 check',
                'C03-8': 'no contract stated the frame "API methods of a transaction body only queue" (a table mutation inside write_entity was an unknown call the opaque-callee rule accepted) and no bounded history deleted a context state through the entity interface before aborting',
                'C16-8': '_scope_string_matches was under a totality contract only (never raises); its result was not tied to from_scope_string + __contains__',
                'C01-1': 'provider function _increment_parent_descriptor_version was not under contract and histories created one child per transaction',
                'C02-2': 'StateTransactionBase.write_entity was not under contract',
                'C03-1': 'snapshot did not include the version memory and no history re-created a removed handle after an abort',
                'C05-2': 'update_from_node (re-reading into a populated object) was not under contract / not exercised',
                'C07-1': 'contract checked where tables are read, not that only copies leave the critical section',
                'C08-2': 'only the synchronous SubscriptionEnd sender was under contract',
                'C09-2': 'completion from the response alone was accepted for every final state',
                'C11-2': 're-index order at the provider commit of a descriptor update was not under contract',
                'C15-2': 'the own-id bookkeeping contract was registered under C14 only',
                'C17-2': 'only byte flips, no truncations of encoded bodies were tried',
                'C18-1': 'reported as undecided (exit 2): the decimal enumeration crashed on the unreadable output instead of reporting it',
                'C19-2': 'contract fixed cyphers=None instead of leaving the optional arguments symbolic',
                'C20-2': 'version 0 was neither stored nor requested in the bounded text-filter check',
                'C03-4': 'MultiStateEntity.update() was not under contract (only the entity getters were)',
                'C04-3': 'reported as undecided (exit 2): the changed function uses a dict comprehension, which the executor does not model outside structural checks; no history updated a context descriptor owning two states',
                'C05-3': 'C05 trusted the converter lemma proved under C18 without re-checking it',
                'C07-3': 'only the branch of _update_corresponding_state with the state inside the transaction was under contract; the copy branch was not',
                'C08-4': 'on_renew_request was only checked for unknown identifiers, not for the content / order of the answer',
                'C13-3': 'no raw request carried a malformed Accept-Encoding header; the C17 enumeration crashed on the raising parser (undecided) instead of reporting it',
                'C13-4': 'the consumer-side deferred dispatcher was not under contract',
                'C15-3': 'reported as undecided (exit 2): the refutation was replayed only with draws inside the legal window, so the model looked spurious',
                'C15-4': 'the send loop (_run_send) was declared out of reach and had no contract',
                'C16-3': 'the foreign-scope enumeration had malformed strings only, no well-formed scope with unknown / duplicated / empty query keys',
                'C16-4': 'no check parsed the same scope twice with a modification in between (parse assumed stateless)',
                'C17-3': 'reported as undecided (exit 2): next(iter(...)) was not modelled and the enabled codings were an abstract set without a list view',
                'C17-4': 'the bounded client check injected the configuration into a stand-in object and so bypassed SoapClient.__init__',
                'C20-4': 'no history queried the languages, added texts and queried again',
                'C04-5': 'the parent-version contract existed under C02 only; C04 did not re-check that the report copy is taken after the increment',
                'C04-6': 'the periodic send loop was not under contract (bounded harness only counts reports)',
                'C05-6': 'AllowedValuesType.is_empty was not under contract and no bounded instance had exactly one allowed value',
                'C07-5': 'copy-on-write (mk_copy deep) was proved under C03 only; the snapshot argument of C07 did not re-check it',
                'C07-6': 'the transaction manager contract (C02) identified locks by the NAME of the with-target, so a local variable called mdib_lock holding nullcontext() passed; locks are now identified by attribute path',
                'C08-5': 'SoapClientPool was not under contract',
                'C08-6': 'the constructor that builds the action filter list was not under contract (only matches())',
                'C09-5': 'enqueue_operation was only a callee summary (may raise queue.Full), its body was not under contract',
                'C13-5': 'no obligation bounded the wait of the request thread for the operation worker',
                'C15-5': 'which parameter set a send function schedules with was not checked (only the schedule for a given set)',
                'C17-6': 'the proofs spoke about server.supported_encodings but not about who keeps that list current (copy at construction time)',
                'C19-6': 'mk_ssl_contexts_from_folder (the convenience wrapper) was not under contract',
                'C01-7': 'the context-descriptor branch of _update_corresponding_state was not under contract and no history updated a context descriptor that owns a disassociated state',
                'C06-7': 'the observers in consumermdibxtra.py that feed reports into the MDIB were not under contract',
                'C07-7': 'nothing stated that serialising a state must not look at its (in place updated) descriptor',
                'C09-7': 'the serial-order enumeration had at most one foreign report part between own report and response',
                'C11-7': 'contracts covered MultiKeyLookup; nothing stated that the table subclasses in mdibbase.py only delegate (a new override escaped), and no history re-added a stored object',
                'C12-7': 'the default-flow scan looked at the value-producing methods only, not at __set__',
                'C13-7': 'raw requests went to a dummy component; no request with a percent-encoded path reached the real middleware',
                'C15-7': '_send_msg was a callee summary of the send loop, its body was not under contract',
                'C17-7': 'the asynchronous client was not exercised; only SoapClient._send_soap_request was',
                'C19-7': 'the send contracts checked the connection (netloc) but not that only the path component is posted',
                'C20-7': 'the localization handlers (pass-through to the storage) were not under contract',
                'C09-3': 'reported as undecided (exit 2): obligations were attached to the notification calls, so an iteration that never reaches the Fail report produced no obligation'}
for d in sorted(x for x in os.listdir(ROOT) if not x.startswith("_")):
    p = os.path.join(ROOT, d)
    if not os.path.isdir(p):
        continue
    prop = d.split('-')[0]
    patch = open(os.path.join(p, 'patch.diff')).read()
    files = re.findall(r'^\+\+\+ b/(\S+)', patch, re.M)
    funcs = sorted(set(re.findall(r'^@@.*@@\s*(?:async\s+)?(?:def|class)\s+(\w+)', patch, re.M)))
    meta = {'id': d, 'property': prop, 'files': files, 'hunk_context': funcs,
            'changed_lines': len(re.findall(r'^[-+][^-+]', patch, re.M)), 'source': 'independent sub-agent given only the property text',
            'demo': 'demo.py (exit 0 unchanged tree / exit 1 with the change)'}
    log = f'/tmp/confirm_{d}.log'
    if os.path.exists(log):
        t = open(log).read()
        meta['confirmed'] = {'demo_without_patch_exit': int(re.search(r'demo_without_patch_exit=(\d+)', t).group(1)) if 'demo_without_patch_exit' in t else None,
                             'demo_with_patch_exit': int(re.search(r'demo_with_patch_exit=(\d+)', t).group(1)) if 'demo_with_patch_exit' in t else None,
                             'test_suite_with_patch': (re.search(r'tests: (.*)', t).group(1).strip(' =') if 'tests:' in t else 'pending'),
                             'reruns': re.findall(r'rerun (.*)', t)}
    sw = f'/tmp/sweep_out/{d}.txt'
    if os.path.exists(sw):
        caught = {}
        for line in open(sw):
            parts = line.split()
            if len(parts) >= 2 and parts[1] == 'exit=1':
                caught[parts[0]] = parts[2:]
        meta['caught_by'] = caught
    old = {}
    mp = os.path.join(p, 'meta.json')
    if os.path.exists(mp):
        old = json.load(open(mp))
    for k in ('confirmed', 'caught_by', 'caught_by_target_check'):
        if k not in meta and k in old:
            meta[k] = old[k]
    meta['initially_missed'] = INITIAL_MISS.get(d)
    json.dump(meta, open(mp, 'w'), indent=1)
print('ok')
