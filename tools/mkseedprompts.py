"""mkseedprompts.py <wave dir prefix, e.g. /tmp/seed11_> Cxx [Cyy ...] : write <prefix>prompts/<Cxx>.prompt for fresh seed
sub-agents (property text from properties.jsonl + the list of changes already tried, from seeded/<Cxx>-*/patch.diff) and create
a scratch worktree <prefix><Cxx> of /repo HEAD for each. The prompt names nothing from /verif."""
import glob
import json
import os
import re
import sys

here = os.path.dirname(os.path.dirname(os.path.abspath(__file__)))
tmpl = open(os.path.join(here, 'tools', 'seed_prompt_template.txt')).read()
props = {json.loads(l)['id']: json.loads(l) for l in open(os.path.join(here, 'properties.jsonl'))}
prefix, ids = sys.argv[1], sys.argv[2:]
os.makedirs(prefix + 'prompts', exist_ok=True)
for p in ids:
    d = props[p]
    a = d['anchors']
    text = (f"PROPERTY {p}: {d['title']}\n\nStatement: {d['statement']}\n\nQuantifier: {d['quantifier']['text']}\n\n"
            f"Why the existing tests cannot settle it: {d['why_tests_cant']}\n\nAnchor files: {', '.join(a['files'])}\n"
            f"Mechanisms: " + '; '.join(f"{m['name']} ({m['where']})" for m in a.get('mechanism', [])) + '\n')
    tried = []
    for sd in sorted(glob.glob(os.path.join(here, 'seeded', p + '-*'))):
        diff = open(os.path.join(sd, 'patch.diff')).read()
        files = re.findall(r'^\+\+\+ b/(\S+)', diff, flags=re.M)
        ctx = re.findall(r'^@@.*@@ (.*)$', diff, flags=re.M)
        rem = [l[1:].strip() for l in diff.splitlines() if l.startswith('-') and not l.startswith('---') and l[1:].strip()][:2]
        add = [l[1:].strip() for l in diff.splitlines() if l.startswith('+') and not l.startswith('+++') and l[1:].strip()][:2]
        tried.append(f"- {', '.join(files)} ({'; '.join(dict.fromkeys(ctx))[:120]}): `{' / '.join(rem)[:150]}` -> `{' / '.join(add)[:150]}`")
    wt = prefix + p
    s = tmpl.replace('__WT__', wt).replace('__PROP__', text).replace('__TRIED__', '\n'.join(tried))
    s = s.replace('run the test modules most related', 'IMPORTANT: never use pkill/killall or any process-name pattern to stop '
                  'processes (other people run test suites on this machine); stop only processes you started, by PID. Run the '
                  'test modules most related')
    open(f'{prefix}prompts/{p}.prompt', 'w').write(s)
    os.system(f'git -C /repo worktree remove --force {wt} >/dev/null 2>&1; git -C /repo worktree add --detach {wt} HEAD >/dev/null 2>&1; mkdir -p {wt}/_out')
    print(p, 'prompt', f'{prefix}prompts/{p}.prompt', 'worktree', wt, 'already tried:', len(tried))
