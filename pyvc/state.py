"""Symbolic program state: path condition, locals, SSA heap arrays, ghost state."""
from __future__ import annotations

import z3

from .vals import (V, Val, SeqVal, IntS, BoolS, Unsupported, fresh, fresh_name, box, vany, vref, NONE)

FRESH_BASE = 10 ** 9  # oids >= FRESH_BASE are allocated during the execution (concrete, pairwise distinct)
LOOP_BASE = 2 * 10 ** 9  # oids >= LOOP_BASE: allocated inside a cut-point loop body (symbolic, fresh w.r.t. array 'A')

ARR_SORTS = {
    'L': z3.ArraySort(IntS, SeqVal),                       # list / tuple / deque contents
    'DK': z3.ArraySort(IntS, z3.ArraySort(Val, BoolS)),    # dict key domain
    'DV': z3.ArraySort(IntS, z3.ArraySort(Val, Val)),      # dict values
    'DN': z3.ArraySort(IntS, IntS),                        # dict size
    'S': z3.ArraySort(IntS, z3.ArraySort(Val, BoolS)),     # set membership
    'SN': z3.ArraySort(IntS, IntS),                        # set size
    'C': z3.ArraySort(IntS, IntS),                         # class id of an object
    'A': z3.ArraySort(IntS, BoolS),                        # allocated-in-a-loop predicate (grows monotonically)
}
FIELD_SORT = z3.ArraySort(IntS, Val)


def arr_sort(name):
    if name.startswith('f:'):
        return FIELD_SORT
    if name.startswith('g:'):   # ghost arrays declared by contracts: sort registered in GHOST_SORTS
        return GHOST_SORTS[name]
    return ARR_SORTS[name]


GHOST_SORTS: dict[str, z3.SortRef] = {}


class Exc:
    """A raised exception (python-level)."""

    def __init__(self, cls: str, origin: str = '', value: V | None = None, args=()):
        self.cls = cls          # class name, or '*' = some unknown subclass of Exception
        self.origin = origin
        self.value = value
        self.args = args

    def __repr__(self):
        return f'Exc({self.cls} @ {self.origin})'


class Raise:
    def __init__(self, exc: Exc):
        self.exc = exc


class State:
    def __init__(self, ctx):
        self.ctx = ctx
        self.pc: list = []
        self.locals: dict[str, V] = {}
        self.arr: dict[str, z3.ExprRef] = {}
        self.epoch = 0                 # arrays absent from `arr` are the symbols H<epoch>.<name>
        self.ghost: dict = {}          # python-level ghost state (immutable values only)
        self.next_oid = FRESH_BASE
        self.trace: tuple = ()         # branch decisions (line numbers) for path naming
        self.exc_stack: tuple = ()     # exceptions being handled (for bare `raise`)
        self.private: frozenset = frozenset()   # fresh oids that were never stored in the heap / passed to unknown code
        self.sym_alloc = False         # inside a cut-point loop body: allocations get symbolic oids

    def fork(self) -> 'State':
        s = State.__new__(State)
        s.ctx = self.ctx
        s.pc = list(self.pc)
        s.locals = dict(self.locals)
        s.arr = dict(self.arr)
        s.epoch = self.epoch
        s.ghost = dict(self.ghost)
        s.next_oid = self.next_oid
        s.trace = self.trace
        s.exc_stack = self.exc_stack
        s.private = self.private
        s.sym_alloc = self.sym_alloc
        return s

    # -- heap arrays -------------------------------------------------------
    def get_arr(self, name: str):
        a = self.arr.get(name)
        if a is None:
            a = z3.Const(f'H{self.epoch}.{name}', arr_sort(name))
            self.arr[name] = a
        return a

    def set_arr(self, name: str, a):
        self.arr[name] = a

    def snapshot(self):
        """Immutable view of the heap (for old(...))."""
        s = self.fork()
        return s

    def havoc_heap(self, keep=()):
        """Forget everything about the heap except the arrays named in `keep` (and ghost arrays)."""
        old_arr = dict(self.arr)
        keep = tuple(keep) + tuple(getattr(self.ctx, 'stable_fields', ()))
        kept = {k: v for k, v in self.arr.items() if k in keep or k.startswith('g:') or k in ('C', 'A')}
        # class ids of existing objects never change
        old_epoch = self.epoch
        for k in keep:
            if k not in kept:
                kept[k] = z3.Const(f'H{old_epoch}.{k}', arr_sort(k))
        if 'C' not in kept:
            kept['C'] = z3.Const(f'H{old_epoch}.C', arr_sort('C'))
        kept_names = set(kept)
        self.arr = kept
        self.epoch = self.ctx.new_epoch()
        # objects allocated by this execution that never escaped keep their contents (unknown code cannot reach them)
        for oid in sorted(self.private):
            o = z3.IntVal(oid)
            for name, a_old in old_arr.items():
                if name in kept_names:
                    continue
                self.arr[name] = z3.Store(self.get_arr(name), o, z3.Select(a_old, o))

    def havoc_arrays(self, names):
        for n in names:
            self.arr[n] = fresh(arr_sort(n), f'H.{n}')

    # -- fields ------------------------------------------------------------
    def read_field(self, obj: V, name: str) -> V:
        a = self.get_arr('f:' + name)
        e = z3.simplify(z3.Select(a, obj.e))
        path = f'{obj.path}.{name}' if obj.path else None
        kind = getattr(self.ctx, 'field_types', {}).get(name)
        if kind is not None:
            # contract-declared typing of a field (for every object): recorded as an assumption
            from .vals import ACCESSOR
            self.ctx.assumptions.add(f'field typing: .{name} always holds a value of kind {kind}')
            return V(kind, z3.simplify(ACCESSOR[kind](e)), path=path)
        v = vany(e, path=path)
        v.maybe_none = (name in self.ctx.optional_fields)
        if name in getattr(self.ctx, 'objref_fields', ()):
            # contract-declared typing: the field holds None or a pre-existing object (instantiated per read)
            self.ctx.assumptions.add(f'field typing: .{name} holds None or an object that existed before the call')
            self.assume(z3.Or(Val.is_none(e), z3.And(Val.is_ref(e), Val.oid(e) > 0, Val.oid(e) < FRESH_BASE)))
        return v

    def write_field(self, obj: V, name: str, val: V):
        a = self.get_arr('f:' + name)
        self.arr['f:' + name] = z3.Store(a, obj.e, self.box(val))

    # -- allocation --------------------------------------------------------
    def alloc(self, cls=None, path=None) -> V:
        if self.sym_alloc:
            # An arbitrary iteration of a loop: the new object is distinct from every object allocated by earlier
            # iterations (array 'A'), from all straight-line allocations (< LOOP_BASE) and from the pre-state.
            o = fresh(IntS, 'new')
            a = self.get_arr('A')
            self.assume(z3.And(o >= LOOP_BASE, z3.Not(z3.Select(a, o))))
            self.arr['A'] = z3.Store(a, o, z3.BoolVal(True))
            v = vref(o, cls=cls, path=path)
            if cls is not None:
                self.arr['C'] = z3.Store(self.get_arr('C'), o, z3.IntVal(self.ctx.class_id(cls)))
            return v
        oid = self.next_oid
        self.next_oid += 1
        self.private = self.private | {oid}
        v = vref(oid, cls=cls, path=path)
        if cls is not None:
            cid = self.ctx.class_id(cls)
            self.arr['C'] = z3.Store(self.get_arr('C'), v.e, z3.IntVal(cid))
        return v

    def new_list(self, items=()) -> V:
        v = self.alloc('list')
        seq = z3.Empty(SeqVal)
        parts = [z3.Unit(self.box(i)) for i in items]
        if len(parts) == 1:
            seq = parts[0]
        elif parts:
            seq = z3.Concat(*parts)
        self.arr['L'] = z3.Store(self.get_arr('L'), v.e, seq)
        return v

    def new_dict(self) -> V:
        v = self.alloc('dict')
        if not self.sym_alloc:
            self.ghost['c:dictkeys:%d' % z3.simplify(v.e).as_long()] = ()      # literal keys stored so far (for f(**d))
        self.arr['DK'] = z3.Store(self.get_arr('DK'), v.e, z3.K(Val, z3.BoolVal(False)))
        self.arr['DN'] = z3.Store(self.get_arr('DN'), v.e, z3.IntVal(0))
        return v

    def new_set(self) -> V:
        v = self.alloc('set')
        self.arr['S'] = z3.Store(self.get_arr('S'), v.e, z3.K(Val, z3.BoolVal(False)))
        self.arr['SN'] = z3.Store(self.get_arr('SN'), v.e, z3.IntVal(0))
        return v

    def list_seq(self, v: V):
        return z3.simplify(z3.Select(self.get_arr('L'), v.e))

    def set_list_seq(self, v: V, seq):
        self.arr['L'] = z3.Store(self.get_arr('L'), v.e, seq)

    def escape(self, v: V):
        """Mark a value as reachable by unknown code (stored in the heap or handed to an unknown callee)."""
        if v.kind == 'ref' and self.private:
            e = z3.simplify(v.e)
            if z3.is_int_value(e) and e.as_long() in self.private:
                self.private = self.private - {e.as_long()}
        elif v.kind == 'tuple':
            for x in v.py:
                self.escape(x)
        elif v.kind == 'any' and self.private:
            k = z3.simplify(v.e)
            if z3.is_app(k) and k.decl().name() == 'ref' and z3.is_int_value(k.arg(0)):
                self.private = self.private - {k.arg(0).as_long()}

    def box(self, v: V):
        self.escape(v)
        if v.kind == 'tuple':
            # immutable tuple stored in the heap: boxed as an object whose L entry holds the items
            t = self.alloc('tuple')
            seq = z3.Empty(SeqVal)
            parts = [z3.Unit(self.box(i)) for i in v.py]
            if len(parts) == 1:
                seq = parts[0]
            elif parts:
                seq = z3.Concat(*parts)
            self.arr['L'] = z3.Store(self.get_arr('L'), t.e, seq)
            return Val.ref(t.e)
        if v.kind in ('func', 'class', 'module', 'exccls', 'pyconst'):
            # opaque python-level value: represent by a stable uninterpreted constant
            key = repr(v.py)
            return self.ctx.opaque_const(key)
        return box(v)

    def ref_truthy(self, v: V):
        cls = v.cls
        if cls in ('list', 'tuple', 'deque'):
            return z3.Length(z3.Select(self.get_arr('L'), v.e)) > 0
        if cls == 'dict':
            return z3.Select(self.get_arr('DN'), v.e) > 0
        if cls == 'set':
            return z3.Select(self.get_arr('SN'), v.e) > 0
        if cls is None:
            c = z3.Select(self.get_arr('C'), v.e)
            ids = self.ctx.builtin_class_ids
            return z3.If(z3.Or(c == ids['list'], c == ids['tuple'], c == ids['deque']),
                         z3.Length(z3.Select(self.get_arr('L'), v.e)) > 0,
                         z3.If(c == ids['dict'], z3.Select(self.get_arr('DN'), v.e) > 0,
                               z3.If(c == ids['set'], z3.Select(self.get_arr('SN'), v.e) > 0, True)))
        return z3.BoolVal(True)

    # -- path condition ----------------------------------------------------
    def assume(self, f):
        if z3.is_true(f):
            return
        self.pc.append(f)

    def mark(self, tag):
        self.trace = self.trace + (tag,)
