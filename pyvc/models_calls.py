"""Builtin functions, builtin-type methods and a few stdlib functions."""
from __future__ import annotations

import ast

import z3

from .state import State, Raise, Exc
from .vals import (V, Val, SeqVal, IntS, RealS, BoolS, StrS, NONE, Unsupported, box, const, fresh, truthy, unbox_as,
                   vany, vbool, vbytes, vint, vreal, vref, vstr, vtuple, TESTER)

BUILTIN_FUNCS = {'len', 'min', 'max', 'abs', 'round', 'isinstance', 'issubclass', 'hasattr', 'getattr', 'setattr',
                 'range', 'enumerate', 'zip', 'any', 'all', 'sorted', 'id', 'callable', 'repr', 'print', 'iter',
                 'next', 'sum', 'reversed', 'hash', 'super', 'type', 'hex', 'ord', 'chr', 'divmod', 'map', 'filter',
                 'open', 'vars', 'dir', 'format', 'input', '_noop'}

NUM = ('int', 'real', 'bool')


def M():
    from . import models
    return models


def call_builtin(ex, st: State, name: str, args, kwargs, node):
    m = M()
    if name == '_noop':
        return [(st, NONE)]
    if name == 'iter' and len(args) == 1:
        # iterator over a list / tuple / deque: an object remembering the sequence and a position
        v = ex.concrete_kind(st, args[0], ('ref',))
        if v.kind == 'tuple':
            v = st.new_list(list(v.py))
        if v.kind == 'ref' and m.container_cls(ex, st, v) in ('list', 'tuple', 'deque'):
            it = st.alloc('iterator')
            st.write_field(it, '__iter_seq__', v)
            st.write_field(it, '__iter_pos__', vint(0))
            return [(st, it)]
        raise Unsupported('iter() of a non-sequence')
    if name == 'next' and args and args[0].kind == 'ref' and args[0].cls == 'iterator':
        it = args[0]
        seqv = ex.concrete_kind(st, st.read_field(it, '__iter_seq__'), ('ref',))
        pos = unbox_as(st.read_field(it, '__iter_pos__'), 'int').e
        seq = st.list_seq(seqv)
        outs = []
        done = st.fork()
        done.assume(pos >= z3.Length(seq))
        if ex.feasible(done):
            outs.append((done, args[1] if len(args) > 1 else Raise(ex.mk_exc('StopIteration', node))))
        st.assume(pos < z3.Length(seq))
        if ex.feasible(st):
            st.write_field(it, '__iter_pos__', vint(pos + 1))
            outs.append((st, vany(z3.simplify(seq[pos]))))
        return outs
    if name == 'len':
        v = ex.concrete_kind(st, args[0], ('ref', 'str', 'bytes'))
        if v.kind in ('str', 'bytes'):
            return [(st, vint(z3.Length(v.e)))]
        if v.kind == 'tuple':
            return [(st, vint(len(v.py)))]
        cc = m.container_cls(ex, st, v)
        if cc in ('list', 'tuple', 'deque'):
            return [(st, vint(z3.Length(st.list_seq(v))))]
        if cc == 'dict':
            return [(st, vint(z3.Select(st.get_arr('DN'), v.e)))]
        if cc == 'set':
            return [(st, vint(z3.Select(st.get_arr('SN'), v.e)))]
        if cc == 'bytearray':
            return [(st, vint(z3.Length(unbox_as(st.read_field(v, '__bytes__'), 'bytes').e)))]
        if v.kind == 'ref' and isinstance(v.cls, tuple):
            found = ex.repo.find_method(v.cls[0], v.cls[1], '__len__')
            if found:
                from .symex import FuncVal
                fv = FuncVal('repo', mod=found[0], clsdef=found[1], fn=found[2], self_v=v,
                             qual=f'{found[0].name}:{found[1].name}.__len__')
                return ex.call(st, V('func', py=fv), [], {}, node)
        n = fresh(IntS, 'len')
        st.assume(n >= 0)
        if v.kind == 'none':
            return [(st, Raise(ex.mk_exc('TypeError', node)))]
        ex.ctx.assumptions.add('len() of an object of unknown class is an arbitrary non-negative int')
        return [(st, vint(n))]
    if name in ('min', 'max'):
        vals = list(args)
        if len(vals) == 1 and vals[0].kind == 'tuple':
            vals = list(vals[0].py)
        if len(vals) < 2:
            raise Unsupported(f'{name} of iterable')
        vals = [ex.concrete_kind(st, v, ('int', 'real')) for v in vals]
        if not all(v.kind in NUM for v in vals):
            raise Unsupported(f'{name} on {[v.kind for v in vals]}')
        cur = vals[0]
        for nxt in vals[1:]:
            # python returns the first argument when equal; value-wise identical unless int/float mix
            if cur.kind == 'real' or nxt.kind == 'real':
                x, y = m.to_real(cur), m.to_real(nxt)
                if cur.kind != nxt.kind:
                    ex.ctx.assumptions.add('min/max of mixed int/float treated as real numbers')
                cur = vreal(z3.If((y < x) if name == 'min' else (y > x), y, x))
            else:
                x, y = m.to_int(cur), m.to_int(nxt)
                cur = vint(z3.If((y < x) if name == 'min' else (y > x), y, x))
        return [(st, cur)]
    if name == 'abs':
        v = ex.concrete_kind(st, args[0], ('int', 'real'))
        if v.kind == 'int':
            return [(st, vint(z3.If(v.e < 0, -v.e, v.e)))]
        if v.kind == 'real':
            return [(st, vreal(z3.If(v.e < 0, -v.e, v.e)))]
        raise Unsupported('abs kind')
    if name == 'round':
        v = ex.concrete_kind(st, args[0], ('int', 'real'))
        nd = args[1] if len(args) > 1 else kwargs.get('ndigits')
        if v.kind == 'int' and nd is None:
            return [(st, v)]
        if v.kind == 'real':
            if nd is None or nd.kind == 'none':
                r = fresh(IntS, 'round')
                # round-half-even: |r - x| <= 1/2
                st.assume(z3.And(z3.ToReal(r) - v.e <= z3.RealVal('1/2'), v.e - z3.ToReal(r) <= z3.RealVal('1/2')))
                ex.ctx.trusted.add('round(x): |round(x) - x| <= 1/2')
                return [(st, vint(r))]
            nde = z3.simplify(nd.e)
            if z3.is_int_value(nde):
                k = nde.as_long()
                r = fresh(RealS, 'round')
                half = z3.RealVal(f'5/{10 ** (k + 1)}') if k >= 0 else z3.RealVal(5 * 10 ** (-k - 1))
                st.assume(z3.And(r - v.e <= half, v.e - r <= half))
                # result is a multiple of 10^-k (up to float representation, treated as exact)
                mult = fresh(IntS, 'roundm')
                st.assume(r * (10 ** k if k >= 0 else z3.RealVal(f'1/{10 ** -k}')) == z3.ToReal(mult))
                ex.ctx.trusted.add('round(x, n): |round(x,n) - x| <= 0.5*10^-n and result is a multiple of 10^-n '
                                   '(float = real)')
                return [(st, vreal(r))]
        raise Unsupported('round')
    if name == 'isinstance':
        return isinstance_model(ex, st, args[0], args[1], node)
    if name == 'hasattr':
        if ex.ctx.opaque_ok:
            return [(st, vbool(fresh(BoolS, 'hasattr')))]
        raise Unsupported('hasattr')
    if name == 'getattr':
        nm = args[1]
        nme = z3.simplify(nm.e) if nm.kind == 'str' else None
        if nme is not None and z3.is_string_value(nme):
            outs = ex.load_attr(st, args[0], nme.as_string(), node)
            if len(args) > 2:
                res = []
                for s, r in outs:
                    if isinstance(r, Raise) and r.exc.cls == 'AttributeError':
                        res.append((s, args[2]))
                    else:
                        res.append((s, r))
                return res
            return outs
        raise Unsupported('getattr with symbolic name')
    if name == 'setattr':
        nm = args[1]
        nme = z3.simplify(nm.e) if nm.kind == 'str' else None
        if nme is not None and z3.is_string_value(nme):
            return [(s, Raise(sig[1]) if sig is not None else NONE)
                    for s, sig in ex.store_attr(st, args[0], nme.as_string(), args[2], node)]
        raise Unsupported('setattr with symbolic name')
    if name == 'range':
        vals = [ex.concrete_kind(st, a, ('int',)) for a in args]
        if not all(v.kind == 'int' for v in vals):
            raise Unsupported('range of non-int')
        if len(vals) == 1:
            return [(st, V('pyconst', py=('range', z3.IntVal(0), vals[0].e)))]
        if len(vals) == 2:
            return [(st, V('pyconst', py=('range', vals[0].e, vals[1].e)))]
        raise Unsupported('range step')
    if name == 'enumerate':
        items = m.concrete_items(ex, st, args[0])
        if items is None:
            raise Unsupported('enumerate over symbolic-length iterable')
        start = 0
        return [(st, vtuple([vtuple([vint(i + start), it]) for i, it in enumerate(items)]))]
    if name == 'zip':
        lists = [m.concrete_items(ex, st, a) for a in args]
        if any(l is None for l in lists):
            raise Unsupported('zip over symbolic-length iterable')
        return [(st, vtuple([vtuple(list(t)) for t in zip(*lists)]))]
    if name in ('any', 'all'):
        items = m.concrete_items(ex, st, args[0])
        if items is None:
            raise Unsupported(f'{name} over symbolic-length iterable')
        ts = [truthy(i, st) for i in items]
        if not ts:
            return [(st, vbool(name == 'all'))]
        return [(st, vbool(z3.Or(*ts) if name == 'any' else z3.And(*ts)))]
    if name == 'id':
        v = ex.concrete_kind(st, args[0], ('ref',))
        if v.kind == 'ref':
            # id() is injective on live objects: modelled as the oid itself
            return [(st, vint(v.e))]
        raise Unsupported('id of non-object')
    if name == 'callable':
        return [(st, vbool(args[0].kind in ('func', 'class')) if args[0].kind != 'any' else vbool(fresh(BoolS, 'callable')))]
    if name in ('repr', 'format'):
        return [(st, vstr(fresh(StrS, name)))]
    if name == 'print':
        return [(st, NONE)]
    if name == 'int':
        return int_model(ex, st, args, kwargs, node)
    if name == 'float':
        v = ex.concrete_kind(st, args[0], ('int', 'real', 'str'))
        if v.kind in NUM:
            return [(st, vreal(m.to_real(v)))]
        if v.kind == 'str':
            r = m.uf('py_float_of_str', StrS, RealS)(v.e)
            ok = m.uf('py_float_ok', StrS, BoolS)(v.e)
            bad = st.fork()
            bad.assume(z3.Not(ok))
            outs = []
            if ex.feasible(bad):
                outs.append((bad, Raise(ex.mk_exc('ValueError', node))))
            st.assume(ok)
            outs.append((st, vreal(r)))
            ex.ctx.trusted.add('float(str): uninterpreted py_float_of_str / py_float_ok')
            return outs
        if v.kind == 'none':
            return [(st, Raise(ex.mk_exc('TypeError', node)))]
        raise Unsupported('float()')
    if name == 'str':
        if not args:
            return [(st, vstr(''))]
        return [(st, m.py_str(ex, st, args[0]))]
    if name == 'bool':
        if not args:
            return [(st, vbool(False))]
        return [(st, vbool(truthy(args[0], st)))]
    if name == 'bytes':
        if not args:
            return [(st, vbytes(b''))]
        v = ex.concrete_kind(st, args[0], ('bytes', 'ref'))
        if v.kind == 'bytes':
            return [(st, v)]
        if v.kind == 'ref' and v.cls == 'bytearray':
            return [(st, unbox_as(st.read_field(v, '__bytes__'), 'bytes'))]
        raise Unsupported('bytes()')
    if name == 'bytearray':
        r = st.alloc('bytearray')
        init = vbytes(b'')
        if args:
            init = ex.concrete_kind(st, args[0], ('bytes',))
            if init.kind != 'bytes':
                raise Unsupported('bytearray(x)')
        st.write_field(r, '__bytes__', init)
        return [(st, r)]
    if name in ('list', 'tuple'):
        if not args:
            return [(st, st.new_list([]) if name == 'list' else vtuple([]))]
        items = m.concrete_items(ex, st, args[0])
        if items is not None:
            return [(st, st.new_list(items) if name == 'list' else vtuple(items))]
        v = ex.concrete_kind(st, args[0], ('ref',))
        cc = m.container_cls(ex, st, v)
        if cc in ('list', 'tuple', 'deque'):
            r = st.alloc('list')
            st.set_list_seq(r, st.list_seq(v))
            return [(st, r)]
        if cc in ('dict', 'set', 'dictview'):
            seq = m.element_seq(ex, st, v)
            r = st.alloc('list')
            st.set_list_seq(r, seq)
            return [(st, r)]
        if name == 'list':
            r = st.alloc('list')
            st.set_list_seq(r, fresh(SeqVal, 'listed'))   # unknown iterable: a list with arbitrary elements
            return [(st, r)]
        raise Unsupported(f'{name}() of symbolic iterable')
    if name == 'dict':
        if not args and not kwargs:
            return [(st, st.new_dict())]
        if not args:
            d = st.new_dict()
            for k, v in kwargs.items():
                m.dict_set(ex, st, d, vstr(k), v)
            return [(st, d)]
        if len(args) == 1 and not kwargs:
            src = ex.concrete_kind(st, args[0], ('ref',))
            if m.container_cls(ex, st, src) == 'dict':
                # shallow copy of a dict: same domain, same values, new identity
                d = st.alloc('dict')
                for a in ('DK', 'DV', 'DN'):
                    st.set_arr(a, z3.Store(st.get_arr(a), d.e, z3.Select(st.get_arr(a), src.e)))
                return [(st, d)]
        raise Unsupported('dict(x)')
    if name in ('set', 'frozenset'):
        if not args:
            return [(st, st.new_set())]
        items = m.concrete_items(ex, st, args[0])
        if items is not None:
            s = st.new_set()
            for i in items:
                m.set_add(ex, st, s, i)
            return [(st, s)]
        raise Unsupported('set(x)')
    if name == 'type':
        v = args[0]
        if v.kind == 'ref' and isinstance(v.cls, tuple):
            return [(st, V('class', py=v.cls))]
        return [(st, vany(fresh(Val, 'type')))]
    if name == 'sorted':
        raise Unsupported('sorted')
    if name == 'hex':
        v = ex.concrete_kind(st, args[0], ('int',))
        return [(st, vstr(z3.Concat(z3.StringVal('0x'), m.uf('fmt_hex', IntS, StrS)(v.e))))]
    if name == 'object':
        return [(st, st.alloc('object'))]
    if name == 'hash':
        return [(st, vint(fresh(IntS, 'hash')))]
    raise Unsupported(f'builtin {name}')


def isinstance_model(ex, st: State, v: V, clsarg: V, node):
    names = []

    def collect(c):
        if c.kind == 'tuple':
            for x in c.py:
                collect(x)
        elif c.kind == 'func' and c.py.t == 'builtin':
            names.append(c.py.name)
        elif c.kind == 'class':
            names.append(c.py)
        elif c.kind == 'func' and c.py.t == 'ext':
            names.append(c.py.name.split('.')[-1])
        elif c.kind == 'exccls':
            names.append(('exc', c.py))
        else:
            raise Unsupported('isinstance class arg')
    collect(clsarg)
    kind_map = {'int': ('int', 'bool'), 'float': ('real',), 'str': ('str',), 'bool': ('bool',), 'bytes': ('bytes',)}
    if v.kind == 'pyconst' and isinstance(v.py, Exc):
        res = [ex.exc_matches(v.py.cls, n[1] if isinstance(n, tuple) and n[0] == 'exc' else str(n)) for n in names]
        if any(r is True for r in res):
            return [(st, vbool(True))]
        if all(r is False for r in res):
            return [(st, vbool(False))]
        return [(st, vbool(fresh(BoolS, 'isinst')))]
    if v.kind not in ('any', 'ref'):
        ok = False
        for n in names:
            if isinstance(n, str) and v.kind in kind_map.get(n, ()):
                ok = True
            if n == 'tuple' and v.kind == 'tuple':
                ok = True
        return [(st, vbool(ok))]
    disj = []
    e = st.box(v)
    for n in names:
        if isinstance(n, str) and n in kind_map:
            disj.append(z3.Or(*[TESTER[k](e) for k in kind_map[n]]))
        elif isinstance(n, str) and n in ('list', 'dict', 'set', 'tuple'):
            if v.kind == 'ref' and v.cls is not None:
                disj.append(z3.BoolVal(v.cls == n))
            else:
                disj.append(z3.And(Val.is_ref(e),
                                   z3.Select(st.get_arr('C'), Val.oid(e)) == ex.ctx.builtin_class_ids[n]))
        elif isinstance(n, tuple) and n[0] != 'exc':
            if v.kind == 'ref' and isinstance(v.cls, tuple):
                chain = [(mm.name, c.name) for mm, c in ex.repo.mro(*v.cls)]
                tgt = ex.repo.find_class(*n)
                tname = (tgt[0].name, tgt[1].name) if tgt else n
                disj.append(z3.BoolVal(tname in chain))
            else:
                # symbolic class id: object is instance iff its class id is one of the known subclasses
                ids = ex.ctx.subclass_ids(n)
                c = z3.Select(st.get_arr('C'), Val.oid(e))
                disj.append(z3.And(Val.is_ref(e), z3.Or(*[c == i for i in ids])))
        else:
            if n == 'Decimal':
                disj.append(z3.And(Val.is_ref(e), z3.Select(st.get_arr('C'), Val.oid(e)) == ex.ctx.class_id('Decimal')))
            else:
                disj.append(fresh(BoolS, 'isinst'))
    return [(st, vbool(z3.simplify(z3.Or(*disj)) if disj else False))]


def int_model(ex, st: State, args, kwargs, node):
    m = M()
    if not args:
        return [(st, vint(0))]
    v = ex.concrete_kind(st, args[0], ('int', 'real', 'str', 'bytes'))
    base = args[1] if len(args) > 1 else kwargs.get('base')
    if v.kind in ('int', 'bool') and base is None:
        return [(st, vint(m.to_int(v)))]
    if v.kind == 'real' and base is None:
        return [(st, vint(m.trunc_real(v.e)))]
    if v.kind in ('str', 'bytes'):
        b = 10
        if base is not None:
            be = z3.simplify(base.e)
            if not z3.is_int_value(be):
                raise Unsupported('int() symbolic base')
            b = be.as_long()
        ok = m.uf(f'py_int_ok_{b}', StrS, BoolS)(v.e)
        val = m.uf(f'py_int_of_{b}', StrS, IntS)(v.e)
        ex.ctx.trusted.add(f'int(str, {b}): uninterpreted py_int_of_{b} / py_int_ok_{b} (+ axioms given by contracts)')
        outs = []
        bad = st.fork()
        bad.assume(z3.Not(ok))
        if ex.feasible(bad):
            outs.append((bad, Raise(ex.mk_exc('ValueError', node))))
        st.assume(ok)
        if ex.feasible(st):
            outs.append((st, vint(val)))
        return outs
    if v.kind == 'none':
        return [(st, Raise(ex.mk_exc('TypeError', node)))]
    if v.kind == 'any':
        # unknown kind: may raise TypeError / ValueError, or give an int
        r = fresh(IntS, 'int')
        return [(st.fork(), Raise(ex.mk_exc('TypeError', node))), (st.fork(), Raise(ex.mk_exc('ValueError', node))),
                (st, vint(r))]
    raise Unsupported(f'int({v.kind})')


# ---------------------------------------------------------------------------------------------------------------
def call_method(ex, st: State, recv: V, name: str, args, kwargs, node):
    m = M()
    recv = ex.concrete_kind(st, recv, ('ref', 'str', 'bytes'))
    k = recv.kind
    if k in ('str', 'bytes'):
        return str_method(ex, st, recv, name, args, kwargs, node)
    cc = m.container_cls(ex, st, recv)
    if cc in ('list', 'deque'):
        seq = st.list_seq(recv)
        if name == 'append':
            st.set_list_seq(recv, z3.Concat(seq, z3.Unit(st.box(args[0]))))
            return [(st, NONE)]
        if name == 'appendleft':
            new = z3.Concat(z3.Unit(st.box(args[0])), seq)
            maxlen = ex.ctx.deque_maxlen(recv) if hasattr(ex.ctx, 'deque_maxlen') else None
            if maxlen is not None:
                new = z3.If(z3.Length(new) > maxlen, z3.SubSeq(new, 0, maxlen), new)
            st.set_list_seq(recv, new)
            return [(st, NONE)]
        if name == 'extend':
            items = m.concrete_items(ex, st, args[0])
            if items is not None:
                parts = [z3.Unit(st.box(i)) for i in items]
                if parts:
                    st.set_list_seq(recv, z3.Concat(seq, *parts) if len(parts) > 0 else seq)
                return [(st, NONE)]
            o = ex.concrete_kind(st, args[0], ('ref',))
            if m.container_cls(ex, st, o) in ('list', 'tuple', 'deque'):
                st.set_list_seq(recv, z3.Concat(seq, st.list_seq(o)))
                return [(st, NONE)]
            sq = m.element_seq(ex, st, o)
            if sq is None:
                sq = fresh(SeqVal, 'extended')     # unknown iterable: arbitrary elements are appended
            st.set_list_seq(recv, z3.Concat(seq, sq))
            return [(st, NONE)]
        if name == 'clear':
            st.set_list_seq(recv, z3.Empty(SeqVal))
            return [(st, NONE)]
        if name == 'copy':
            r = st.alloc('list')
            st.set_list_seq(r, seq)
            return [(st, r)]
        if name == 'remove':
            item = z3.Unit(st.box(args[0]))
            has = z3.Contains(seq, item)
            outs = []
            bad = st.fork()
            bad.assume(z3.Not(has))
            if ex.feasible(bad):
                outs.append((bad, Raise(ex.mk_exc('ValueError', node))))
            st.assume(has)
            if ex.feasible(st):
                idx = z3.IndexOf(seq, item, 0)
                st.set_list_seq(recv, z3.Concat(z3.SubSeq(seq, 0, idx),
                                                z3.SubSeq(seq, idx + 1, z3.Length(seq) - idx - 1)))
                outs.append((st, NONE))
            return outs
        if name == 'pop':
            ln = z3.Length(seq)
            outs = []
            bad = st.fork()
            bad.assume(ln == 0)
            if ex.feasible(bad):
                outs.append((bad, Raise(ex.mk_exc('IndexError', node))))
            st.assume(ln > 0)
            if ex.feasible(st):
                if args:
                    iv = ex.concrete_kind(st, args[0], ('int',))
                    idx = m.py_index(ln, iv.e)
                    st.assume(z3.And(idx >= 0, idx < ln))
                else:
                    idx = ln - 1
                item = vany(z3.simplify(seq[idx]))
                st.set_list_seq(recv, z3.Concat(z3.SubSeq(seq, 0, idx), z3.SubSeq(seq, idx + 1, ln - idx - 1)))
                outs.append((st, item))
            return outs
        if name == 'insert':
            iv = ex.concrete_kind(st, args[0], ('int',))
            ln = z3.Length(seq)
            idx = z3.If(iv.e < 0, z3.If(ln + iv.e < 0, 0, ln + iv.e), z3.If(iv.e > ln, ln, iv.e))
            st.set_list_seq(recv, z3.Concat(z3.SubSeq(seq, 0, idx), z3.Unit(st.box(args[1])),
                                            z3.SubSeq(seq, idx, ln - idx)))
            return [(st, NONE)]
        if name == 'index':
            item = z3.Unit(st.box(args[0]))
            has = z3.Contains(seq, item)
            outs = []
            bad = st.fork()
            bad.assume(z3.Not(has))
            if ex.feasible(bad):
                outs.append((bad, Raise(ex.mk_exc('ValueError', node))))
            st.assume(has)
            outs.append((st, vint(z3.IndexOf(seq, item, 0))))
            return outs
        if name == 'count':
            raise Unsupported('list.count')
    if cc == 'dict':
        if name == 'get':
            has = m.dict_has(st, recv, args[0])
            dflt = args[1] if len(args) > 1 else kwargs.get('default', NONE)
            r = z3.If(has, m.dict_val(st, recv, args[0]), st.box(dflt))
            v = vany(z3.simplify(r))
            v.maybe_none = dflt.kind == 'none'
            return [(st, v)]
        if name == 'pop':
            has = m.dict_has(st, recv, args[0])
            outs = []
            miss = st.fork()
            miss.assume(z3.Not(has))
            if ex.feasible(miss):
                if len(args) > 1:
                    outs.append((miss, args[1]))
                else:
                    outs.append((miss, Raise(ex.mk_exc('KeyError', node))))
            st.assume(has)
            if ex.feasible(st):
                v = vany(z3.simplify(m.dict_val(st, recv, args[0])))
                m.dict_del(ex, st, recv, args[0])
                outs.append((st, v))
            return outs
        if name == 'setdefault':
            has = m.dict_has(st, recv, args[0])
            outs = []
            miss = st.fork()
            miss.assume(z3.Not(has))
            if ex.feasible(miss):
                m.dict_set(ex, miss, recv, args[0], args[1])
                outs.append((miss, args[1]))
            st.assume(has)
            if ex.feasible(st):
                outs.append((st, vany(z3.simplify(m.dict_val(st, recv, args[0])))))
            return outs
        if name == 'clear':
            st.set_arr('DK', z3.Store(st.get_arr('DK'), recv.e, z3.K(Val, z3.BoolVal(False))))
            st.set_arr('DN', z3.Store(st.get_arr('DN'), recv.e, z3.IntVal(0)))
            return [(st, NONE)]
        if name in ('keys', 'values', 'items'):
            view = st.alloc('dictview')
            st.write_field(view, '__dict__', recv)
            if not hasattr(ex.ctx, 'view_mode'):
                ex.ctx.view_mode = {}
            ex.ctx.view_mode[id(view)] = name
            view.py = name
            return [(st, view)]
        if name == '__contains__':
            return [(st, vbool(m.dict_has(st, recv, args[0])))]
        if name == '__getitem__':
            return m.getitem(ex, st, recv, args[0], node)
        if name == '__init__':
            return [(st, NONE)]
        if name == 'update' and len(args) == 1 and not kwargs:
            other = ex.concrete_kind(st, args[0], ('ref',))
            if m.container_cls(ex, st, other) == 'dict':
                dk, dv = st.get_arr('DK'), st.get_arr('DV')
                rk, rv = fresh(z3.Select(dk, recv.e).sort(), 'upd_keys'), fresh(z3.Select(dv, recv.e).sort(), 'upd_vals')
                kq = z3.Const('k!upd', Val)
                ok = z3.Select(z3.Select(dk, other.e), kq)
                st.assume(z3.ForAll([kq], z3.And(
                    z3.Select(rk, kq) == z3.Or(z3.Select(z3.Select(dk, recv.e), kq), ok),
                    z3.Select(rv, kq) == z3.If(ok, z3.Select(z3.Select(dv, other.e), kq), z3.Select(z3.Select(dv, recv.e), kq)))))
                n = fresh(IntS, 'upd_n')
                st.assume(z3.And(n >= z3.Select(st.get_arr('DN'), recv.e), n >= z3.Select(st.get_arr('DN'), other.e)))
                st.set_arr('DK', z3.Store(dk, recv.e, rk))
                st.set_arr('DV', z3.Store(dv, recv.e, rv))
                st.set_arr('DN', z3.Store(st.get_arr('DN'), recv.e, n))
                return [(st, NONE)]
            raise Unsupported('dict.update')
        if name == 'update':
            raise Unsupported('dict.update')
    if cc == 'set':
        if name == 'add':
            m.set_add(ex, st, recv, args[0])
            return [(st, NONE)]
        if name == 'discard':
            m.set_remove(ex, st, recv, args[0])
            return [(st, NONE)]
        if name == 'remove':
            has = z3.Select(z3.Select(st.get_arr('S'), recv.e), st.box(args[0]))
            outs = []
            miss = st.fork()
            miss.assume(z3.Not(has))
            if ex.feasible(miss):
                outs.append((miss, Raise(ex.mk_exc('KeyError', node))))
            st.assume(has)
            if ex.feasible(st):
                m.set_remove(ex, st, recv, args[0])
                outs.append((st, NONE))
            return outs
        if name == 'clear':
            st.set_arr('S', z3.Store(st.get_arr('S'), recv.e, z3.K(Val, z3.BoolVal(False))))
            st.set_arr('SN', z3.Store(st.get_arr('SN'), recv.e, z3.IntVal(0)))
            return [(st, NONE)]
    if cc == 'bytearray':
        cur = unbox_as(st.read_field(recv, '__bytes__'), 'bytes')
        if name == 'extend':
            b = ex.concrete_kind(st, args[0], ('bytes',))
            st.write_field(recv, '__bytes__', vbytes(z3.Concat(cur.e, b.e)))
            return [(st, NONE)]
    if k == 'tuple':
        if name == 'index' and len(args) == 1 and not kwargs:
            # concrete tuple, symbolic item: first position whose element equals the item, ValueError if none does
            item = st.box(args[0])
            elems = [st.box(x) for x in recv.py]
            outs = []
            bad = st.fork()
            bad.assume(z3.And(*[e != item for e in elems]) if elems else z3.BoolVal(True))
            if ex.feasible(bad):
                outs.append((bad, Raise(ex.mk_exc('ValueError', node))))
            if elems:
                st.assume(z3.Or(*[e == item for e in elems]))
                r = z3.IntVal(len(elems) - 1)
                for n in range(len(elems) - 2, -1, -1):
                    r = z3.If(elems[n] == item, z3.IntVal(n), r)
                if ex.feasible(st):
                    outs.append((st, vint(r)))
            return outs
        raise Unsupported(f'tuple.{name}')
    return None


def str_method(ex, st: State, recv: V, name: str, args, kwargs, node):
    m = M()
    kind = recv.kind
    s = recv.e

    def arg_str(i):
        a = ex.concrete_kind(st, args[i], (kind,))
        if a.kind != kind:
            raise Unsupported(f'{kind}.{name} with {a.kind} argument')
        return a.e
    if name == 'startswith':
        if args[0].kind == 'tuple':
            return [(st, vbool(z3.Or(*[z3.PrefixOf(x.e, s) for x in args[0].py])))]
        return [(st, vbool(z3.PrefixOf(arg_str(0), s)))]
    if name == 'endswith':
        if args[0].kind == 'tuple':
            return [(st, vbool(z3.Or(*[z3.SuffixOf(x.e, s) for x in args[0].py])))]
        return [(st, vbool(z3.SuffixOf(arg_str(0), s)))]
    if name in ('lower', 'upper', 'strip', 'lstrip', 'rstrip', 'casefold', 'title') and not args:
        f = m.uf(f'str_{name}', StrS, StrS)
        ex.ctx.trusted.add(f'str.{name}: uninterpreted function (+ axioms given by contracts)')
        return [(st, V(kind, f(s)))]
    if name in ('lstrip', 'rstrip', 'strip') and args:
        a = z3.simplify(arg_str(0))
        f = m.uf(f'str_{name}_{a}', StrS, StrS)
        ex.ctx.trusted.add(f'str.{name}(chars): uninterpreted function')
        return [(st, V(kind, f(s)))]
    if name == 'find':
        return [(st, vint(z3.IndexOf(s, arg_str(0), 0)))]
    if name == 'replace':
        ex.ctx.trusted.add('str.replace: uninterpreted (replace-all)')
        return [(st, V(kind, m.uf('str_replace_all', StrS, StrS, StrS, StrS)(s, arg_str(0), arg_str(1))))]
    if name in ('encode', 'decode'):
        f = m.uf(f'str_{name}', StrS, StrS)
        ex.ctx.trusted.add(f'str.{name}: uninterpreted function, total (no UnicodeError)')
        return [(st, V('bytes' if name == 'encode' else 'str', f(s)))]
    if name == 'join':
        items = m.concrete_items(ex, st, args[0])
        if items is not None:
            parts = []
            for i, it in enumerate(items):
                it = ex.concrete_kind(st, it, (kind,))
                if it.kind != kind:
                    raise Unsupported('join of non-strings')
                if i:
                    parts.append(s)
                parts.append(it.e)
            if not parts:
                return [(st, V(kind, z3.StringVal('')))]
            return [(st, V(kind, z3.Concat(*parts) if len(parts) > 1 else parts[0]))]
        o = ex.concrete_kind(st, args[0], ('ref',))
        if m.container_cls(ex, st, o) in ('list', 'tuple'):
            f = m.uf('str_join', StrS, SeqVal, StrS)
            ex.ctx.trusted.add('str.join over symbolic list: uninterpreted function (+ axioms given by contracts)')
            return [(st, V(kind, f(s, st.list_seq(o))))]
        raise Unsupported('join of symbolic iterable')
    if name == 'split':
        sep = arg_str(0) if args else None
        r = st.alloc('list')
        f = m.uf('str_split', StrS, StrS, SeqVal)
        seq = f(s, sep if sep is not None else z3.StringVal(' \x00ws'))
        st.set_list_seq(r, seq)
        st.assume(z3.Length(seq) >= 1) if sep is not None else st.assume(z3.Length(seq) >= 0)
        j = z3.Int('j!split')
        st.assume(z3.ForAll([j], z3.Implies(z3.And(j >= 0, j < z3.Length(seq)),
                                            (Val.is_str if kind == 'str' else Val.is_bytes)(seq[j]))))
        ex.ctx.trusted.add('str.split: uninterpreted function returning a non-empty list of strings '
                           '(+ axioms given by contracts)')
        return [(st, r)]
    if name == 'format':
        return [(st, vstr(fresh(StrS, 'fmt')))]
    if name in ('isdigit', 'isalpha', 'isspace', 'isalnum'):
        return [(st, vbool(m.uf(f'str_{name}', StrS, BoolS)(s)))]
    if name == 'hex':
        return [(st, vstr(m.uf('bytes_hex', StrS, StrS)(s)))]
    raise Unsupported(f'{kind}.{name}')


def _dd_factory(ctx, o):
    """Missing-key factory of a defaultdict allocated during this execution (None for plain dicts)."""
    e = z3.simplify(o.e)
    if not z3.is_int_value(e):
        return None
    kind = ctx._defaultdicts.get(e.as_long())
    if kind is None:
        return None
    return DD_FACTORIES[kind]


DD_FACTORIES = {'list': lambda ex, st: st.new_list(), 'dict': lambda ex, st: st.new_dict(),
                'set': lambda ex, st: st.new_set()}


def call_external(ex, st: State, name: str, args, kwargs, node):
    """A few side-effect-free stdlib functions; everything else is havoc."""
    m = M()
    short = name.split('.')[-1]
    if name in ('time.time', 'time.monotonic', 'time.perf_counter'):
        t = fresh(RealS, 'now')
        last = st.ghost.get('now')
        if last is not None:
            st.assume(t >= last)
        st.assume(t >= 0)
        st.ghost['now'] = t
        ex.ctx.trusted.add('time.time()/monotonic(): fresh non-decreasing real')
        return [(st, vreal(t))]
    if name in ('copy.copy', 'copy.deepcopy', 'copy_copy', 'deepcopy'):
        return None
    if name in ('collections.defaultdict', 'defaultdict', 'collections.OrderedDict', 'OrderedDict'):
        d = st.new_dict()
        if 'defaultdict' in name and args:
            fv = args[0]
            fname = getattr(getattr(fv, 'py', None), 'name', None) if fv.kind == 'func' else None
            if fname not in ('list', 'dict', 'set'):
                raise Unsupported(f'defaultdict factory {fv!r}')
            if not hasattr(ex.ctx, '_defaultdicts'):
                ex.ctx._defaultdicts = {}
                ex.ctx.defaultdict_factory = lambda o, _c=ex.ctx: _dd_factory(_c, o)
            ex.ctx._defaultdicts[z3.simplify(d.e).as_long()] = fname
        return [(st, d)]
    if name in ('collections.deque', 'deque'):
        r = st.alloc('deque')
        st.set_list_seq(r, z3.Empty(SeqVal))
        return [(st, r)]
    if name in ('io.BytesIO', 'BytesIO') and not args:
        return None
    if name in ('typing.cast', 'cast'):
        return [(st, args[1])]
    if name in ('warnings.warn',):
        return [(st, NONE)]
    if name in ('math.floor',):
        v = ex.concrete_kind(st, args[0], ('real', 'int'))
        if v.kind == 'real':
            return [(st, vint(z3.ToInt(v.e)))]
        return [(st, v)]
    return None
