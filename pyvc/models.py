"""Models of Python operators, builtins and builtin-type methods."""
from __future__ import annotations

import ast

import z3

from .state import State, Raise, Exc
from .vals import (V, Val, SeqVal, IntS, RealS, BoolS, StrS, NONE, Unsupported, box, const, fresh, fresh_name, truthy,
                   unbox_as, vany, vbool, vbytes, vint, vreal, vref, vstr, vtuple, TESTER)

# ---------------------------------------------------------------------------------------------------------------
# uninterpreted functions for library behaviour that is axiomatised (trusted)
UF = {}


def uf(name, *sorts):
    if name not in UF:
        UF[name] = z3.Function(name, *sorts)
    return UF[name]


def to_real(v: V):
    if v.kind == 'real':
        return v.e
    if v.kind == 'int':
        return z3.ToReal(v.e)
    if v.kind == 'bool':
        return z3.If(v.e, z3.RealVal(1), z3.RealVal(0))
    raise Unsupported(f'to_real({v.kind})')


def to_int(v: V):
    if v.kind == 'int':
        return v.e
    if v.kind == 'bool':
        return z3.If(v.e, z3.IntVal(1), z3.IntVal(0))
    raise Unsupported(f'to_int({v.kind})')


def trunc_real(r):
    """Python int(float): truncation toward zero."""
    fl = z3.ToInt(r)
    return z3.If(r >= 0, fl, z3.If(z3.ToReal(fl) == r, fl, fl + 1))


NUM = ('int', 'real', 'bool')


def num_kind(ex, st, v: V) -> V:
    v = ex.concrete_kind(st, v, ('int', 'real', 'str'))
    return v


def binop(ex, st: State, op, a: V, b: V, node):
    a = num_kind(ex, st, a)
    b = num_kind(ex, st, b)
    t = type(op)
    if a.kind in NUM and b.kind in NUM:
        if a.kind == 'real' or b.kind == 'real' or t is ast.Div:
            x, y = to_real(a), to_real(b)

            def fl(r):
                # IEEE-754 double, round-to-nearest: fl(x op y) = (x op y)(1 + d), |d| <= 2^-53 (no under/overflow)
                if getattr(ex.ctx, 'float_model', 'real') != 'ieee':
                    return r
                d = fresh(RealS, 'fl_delta')
                u = z3.RealVal(1) / z3.RealVal(2 ** 53)
                st.assume(z3.And(d >= -u, d <= u))
                return r * (1 + d)
            if t is ast.Add:
                return [(st, vreal(fl(x + y)))]
            if t is ast.Sub:
                return [(st, vreal(fl(x - y)))]
            if t is ast.Mult:
                return [(st, vreal(fl(x * y)))]
            if t is ast.Div:
                outs = []
                z = st.fork()
                z.assume(y == 0)
                if ex.feasible(z):
                    outs.append((z, Raise(ex.mk_exc('ZeroDivisionError', node))))
                st.assume(y != 0)
                outs.append((st, vreal(fl(x / y))))
                return outs
            raise Unsupported(f'real operator {t.__name__}')
        x, y = to_int(a), to_int(b)
        if t is ast.Add:
            return [(st, vint(x + y))]
        if t is ast.Sub:
            return [(st, vint(x - y))]
        if t is ast.Mult:
            return [(st, vint(x * y))]
        if t in (ast.FloorDiv, ast.Mod):
            outs = []
            z = st.fork()
            z.assume(y == 0)
            if ex.feasible(z):
                outs.append((z, Raise(ex.mk_exc('ZeroDivisionError', node))))
            st.assume(y != 0)
            # python floor semantics: z3 div/mod are euclidean (remainder >= 0); adjust for negative divisor
            q = z3.If(y > 0, x / y, z3.If(x % y == 0, x / y, x / y - 1))
            if t is ast.FloorDiv:
                outs.append((st, vint(q)))
            else:
                outs.append((st, vint(x - q * y)))
            return outs
        if t is ast.LShift and z3.is_int_value(z3.simplify(y)):
            return [(st, vint(x * (2 ** z3.simplify(y).as_long())))]
        if t is ast.Pow and z3.is_int_value(z3.simplify(y)) and z3.simplify(y).as_long() >= 0:
            r = z3.IntVal(1)
            for _ in range(z3.simplify(y).as_long()):
                r = r * x
            return [(st, vint(r))]
        raise Unsupported(f'int operator {t.__name__}')
    if a.kind in ('str', 'bytes') and b.kind == a.kind and t is ast.Add:
        return [(st, V(a.kind, z3.Concat(a.e, b.e)))]
    if a.kind == 'str' and t is ast.Mod:
        return [(st, vstr(fresh(StrS, 'fmt')))]
    if a.kind == 'tuple' and b.kind == 'tuple' and t is ast.Add:
        return [(st, vtuple(a.py + b.py))]
    if t is ast.Add and a.kind == 'ref' and b.kind == 'ref' and a.cls == 'list' and b.cls == 'list':
        r = st.alloc('list')
        st.set_list_seq(r, z3.Concat(st.list_seq(a), st.list_seq(b)))
        return [(st, r)]
    if t is ast.Add and a.kind == 'ref' and a.cls == 'bytearray' or (
            t is ast.Add and a.kind == 'ref' and getattr(node, '_augmented', False) and a.cls in ('list', 'bytearray')):
        # in-place += on list / bytearray
        if a.cls == 'bytearray':
            b2 = ex.concrete_kind(st, b, ('bytes',))
            if b2.kind != 'bytes':
                raise Unsupported('bytearray += non-bytes')
            cur = unbox_as(st.read_field(a, '__bytes__'), 'bytes')
            st.write_field(a, '__bytes__', vbytes(z3.Concat(cur.e, b2.e)))
            return [(st, a)]
        st.set_list_seq(a, z3.Concat(st.list_seq(a), st.list_seq(b)))
        return [(st, a)]
    raise Unsupported(f'binop {t.__name__} on {a.kind},{b.kind}')


def val_eq(ex, st: State, a: V, b: V):
    """z3 Bool for Python `a == b` on modelled kinds (identity for objects without __eq__)."""
    if a.kind == 'tuple' or b.kind == 'tuple':
        if a.kind == b.kind == 'tuple':
            if len(a.py) != len(b.py):
                return z3.BoolVal(False)
            return z3.And(*[val_eq(ex, st, x, y) for x, y in zip(a.py, b.py)]) if a.py else z3.BoolVal(True)
        other = b if a.kind == 'tuple' else a
        tup = a if a.kind == 'tuple' else b
        other = ex.concrete_kind(st, other, ('ref', 'none'))
        if other.kind in ('none', 'int', 'str', 'real', 'bool', 'bytes'):
            return z3.BoolVal(False)
        if other.kind == 'ref':
            seq = st.list_seq(other)
            return z3.And(z3.Length(seq) == len(tup.py),
                          *[val_eq(ex, st, vany(seq[i]), x) for i, x in enumerate(tup.py)])
        raise Unsupported('tuple == unknown')
    for v in (a, b):
        if v.kind in ('func', 'class', 'module', 'exccls', 'pyconst'):
            if a.kind == b.kind and a.py == b.py:
                return z3.BoolVal(True)
            if a.kind == b.kind and a.kind in ('class', 'exccls', 'module'):
                return z3.BoolVal(a.py == b.py)
            return st.box(a) == st.box(b)
    if a.kind in NUM and b.kind in NUM and (a.kind != b.kind):
        if 'real' in (a.kind, b.kind):
            return to_real(a) == to_real(b)
        return to_int(a) == to_int(b)
    if a.kind != 'any' and b.kind != 'any':
        if a.kind != b.kind:
            return z3.BoolVal(False)
        if a.kind == 'none':
            return z3.BoolVal(True)
        if a.kind == 'ref':
            eqf = ex.ctx.callees.get('__eq__')
            if eqf is not None:
                r = eqf(ex, st, a, b)
                if r is not None:
                    return r
        return a.e == b.e
    # at least one is dynamic: compare boxed, with int/real/bool cross-kind equality
    x, y = st.box(a), st.box(b)
    both_num = z3.And(z3.Or(Val.is_int(x), Val.is_real(x), Val.is_bool(x)),
                      z3.Or(Val.is_int(y), Val.is_real(y), Val.is_bool(y)))

    def as_real(t):
        return z3.If(Val.is_int(t), z3.ToReal(Val.i(t)),
                     z3.If(Val.is_real(t), Val.r(t), z3.If(Val.b(t), z3.RealVal(1), z3.RealVal(0))))
    static_nonnum = (a.kind not in NUM + ('any',)) or (b.kind not in NUM + ('any',))
    if static_nonnum:
        return x == y
    return z3.If(both_num, as_real(x) == as_real(y), x == y)


def compare(ex, st: State, op, a: V, b: V, node):
    t = type(op)
    if t in (ast.Is, ast.IsNot):
        if a.kind == 'tuple' or b.kind == 'tuple':
            raise Unsupported('is on tuple')
        if (a.kind in ('class', 'exccls', 'func', 'module') or b.kind in ('class', 'exccls', 'func', 'module')):
            if a.kind == b.kind:
                c = z3.BoolVal(a.py == b.py)
            else:
                c = st.box(a) == st.box(b)
        else:
            c = st.box(a) == st.box(b)
        return [(st, c if t is ast.Is else z3.Not(c))]
    if t in (ast.Eq, ast.NotEq):
        c = val_eq(ex, st, a, b)
        return [(st, c if t is ast.Eq else z3.Not(c))]
    if t in (ast.Lt, ast.LtE, ast.Gt, ast.GtE):
        a = num_kind(ex, st, a)
        b = num_kind(ex, st, b)
        if a.kind in NUM and b.kind in NUM:
            if 'real' in (a.kind, b.kind):
                x, y = to_real(a), to_real(b)
            else:
                x, y = to_int(a), to_int(b)
            c = {ast.Lt: x < y, ast.LtE: x <= y, ast.Gt: x > y, ast.GtE: x >= y}[t]
            return [(st, c)]
        if a.kind == 'none' or b.kind == 'none':
            return [(st, Raise(ex.mk_exc('TypeError', node)))]
        if a.kind == 'str' and b.kind == 'str':
            x, y = a.e, b.e
            c = {ast.Lt: x < y, ast.LtE: x <= y, ast.Gt: y < x, ast.GtE: y <= x}[t]
            return [(st, c)]
        if 'any' in (a.kind, b.kind) and a.kind in NUM + ('any',) and b.kind in NUM + ('any',):
            # operand of statically unknown kind (e.g. a parameter added after the contract was written): exact for two
            # integers, otherwise an unconstrained truth value
            x, y = st.box(a), st.box(b)
            c = fresh(BoolS, 'cmp')
            xi, yi = Val.i(x), Val.i(y)
            exact = {ast.Lt: xi < yi, ast.LtE: xi <= yi, ast.Gt: xi > yi, ast.GtE: xi >= yi}[t]
            st.assume(z3.Implies(z3.And(Val.is_int(x), Val.is_int(y)), c == exact))
            ex.ctx.assumptions.add('ordering of values of unknown kind: exact for integers, otherwise an unconstrained '
                                   'truth value; assumed not to raise (as for conditions the engine treats as opaque)')
            return [(st, c)]
        raise Unsupported(f'ordering of {a.kind},{b.kind}')
    if t in (ast.In, ast.NotIn):
        outs = []
        for s, c in contains(ex, st, b, a, node):
            outs.append((s, c if isinstance(c, Raise) or t is ast.In else z3.Not(c)))
        return outs
    raise Unsupported(f'compare {t.__name__}')


def contains(ex, st: State, cont: V, item: V, node):
    mm = getattr(ex.ctx, 'membership', {}).get(cont.path) if cont.path else None
    if mm is not None:
        return [(st, mm(st, st.box(item)))]
    cont = ex.concrete_kind(st, cont, ('ref', 'str', 'bytes'))
    d = ex.dunder(st, cont, '__contains__')
    if d is not None:
        return [(s, r if isinstance(r, Raise) else truthy(r, s)) for s, r in ex.call(st, d, [item], {}, node)]
    if cont.kind == 'tuple':
        if not cont.py:
            return [(st, z3.BoolVal(False))]
        return [(st, z3.Or(*[val_eq(ex, st, item, x) for x in cont.py]))]
    if cont.kind in ('str', 'bytes'):
        item = ex.concrete_kind(st, item, (cont.kind,))
        if item.kind != cont.kind:
            if item.kind == 'none':
                return [(st, Raise(ex.mk_exc('TypeError', node)))]
            raise Unsupported(f'{item.kind} in {cont.kind}')
        return [(st, z3.Contains(cont.e, item.e))]
    if cont.kind == 'ref':
        cls = cont.cls
        if cls is None:
            cls = container_cls(ex, st, cont)      # class known from the type invariants of the pre-state
        if cls in ('list', 'tuple', 'deque'):
            return [(st, z3.Contains(st.list_seq(cont), z3.Unit(st.box(item))))]
        if cls == 'dict' or isinstance(cls, tuple) and ex.ctx.is_dict_subclass(cls):
            return [(st, z3.Select(z3.Select(st.get_arr('DK'), cont.e), st.box(item)))]
        if cls == 'set':
            return [(st, z3.Select(z3.Select(st.get_arr('S'), cont.e), st.box(item)))]
        if cls == 'dictview':
            d = unbox_as(st.read_field(cont, '__dict__'), 'ref')
            return [(st, z3.Select(z3.Select(st.get_arr('DK'), d.e), st.box(item)))]
        hint = ex.ctx.container_kind(cont) if hasattr(ex.ctx, 'container_kind') else None
        if hint == 'set':
            return [(st, z3.Select(z3.Select(st.get_arr('S'), cont.e), st.box(item)))]
        if hint == 'dict':
            return [(st, z3.Select(z3.Select(st.get_arr('DK'), cont.e), st.box(item)))]
        if hint == 'list':
            return [(st, z3.Contains(st.list_seq(cont), z3.Unit(st.box(item))))]
    if ex.ctx.opaque_ok:
        return [(st, fresh(BoolS, 'in'))]
    raise Unsupported(f'membership in {cont.kind}/{cont.cls} (path {cont.path})')


# ---------------------------------------------------------------------------------------------------------------
# containers

def _track_keys(st: State, d: V, k: V, drop=False):
    """Python-level bookkeeping for dicts created in this execution whose keys are all literal strings (needed for
    f(**d)): ghost entry 'c:dictkeys:<oid>' = tuple of keys, or None once a non-literal key was stored / a key deleted."""
    oid = z3.simplify(d.e)
    if not z3.is_int_value(oid):
        return
    name = 'c:dictkeys:%d' % oid.as_long()
    if name not in st.ghost:
        return
    cur = st.ghost[name]
    ke = z3.simplify(k.e) if k.kind == 'str' else None
    if drop or cur is None or ke is None or not z3.is_string_value(ke):
        st.ghost[name] = None
        return
    key = ke.as_string()
    if key not in cur:
        st.ghost[name] = cur + (key,)


def dict_set(ex, st: State, d: V, k: V, v: V):
    _track_keys(st, d, k)
    kb = st.box(k)
    dk = z3.Select(st.get_arr('DK'), d.e)
    dv = z3.Select(st.get_arr('DV'), d.e)
    dn = z3.Select(st.get_arr('DN'), d.e)
    st.set_arr('DN', z3.Store(st.get_arr('DN'), d.e, z3.If(z3.Select(dk, kb), dn, dn + 1)))
    st.set_arr('DK', z3.Store(st.get_arr('DK'), d.e, z3.Store(dk, kb, z3.BoolVal(True))))
    st.set_arr('DV', z3.Store(st.get_arr('DV'), d.e, z3.Store(dv, kb, st.box(v))))


def dict_del(ex, st: State, d: V, k: V):
    _track_keys(st, d, k, drop=True)
    kb = st.box(k)
    dk = z3.Select(st.get_arr('DK'), d.e)
    dn = z3.Select(st.get_arr('DN'), d.e)
    st.set_arr('DN', z3.Store(st.get_arr('DN'), d.e, z3.If(z3.Select(dk, kb), dn - 1, dn)))
    st.set_arr('DK', z3.Store(st.get_arr('DK'), d.e, z3.Store(dk, kb, z3.BoolVal(False))))


def dict_has(st: State, d: V, k: V):
    return z3.Select(z3.Select(st.get_arr('DK'), d.e), st.box(k))


def dict_val(st: State, d: V, k: V):
    return z3.Select(z3.Select(st.get_arr('DV'), d.e), st.box(k))


def set_add(ex, st: State, s: V, item: V):
    ib = st.box(item)
    m = z3.Select(st.get_arr('S'), s.e)
    n = z3.Select(st.get_arr('SN'), s.e)
    st.set_arr('SN', z3.Store(st.get_arr('SN'), s.e, z3.If(z3.Select(m, ib), n, n + 1)))
    st.set_arr('S', z3.Store(st.get_arr('S'), s.e, z3.Store(m, ib, z3.BoolVal(True))))


def set_remove(ex, st: State, s: V, item: V):
    ib = st.box(item)
    m = z3.Select(st.get_arr('S'), s.e)
    n = z3.Select(st.get_arr('SN'), s.e)
    st.set_arr('SN', z3.Store(st.get_arr('SN'), s.e, z3.If(z3.Select(m, ib), n - 1, n)))
    st.set_arr('S', z3.Store(st.get_arr('S'), s.e, z3.Store(m, ib, z3.BoolVal(False))))


def container_cls(ex, st, o: V):
    if o.kind != 'ref':
        return None
    if o.cls in ('list', 'dict', 'set', 'tuple', 'deque', 'bytearray', 'dictview'):
        return o.cls
    if isinstance(o.cls, tuple) and ex.ctx.is_dict_subclass(o.cls):
        return 'dict'
    if hasattr(ex.ctx, 'container_kind'):
        h = ex.ctx.container_kind(o)
        if h is not None:
            return h
    if o.cls is None:
        # dynamic class: ask the path condition (type invariants of the pre-state)
        c = z3.Select(st.get_arr('C'), o.e)
        for kind in ('list', 'dict', 'set'):
            if ex.entails(st, c == ex.ctx.builtin_class_ids[kind]):
                o.cls = kind
                return kind
    return None


def py_index(ln, idx):
    """Normalise a python index (negative counts from the end)."""
    return z3.If(idx < 0, ln + idx, idx)


def slice_bounds(ln, lo, hi):
    lo_e = z3.IntVal(0) if lo is None else z3.If(lo < 0, z3.If(ln + lo < 0, 0, ln + lo), z3.If(lo > ln, ln, lo))
    hi_e = ln if hi is None else z3.If(hi < 0, z3.If(ln + hi < 0, 0, ln + hi), z3.If(hi > ln, ln, hi))
    return lo_e, hi_e


def getitem(ex, st: State, o: V, i: V, node):
    o = ex.concrete_kind(st, o, ('ref', 'str', 'bytes'))
    is_slice = i.kind == 'pyconst' and isinstance(i.py, tuple) and i.py and i.py[0] == 'slice'
    if o.kind in ('str', 'bytes') or (o.kind == 'ref' and o.cls == 'bytearray'):
        if o.kind == 'ref':
            sv = unbox_as(st.read_field(o, '__bytes__'), 'bytes')
            kind = 'bytes'
        else:
            sv, kind = o, o.kind
        ln = z3.Length(sv.e)
        if is_slice:
            lo, hi, step = i.py[1:]
            if step is not None:
                raise Unsupported('slice step')
            lo_e = None if lo is None or lo.kind == 'none' else to_int(ex.concrete_kind(st, lo, ('int',)))
            hi_e = None if hi is None or hi.kind == 'none' else to_int(ex.concrete_kind(st, hi, ('int',)))
            a, b = slice_bounds(ln, lo_e, hi_e)
            return [(st, V(kind, z3.SubString(sv.e, a, z3.If(b > a, b - a, 0))))]
        iv = ex.concrete_kind(st, i, ('int',))
        if iv.kind != 'int':
            raise Unsupported('str index kind')
        idx = py_index(ln, iv.e)
        outs = []
        bad = st.fork()
        bad.assume(z3.Or(idx < 0, idx >= ln))
        if ex.feasible(bad):
            outs.append((bad, Raise(ex.mk_exc('IndexError', node))))
        st.assume(z3.And(idx >= 0, idx < ln))
        if kind == 'bytes':
            outs.append((st, vint(uf('byte_ord', StrS, IntS)(z3.SubString(sv.e, idx, 1)))))
        else:
            outs.append((st, vstr(z3.SubString(sv.e, idx, 1))))
        return outs
    if o.kind == 'tuple':
        if is_slice:
            lo, hi, step = i.py[1:]

            def cv(x):
                if x is None or x.kind == 'none':
                    return None
                e = z3.simplify(x.e)
                if not z3.is_int_value(e):
                    raise Unsupported('symbolic tuple slice')
                return e.as_long()
            return [(st, vtuple(o.py[cv(lo):cv(hi)]))]
        iv = ex.concrete_kind(st, i, ('int',))
        e = z3.simplify(iv.e) if iv.kind == 'int' else None
        if e is not None and z3.is_int_value(e):
            n = e.as_long()
            if -len(o.py) <= n < len(o.py):
                return [(st, o.py[n])]
            return [(st, Raise(ex.mk_exc('IndexError', node)))]
        raise Unsupported('symbolic tuple index')
    cc = container_cls(ex, st, o)
    if cc in ('list', 'tuple', 'deque'):
        seq = st.list_seq(o)
        ln = z3.Length(seq)
        if is_slice:
            lo, hi, step = i.py[1:]
            if step is not None:
                raise Unsupported('slice step')
            lo_e = None if lo is None or lo.kind == 'none' else to_int(ex.concrete_kind(st, lo, ('int',)))
            hi_e = None if hi is None or hi.kind == 'none' else to_int(ex.concrete_kind(st, hi, ('int',)))
            a, b = slice_bounds(ln, lo_e, hi_e)
            r = st.alloc('list')
            st.set_list_seq(r, z3.SubSeq(seq, a, z3.If(b > a, b - a, 0)))
            return [(st, r)]
        iv = ex.concrete_kind(st, i, ('int',))
        if iv.kind != 'int':
            raise Unsupported('list index kind')
        idx = z3.simplify(py_index(ln, iv.e))
        outs = []
        bad = st.fork()
        bad.assume(z3.Or(idx < 0, idx >= ln))
        if ex.feasible(bad):
            outs.append((bad, Raise(ex.mk_exc('IndexError', node))))
        st.assume(z3.And(idx >= 0, idx < ln))
        if ex.feasible(st):
            outs.append((st, vany(z3.simplify(seq[idx]))))
        return outs
    if cc == 'dict':
        outs = []
        has = dict_has(st, o, i)
        hooks = ex.ctx.hooks
        missing = st.fork()
        missing.assume(z3.Not(has))
        if ex.feasible(missing):
            dflt = ex.ctx.defaultdict_factory(o) if hasattr(ex.ctx, 'defaultdict_factory') else None
            if dflt is None:
                # pre-state dict declared by the contract as defaultdict(<kind>) (FnCheck.defaultdict_objects)
                for oid_e, kind in getattr(ex.ctx, 'sym_defaultdicts', ()):
                    if ex.entails(missing, o.e == oid_e):
                        from .models_calls import DD_FACTORIES
                        dflt = DD_FACTORIES[kind]
                        break
            if dflt is not None:
                nv = dflt(ex, missing)
                dict_set(ex, missing, o, i, nv)
                outs.append((missing, nv))
            else:
                outs.append((missing, Raise(ex.mk_exc('KeyError', node))))
        st.assume(has)
        if ex.feasible(st):
            outs.append((st, vany(z3.simplify(dict_val(st, o, i)))))
        return outs
    if ex.ctx.opaque_ok:
        return [(st.fork(), Raise(ex.mk_exc('*', node))), (st, vany(fresh(Val, 'item')))]
    raise Unsupported(f'subscript of {o.kind}/{o.cls}')


def setitem(ex, st: State, o: V, i: V, val: V, node):
    o = ex.concrete_kind(st, o, ('ref',))
    cc = container_cls(ex, st, o)
    if cc == 'dict':
        dict_set(ex, st, o, i, val)
        return [(st, NONE)]
    if cc == 'list':
        seq = st.list_seq(o)
        ln = z3.Length(seq)
        iv = ex.concrete_kind(st, i, ('int',))
        if iv.kind != 'int':
            raise Unsupported('list store index')
        idx = py_index(ln, iv.e)
        outs = []
        bad = st.fork()
        bad.assume(z3.Or(idx < 0, idx >= ln))
        if ex.feasible(bad):
            outs.append((bad, Raise(ex.mk_exc('IndexError', node))))
        st.assume(z3.And(idx >= 0, idx < ln))
        st.set_list_seq(o, z3.Concat(z3.SubSeq(seq, 0, idx), z3.Unit(st.box(val)),
                                     z3.SubSeq(seq, idx + 1, ln - idx - 1)))
        outs.append((st, NONE))
        return outs
    if ex.ctx.opaque_ok:
        st.havoc_heap()
        return [(st.fork(), Raise(ex.mk_exc('*', node))), (st, NONE)]
    raise Unsupported(f'item store on {o.kind}/{o.cls}')


def delitem(ex, st: State, o: V, i: V, node):
    o = ex.concrete_kind(st, o, ('ref',))
    cc = container_cls(ex, st, o)
    if cc == 'dict':
        outs = []
        has = dict_has(st, o, i)
        missing = st.fork()
        missing.assume(z3.Not(has))
        if ex.feasible(missing):
            outs.append((missing, Raise(ex.mk_exc('KeyError', node))))
        st.assume(has)
        if ex.feasible(st):
            dict_del(ex, st, o, i)
            outs.append((st, NONE))
        return outs
    if cc == 'list' and i.kind == 'pyconst' and i.py[0] == 'slice' and all(x is None for x in i.py[1:]):
        st.set_list_seq(o, z3.Empty(SeqVal))
        return [(st, NONE)]
    if ex.ctx.opaque_ok:
        st.havoc_heap()
        return [(st.fork(), Raise(ex.mk_exc('*', node))), (st, NONE)]
    raise Unsupported(f'del item on {o.kind}/{o.cls}')


def concrete_items(ex, st: State, it: V):
    """Items of an iterable whose length is concrete, else None."""
    if it.kind == 'tuple':
        return list(it.py)
    if it.kind == 'pyconst' and isinstance(it.py, tuple) and it.py and it.py[0] == 'range':
        lo, hi = it.py[1], it.py[2]
        lo_s, hi_s = z3.simplify(lo), z3.simplify(hi)
        if z3.is_int_value(lo_s) and z3.is_int_value(hi_s):
            return [vint(k) for k in range(lo_s.as_long(), hi_s.as_long())]
        return None
    if it.kind == 'pyconst' and isinstance(it.py, tuple) and it.py and it.py[0] == 'items':
        return list(it.py[1])
    if it.kind == 'ref' and it.cls in ('list', 'tuple'):
        seq = st.list_seq(it)
        ln = z3.simplify(z3.Length(seq))
        if z3.is_int_value(ln):
            return [vany(z3.simplify(seq[k])) for k in range(ln.as_long())]
    return None


def iter_seq(ex, st: State, it: V):
    """(seq term or None, length term or None, elem(st, k) -> V) for cut-point loops."""
    if it.kind == 'pyconst' and isinstance(it.py, tuple) and it.py and it.py[0] == 'range':
        lo, hi = it.py[1], it.py[2]
        n = z3.If(hi > lo, hi - lo, 0)
        return None, n, (lambda s, k: vint(lo + k))
    it2 = ex.concrete_kind(st, it, ('ref',))
    cc = container_cls(ex, st, it2)
    if cc in ('list', 'tuple', 'deque'):
        seq = st.list_seq(it2)
        return seq, z3.Length(seq), (lambda s, k: vany(seq[k]))
    if cc in ('dict', 'set', 'dictview'):
        # iteration order unknown: a fresh sequence of pairwise-distinct members
        seq = fresh(SeqVal, 'iter')
        if cc == 'dictview':
            d = unbox_as(st.read_field(it2, '__dict__'), 'ref')
            mode = it2.py if it2.py in ('keys', 'values', 'items') else (
                ex.ctx.view_mode.get(id(it2), 'keys') if hasattr(ex.ctx, 'view_mode') else 'keys')
            dom = z3.Select(st.get_arr('DK'), d.e)
            n = z3.Select(st.get_arr('DN'), d.e)
            dvals = z3.Select(st.get_arr('DV'), d.e)
        elif cc == 'dict':
            dom = z3.Select(st.get_arr('DK'), it2.e)
            n = z3.Select(st.get_arr('DN'), it2.e)
            mode = 'keys'
            dvals = None
        else:
            dom = z3.Select(st.get_arr('S'), it2.e)
            n = z3.Select(st.get_arr('SN'), it2.e)
            mode = 'keys'
            dvals = None
        j = z3.Int('j!it')
        j2 = z3.Int('j2!it')
        st.assume(z3.Length(seq) == n)
        st.assume(z3.ForAll([j], z3.Implies(z3.And(j >= 0, j < n), z3.Select(dom, seq[j]))))
        st.assume(z3.ForAll([j, j2], z3.Implies(z3.And(j >= 0, j < j2, j2 < n), seq[j] != seq[j2])))
        xm = z3.Const('x!it', Val)
        idx_of = z3.Function(fresh_name('idx_of'), Val, IntS)   # skolem function: position of each member
        st.assume(z3.ForAll([xm], z3.Implies(z3.Select(dom, xm), z3.And(idx_of(xm) >= 0, idx_of(xm) < n,
                                                                       seq[idx_of(xm)] == xm))))
        if mode == 'values':
            return seq, n, (lambda s, k: vany(z3.Select(dvals, seq[k])))
        if mode == 'items':
            return seq, n, (lambda s, k: vtuple([vany(seq[k]), vany(z3.Select(dvals, seq[k]))]))
        return seq, n, (lambda s, k: vany(seq[k]))
    # unknown iterable: opaque elements
    return None, None, (lambda s, k: vany(fresh(Val, 'elem')))


def element_seq(ex, st: State, it: V):
    """Sequence of the *elements* an iteration over `it` yields (iter_seq returns the key sequence for dict views):
    for d.values() a sequence v with len(v) == len(d) and v[j] == d[key_j]; d.items() is not representable."""
    seq, n, elem = iter_seq(ex, st, it)
    it2 = ex.concrete_kind(st, it, ('ref',))
    if seq is not None and container_cls(ex, st, it2) == 'dictview':
        mode = it2.py if it2.py in ('keys', 'values', 'items') else (
            ex.ctx.view_mode.get(id(it2), 'keys') if hasattr(ex.ctx, 'view_mode') else 'keys')
        if mode == 'values':
            d = unbox_as(st.read_field(it2, '__dict__'), 'ref')
            dvals = z3.Select(st.get_arr('DV'), d.e)
            vs = fresh(SeqVal, 'values')
            j = z3.Int('j!vals')
            st.assume(z3.Length(vs) == n)
            st.assume(z3.ForAll([j], z3.Implies(z3.And(j >= 0, j < n), vs[j] == z3.Select(dvals, seq[j]))))
            if getattr(ex.ctx, 'seq_membership_facts', False):
                # membership form of the same fact: x is a value <=> x is stored under some key of the dict
                x, kk = z3.Const('x!vals', Val), z3.Const('k!vals', Val)
                dom = z3.Select(st.get_arr('DK'), d.e)
                key_of = z3.Function(fresh_name('key_of'), Val, Val)      # skolem: a key under which a value is stored
                st.assume(z3.ForAll([x], z3.Implies(z3.Contains(vs, z3.Unit(x)),
                                                    z3.And(z3.Select(dom, key_of(x)), z3.Select(dvals, key_of(x)) == x))))
                st.assume(z3.ForAll([kk], z3.Implies(z3.Select(dom, kk), z3.Contains(vs, z3.Unit(z3.Select(dvals, kk))))))
            return vs
        if mode == 'items':
            raise Unsupported('sequence of dict items of a symbolic dict')
    return seq


def comprehension(ex, st: State, node):
    if len(node.generators) != 1:
        raise Unsupported('nested comprehension')
    gen = node.generators[0]
    outs = []
    for s, it in ex.ev(gen.iter, st):
        if isinstance(it, Raise):
            outs.append((s, it))
            continue
        if it.kind == 'none':
            outs.append((s, Raise(ex.mk_exc('TypeError', node))))     # 'NoneType' object is not iterable
            continue
        items = concrete_items(ex, s, it)
        if items is None:
            r = map_comprehension(ex, s, it, node, gen)
            if r is None:
                r = filter_comprehension(ex, s, it, node, gen)
            if r is None:
                r = alloc_map_comprehension(ex, s, it, node, gen)
            if r is None:
                r = pure_map_comprehension(ex, s, it, node, gen)
            if r is None:
                raise Unsupported('comprehension over symbolic-length iterable')
            outs.append((s, r))
            continue
        saved = dict(s.locals)
        cur = [(s, [])]
        for item in items:
            nxt = []
            for s1, acc in cur:
                if isinstance(acc, Raise):
                    nxt.append((s1, acc))
                    continue
                for s2, sig in ex.assign(gen.target, item, s1):
                    if sig is not None:
                        nxt.append((s2, Raise(sig[1])))
                        continue
                    conds = [(s2, z3.BoolVal(True))]
                    for cnode in gen.ifs:
                        n2 = []
                        for s3, c in conds:
                            if isinstance(c, Raise):
                                n2.append((s3, c))
                                continue
                            for s4, c2 in ex.ev_cond(cnode, s3):
                                n2.append((s4, c2 if isinstance(c2, Raise) else z3.And(c, c2)))
                        conds = n2
                    for s3, c in conds:
                        if isinstance(c, Raise):
                            nxt.append((s3, c))
                            continue
                        cs = z3.simplify(c)
                        if not z3.is_false(cs):
                            s_in = s3.fork() if not z3.is_true(cs) else s3
                            s_in.assume(cs)
                            if z3.is_true(cs) or ex.feasible(s_in):
                                for s5, v in ex.ev(node.elt, s_in):
                                    nxt.append((s5, v if isinstance(v, Raise) else acc + [v]))
                        if not z3.is_true(cs):
                            s_out = s3.fork()
                            s_out.assume(z3.Not(cs))
                            if ex.feasible(s_out):
                                nxt.append((s_out, acc))
            cur = nxt
        for s1, acc in cur:
            for nm in list(s1.locals):
                if nm not in saved:
                    del s1.locals[nm]
            if isinstance(acc, Raise):
                outs.append((s1, acc))
            elif isinstance(node, ast.SetComp):
                sv = s1.new_set()
                for a in acc:
                    set_add(ex, s1, sv, a)
                outs.append((s1, sv))
            elif isinstance(node, ast.GeneratorExp):
                outs.append((s1, vtuple(acc)))
            else:
                outs.append((s1, s1.new_list(acc)))
    return outs


def map_comprehension(ex, st: State, it: V, node, gen):
    """[f(x) for x in seq] with f registered as a pure map function (ctx.map_functions: name -> z3 Val->Val)."""
    if gen.ifs or not isinstance(node, ast.ListComp) or not isinstance(gen.target, ast.Name):
        return None
    elt = node.elt
    mf = getattr(ex.ctx, 'map_functions', {})
    if isinstance(elt, ast.Call) and not elt.args and not elt.keywords and isinstance(elt.func, ast.Attribute) \
            and isinstance(elt.func.value, ast.Name) and elt.func.value.id == gen.target.id:
        fname = '.' + elt.func.attr          # [x.method() for x in seq]
    elif isinstance(elt, ast.Call) and len(elt.args) == 1 and isinstance(elt.args[0], ast.Name) \
            and elt.args[0].id == gen.target.id and not elt.keywords:
        fname = ast.unparse(elt.func)        # [f(x) for x in seq]
    else:
        return None
    if fname not in mf:
        return None
    seq, n, elem = iter_seq(ex, st, it)
    if seq is None:
        return None
    hooks = ex.ctx.hooks
    if hooks is not None and hasattr(hooks, 'on_map'):
        hooks.on_map(ex, st, fname, seq)
    r = st.alloc('list')
    rs = fresh(SeqVal, 'mapped')
    j = z3.Int('j!map')
    st.assume(z3.Length(rs) == z3.Length(seq))
    st.assume(z3.ForAll([j], z3.Implies(z3.And(j >= 0, j < z3.Length(seq)), rs[j] == mf[fname](seq[j]))))
    st.set_list_seq(r, rs)
    return r


def pure_map_comprehension(ex, st: State, it: V, node, gen):
    """[e(x) for x in seq] for an element expression that evaluates, on an arbitrary item, to ONE value term without
    raising and without touching the heap (calls of pure summaries, attribute reads of locals, arithmetic): the result is
    a new list r with len(r) == len(seq) and r[j] == e(seq[j]) for every j. Anything else: not handled here."""
    if gen.ifs or not isinstance(node, ast.ListComp) or not isinstance(gen.target, ast.Name):
        return None
    seq, n, elem = iter_seq(ex, st, it)
    if seq is None:
        return None
    probe = st.fork()
    saved_arr = dict(probe.arr)
    x = z3.Const(fresh_name('mapitem'), Val)
    n_pc = len(probe.pc)
    try:
        outs = []
        for s2, sig in ex.assign(gen.target, vany(x), probe):
            if sig is not None:
                return None
            outs.extend(ex.ev(node.elt, s2))
    except Unsupported:
        return None
    if len(outs) != 1 or isinstance(outs[0][1], Raise):
        return None
    s2, v = outs[0]
    if any(s2.arr.get(k) is not saved_arr.get(k) for k in set(s2.arr) | set(saved_arr)):
        return None     # the element expression writes the heap or allocates
    extra = s2.pc[n_pc:]
    if extra:
        return None     # the evaluation needed assumptions about the item
    t = st.box(v)
    r = st.alloc('list')
    rs = fresh(SeqVal, 'mapped')
    j = z3.Int('j!pmap')
    st.assume(z3.Length(rs) == z3.Length(seq))
    st.assume(z3.ForAll([j], z3.Implies(z3.And(j >= 0, j < z3.Length(seq)), rs[j] == z3.substitute(t, (x, seq[j])))))
    st.set_list_seq(r, rs)
    return r


def _consts_of(e, acc=None, seen=None):
    acc = set() if acc is None else acc
    seen = set() if seen is None else seen
    if e.get_id() in seen:
        return acc
    seen.add(e.get_id())
    if z3.is_const(e) and e.decl().kind() == z3.Z3_OP_UNINTERPRETED:
        acc.add(e.decl().name())
    for c in e.children():
        _consts_of(c, acc, seen)
    return acc


def _amc_fail(ex, why):
    ex.ctx.unsupported_notes.append('allocating comprehension not generalised: ' + why)
    return None


def alloc_map_comprehension(ex, st: State, it: V, node, gen):
    """[Cls(..., x, ...) for x in seq] over a symbolic sequence: the element expression is executed ONCE for a generic
    position; it must have exactly one feasible outcome, allocate exactly one object o, return it, and change the
    heap only at o. The result is then a list of pairwise distinct fresh objects (skolem function alloc(j)) whose
    members are the executed element's members with the position generalised; all other objects are unchanged."""
    from .state import LOOP_BASE
    from .vals import _counter
    if gen.ifs or not isinstance(node, ast.ListComp) or not isinstance(gen.target, ast.Name):
        return None
    seq, n, elem = iter_seq(ex, st, it)
    if n is None:
        return _amc_fail(ex, 'no-symbolic-seq')
    mark = next(_counter)
    qi = fresh(IntS, 'mi')
    body = st.fork()
    body.assume(z3.And(qi >= 0, qi < n))
    body.sym_alloc = True
    body.locals = dict(body.locals)
    body.locals[gen.target.id] = elem(body, qi)
    for name in list(body.arr):
        body.get_arr(name)
    a_before = body.get_arr('A')
    before = dict(body.arr)
    outs = [(s1, v) for s1, v in ex.ev(node.elt, body) if ex.feasible(s1)]
    if len(outs) != 1 or isinstance(outs[0][1], Raise):
        return _amc_fail(ex, 'outcomes')
    s1, v = outs[0]
    if v.kind != 'ref' or not z3.is_const(v.e):
        return _amc_fail(ex, 'not-ref')
    o = v.e
    # the only allocation is o: A after == Store(A before, o, True)
    if not z3.eq(z3.simplify(s1.get_arr('A')), z3.simplify(z3.Store(a_before, o, z3.BoolVal(True)))):
        return _amc_fail(ex, 'A-changed')
    changed = {}
    for name, arr in s1.arr.items():
        if name == 'A':
            continue
        base = before.get(name)
        if base is None:
            base = z3.Const(f'H{st.epoch}.{name}', arr.sort())
            if st.arr.get(name) is None:
                st.arr[name] = base
        if z3.eq(arr, base):
            continue
        a = arr
        while z3.is_store(a) and z3.eq(z3.simplify(a.arg(1)), o):
            a = a.arg(0)
        if not z3.eq(a, base):
            return _amc_fail(ex, 'foreign-write')                      # writes to something else than the new object
        val = z3.simplify(z3.Select(arr, o))
        late = {c for c in _consts_of(val) if '!' in c and c.rsplit('!', 1)[1].isdigit()
                and int(c.rsplit('!', 1)[1]) > mark} - {qi.decl().name(), o.decl().name()}
        if late:
            return _amc_fail(ex, 'late-consts')                      # per-element fresh values cannot be generalised
        changed[name] = (base, val)
    alloc_fn = z3.Function(fresh_name('alloc'), IntS, IntS)
    pos_fn = z3.Function(fresh_name('alloc_pos'), IntS, IntS)
    j, p = z3.Int('j!am'), z3.Int('p!am')
    rng = z3.And(j >= 0, j < n)
    a_new = fresh(a_before.sort(), 'A')
    st.assume(z3.ForAll([j], z3.Implies(rng, z3.And(alloc_fn(j) >= LOOP_BASE, z3.Not(z3.Select(a_before, alloc_fn(j))),
                                                   z3.Select(a_new, alloc_fn(j)), pos_fn(alloc_fn(j)) == j))))
    st.assume(z3.ForAll([p], z3.Implies(z3.Select(a_before, p), z3.Select(a_new, p))))
    st.arr['A'] = a_new
    old = z3.Or(p < LOOP_BASE, z3.Select(a_before, p))
    for name, (base, val) in changed.items():
        x_new = fresh(base.sort(), 'M.' + name)
        st.assume(z3.ForAll([p], z3.Implies(old, z3.Select(x_new, p) == z3.Select(base, p))))
        st.assume(z3.ForAll([j], z3.Implies(rng, z3.Select(x_new, alloc_fn(j))
                                           == z3.substitute(val, (qi, j), (o, alloc_fn(j))))))
        st.arr[name] = x_new
    rs = fresh(SeqVal, 'allocated')
    st.assume(z3.Length(rs) == n)
    st.assume(z3.ForAll([j], z3.Implies(rng, rs[j] == Val.ref(alloc_fn(j)))))
    r = st.alloc('list')
    st.set_list_seq(r, rs)
    st.ghost['c:last_alloc_map'] = {'alloc': alloc_fn, 'result': rs, 'source': seq, 'n': n}
    return r


def filter_comprehension(ex, st: State, it: V, node, gen):
    """[x for x in seq if cond(x)] over a symbolic sequence: the result is characterised by membership
    (every member passed the condition; every passing element is a member); order is not modelled."""
    if not isinstance(node, ast.ListComp) or not isinstance(gen.target, ast.Name) or not gen.ifs:
        return None
    if not (isinstance(node.elt, ast.Name) and node.elt.id == gen.target.id):
        return None
    seq, n, elem = iter_seq(ex, st, it)
    if n is None:
        if not ex.ctx.opaque_ok:
            return None
        r = st.alloc('list')      # unknown iterable: a list with arbitrary elements
        st.set_list_seq(r, fresh(SeqVal, 'filtered'))
        return r
    qi = fresh(IntS, 'fi')
    body = st.fork()
    body.assume(z3.And(qi >= 0, qi < n))
    base = len(body.pc)
    item = elem(body, qi)
    body.locals = dict(body.locals)
    body.locals[gen.target.id] = item
    conds = [(body, z3.BoolVal(True))]
    for cnode in gen.ifs:
        nxt = []
        for s2, acc in conds:
            for s3, c in ex.ev_cond(cnode, s2):
                if isinstance(c, Raise):
                    if ex.feasible(s3):
                        raise Unsupported('comprehension condition may raise')
                    continue
                nxt.append((s3, z3.And(acc, c)))
        conds = nxt
    disj = []
    for s3, c in conds:
        extra = z3.And(*s3.pc[base:]) if len(s3.pc) > base else z3.BoolVal(True)
        disj.append(z3.And(extra, c))
    cexpr = z3.Or(*disj) if disj else z3.BoolVal(False)
    item_e = st.box(item)

    def cond_at(k):
        return z3.substitute(cexpr, (qi, k))

    def item_at(k):
        return z3.substitute(item_e, (qi, k))
    r = st.alloc('list')
    rs = fresh(SeqVal, 'filtered')
    j, i = z3.Int('j!flt'), z3.Int('i!flt')
    st.assume(z3.And(z3.Length(rs) >= 0, z3.Length(rs) <= n))
    src_of = z3.Function(fresh_name('src_of'), IntS, IntS)    # skolem: source index of each result element
    pos_of = z3.Function(fresh_name('pos_of'), IntS, IntS)    # skolem: result index of each passing element
    st.assume(z3.ForAll([j], z3.Implies(z3.And(j >= 0, j < z3.Length(rs)), z3.And(
        src_of(j) >= 0, src_of(j) < n, rs[j] == item_at(src_of(j)), cond_at(src_of(j))))))
    st.assume(z3.ForAll([i], z3.Implies(z3.And(i >= 0, i < n, cond_at(i)), z3.And(
        pos_of(i) >= 0, pos_of(i) < z3.Length(rs), rs[pos_of(i)] == item_at(i)))))
    st.set_list_seq(r, rs)
    if getattr(ex.ctx, 'seq_membership_facts', False) and seq is not None:
        # membership form of the same characterisation (a consequence of the two index facts above): the condition is
        # re-expressed over the element instead of its position; only when it depends on the position through the
        # element alone
        xm = z3.Const('x!flt', Val)
        cx = z3.substitute(cexpr, (z3.simplify(item_e), xm), (item_e, xm))
        if qi.decl().name() not in _consts_of(cx):
            st.assume(z3.ForAll([xm], z3.Contains(rs, z3.Unit(xm)) == z3.And(z3.Contains(seq, z3.Unit(xm)), cx)))
            st.ghost['c:last_filter_membership'] = True
    # the skolem functions are exposed to contracts so that they can name witnesses instead of leaving an
    # exists-quantifier to the solver
    st.ghost['c:last_filter'] = {'src_of': src_of, 'pos_of': pos_of, 'result': rs, 'source_len': n}
    ex.ctx.assumptions.add('filter comprehensions over symbolic collections are modelled by membership only '
                           '(element order and multiplicity are not modelled)')
    return r


def dict_comprehension(ex, st: State, node):
    """{k(x): v(x) for x in it [if c(x)]} as an over-approximation: the result is a NEW dict whose content is not
    modelled (unconstrained keys / values / size >= 0); the condition, key and value expressions are evaluated once on an
    arbitrary item so that every exception they can raise is a path of the caller. Their heap effects are not kept
    (recorded as an assumption: element expressions of dict comprehensions are effect-free)."""
    if len(node.generators) != 1:
        raise Unsupported('nested dict comprehension')
    gen = node.generators[0]
    ex.ctx.assumptions.add('dict comprehension: content of the result not modelled; element expressions effect-free')
    outs = []
    for s, it in ex.ev(gen.iter, st):
        if isinstance(it, Raise):
            outs.append((s, it))
            continue
        if it.kind == 'none':
            outs.append((s, Raise(ex.mk_exc('TypeError', node))))
            continue
        # exceptions of the element expressions, on an arbitrary item
        probe = s.fork()
        saved = dict(probe.locals)
        item = vany(fresh(Val, 'dcomp_item'))
        try:
            for s2, sig in ex.assign(gen.target, item, probe):
                if sig is not None:
                    outs.append((s2, Raise(sig[1])))
                    continue
                states = [s2]
                for cnode in gen.ifs:
                    nxt = []
                    for s3 in states:
                        for s4, c in ex.ev_cond(cnode, s3):
                            if isinstance(c, Raise):
                                outs.append((s4, c))
                            else:
                                nxt.append(s4)
                    states = nxt
                for part in (node.key, node.value):
                    nxt = []
                    for s3 in states:
                        for s4, v in ex.ev(part, s3):
                            if isinstance(v, Raise):
                                outs.append((s4, v))
                            else:
                                nxt.append(s4)
                    states = nxt
        except Unsupported:
            # element expression outside the modelled subset: it may raise anything
            e = s.fork()
            outs.append((e, Raise(ex.mk_exc('*', 'dict comprehension element'))))
        for nm in list(s.locals):
            if nm not in saved:
                del s.locals[nm]
        d = s.alloc('dict')
        dk, dn = fresh(z3.ArraySort(Val, BoolS), 'dcomp_keys'), fresh(IntS, 'dcomp_n')
        s.arr['DK'] = z3.Store(s.get_arr('DK'), d.e, dk)
        s.arr['DN'] = z3.Store(s.get_arr('DN'), d.e, dn)
        s.arr['DV'] = z3.Store(s.get_arr('DV'), d.e, fresh(z3.ArraySort(Val, Val), 'dcomp_vals'))
        s.assume(dn >= 0)
        outs.append((s, d))
    return outs


def py_str(ex, st: State, v: V) -> V:
    v = ex.concrete_kind(st, v, ('str', 'int'))
    if v.kind == 'str':
        return v
    if v.kind == 'int':
        return vstr(uf('py_str_int', IntS, StrS)(v.e))
    if v.kind == 'none':
        return vstr('None')
    if v.kind == 'bool':
        return vstr(z3.If(v.e, z3.StringVal('True'), z3.StringVal('False')))
    return vstr(fresh(StrS, 'str'))


def joined_str(ex, st: State, node: ast.JoinedStr):
    outs = [(st, [])]
    for part in node.values:
        nxt = []
        for s, acc in outs:
            if isinstance(acc, Raise):
                nxt.append((s, acc))
                continue
            if isinstance(part, ast.Constant):
                nxt.append((s, acc + [z3.StringVal(part.value)]))
                continue
            try:
                vouts = ex.ev(part.value, s)
            except Unsupported:
                nxt.append((s, acc + [fresh(StrS, 'fpart')]))
                continue
            for s2, v in vouts:
                if isinstance(v, Raise):
                    nxt.append((s2, v))
                    continue
                spec = None
                if part.format_spec is not None:
                    if len(part.format_spec.values) == 1 and isinstance(part.format_spec.values[0], ast.Constant):
                        spec = part.format_spec.values[0].value
                    else:
                        spec = '?'
                if spec is None and part.conversion == -1:
                    nxt.append((s2, acc + [py_str(ex, s2, v).e]))
                elif spec == 'x' and ex.concrete_kind(s2, v, ('int',)).kind == 'int':
                    nxt.append((s2, acc + [uf('fmt_hex', IntS, StrS)(ex.concrete_kind(s2, v, ('int',)).e)]))
                else:
                    nxt.append((s2, acc + [fresh(StrS, 'fpart')]))
        outs = nxt
    res = []
    for s, acc in outs:
        if isinstance(acc, Raise):
            res.append((s, acc))
        elif not acc:
            res.append((s, vstr('')))
        elif len(acc) == 1:
            res.append((s, vstr(acc[0])))
        else:
            res.append((s, vstr(z3.Concat(*acc))))
    return res


from .models_calls import BUILTIN_FUNCS, call_builtin, call_method, call_external  # noqa: E402,F401
