"""Symbolic values: a universal SMT datatype `Val` plus python-level wrappers."""
from __future__ import annotations

import itertools

import z3

_D = z3.Datatype('Val')
_D.declare('none')
_D.declare('bool', ('b', z3.BoolSort()))
_D.declare('int', ('i', z3.IntSort()))
_D.declare('real', ('r', z3.RealSort()))
_D.declare('str', ('s', z3.StringSort()))
_D.declare('bytes', ('y', z3.StringSort()))
_D.declare('ref', ('oid', z3.IntSort()))
Val = _D.create()
SeqVal = z3.SeqSort(Val)
IntS, RealS, BoolS, StrS = z3.IntSort(), z3.RealSort(), z3.BoolSort(), z3.StringSort()

_counter = itertools.count(1)


def fresh_name(prefix: str) -> str:
    return f'{prefix}!{next(_counter)}'


def fresh(sort, prefix='v'):
    return z3.Const(fresh_name(prefix), sort)


class Unsupported(Exception):
    """Construct outside the modelled subset -> the contract is undecided, never a violation."""


SORT_OF_KIND = {'bool': BoolS, 'int': IntS, 'real': RealS, 'str': StrS, 'bytes': StrS, 'ref': IntS}


class V:
    """A symbolic Python value.

    kind: none|bool|int|real|str|bytes|ref  -> `e` is the unboxed z3 term
          any                               -> `e` is a term of sort Val
          tuple|func|class|module|exccls|pyconst -> python-level value in `py`
    """

    __slots__ = ('kind', 'e', 'py', 'path', 'maybe_none', 'cls')

    def __init__(self, kind, e=None, py=None, path=None, maybe_none=False, cls=None):
        self.kind = kind
        self.e = e
        self.py = py
        self.path = path
        self.maybe_none = maybe_none
        self.cls = cls  # static class of a ref: (modname, clsname) or builtin name 'list'/'dict'/'set'/...

    def __repr__(self):
        if self.kind in ('tuple', 'func', 'class', 'module', 'exccls', 'pyconst'):
            return f'V<{self.kind}:{self.py!r}>'
        return f'V<{self.kind}:{self.e}>'

    def with_path(self, path):
        v = V(self.kind, self.e, self.py, path, self.maybe_none, self.cls)
        return v


NONE = V('none')


def vint(e):
    return V('int', z3.IntVal(e) if isinstance(e, int) else e)


def vreal(e):
    if isinstance(e, (int, float)):
        e = z3.RealVal(repr(e) if isinstance(e, float) else e)
    return V('real', e)


def vbool(e):
    return V('bool', z3.BoolVal(e) if isinstance(e, bool) else e)


def vstr(e):
    return V('str', z3.StringVal(e) if isinstance(e, str) else e)


def vbytes(e):
    if isinstance(e, (bytes, bytearray)):
        e = z3.StringVal(e.decode('latin-1'))
    return V('bytes', e)


def vref(oid, cls=None, path=None):
    return V('ref', z3.IntVal(oid) if isinstance(oid, int) else oid, cls=cls, path=path)


def vany(e, path=None, maybe_none=False):
    return V('any', e, path=path, maybe_none=maybe_none)


def vtuple(items):
    return V('tuple', py=tuple(items))


def const(pyval):
    """Python constant -> V."""
    if pyval is None:
        return NONE
    if isinstance(pyval, bool):
        return vbool(pyval)
    if isinstance(pyval, int):
        return vint(pyval)
    if isinstance(pyval, float):
        return vreal(pyval)
    if isinstance(pyval, str):
        return vstr(pyval)
    if isinstance(pyval, bytes):
        return vbytes(pyval)
    if isinstance(pyval, tuple):
        return vtuple([const(x) for x in pyval])
    if pyval is Ellipsis:
        return V('pyconst', py=Ellipsis)
    raise Unsupported(f'constant {pyval!r}')


def box(v: V):
    """V -> term of sort Val."""
    k = v.kind
    if k == 'any':
        return v.e
    if k == 'none':
        return Val.none
    if k == 'bool':
        return Val.bool(v.e)
    if k == 'int':
        return Val.int(v.e)
    if k == 'real':
        return Val.real(v.e)
    if k == 'str':
        return Val.str(v.e)
    if k == 'bytes':
        return Val.bytes(v.e)
    if k == 'ref':
        return Val.ref(v.e)
    raise Unsupported(f'cannot box value of kind {k}')


TESTER = {'none': Val.is_none, 'bool': Val.is_bool, 'int': Val.is_int, 'real': Val.is_real, 'str': Val.is_str,
          'bytes': Val.is_bytes, 'ref': Val.is_ref}
ACCESSOR = {'bool': Val.b, 'int': Val.i, 'real': Val.r, 'str': Val.s, 'bytes': Val.y, 'ref': Val.oid}
_CTOR_KIND = {'none': 'none', 'bool': 'bool', 'int': 'int', 'real': 'real', 'str': 'str', 'bytes': 'bytes',
              'ref': 'ref'}


def syntactic_kind(e):
    """If `e` (sort Val) is a constructor application return its kind."""
    e = z3.simplify(e)
    if z3.is_app(e) and e.sort() == Val:
        name = e.decl().name()
        if name in _CTOR_KIND and e.decl().arity() == (0 if name == 'none' else 1):
            return name, e
    return None, e


def unbox_as(v: V, kind: str) -> V:
    """Reinterpret an 'any' value as `kind` (caller has established the tester)."""
    if v.kind == kind:
        return v
    if v.kind != 'any':
        raise Unsupported(f'unbox {v.kind} as {kind}')
    if kind == 'none':
        return NONE
    e = z3.simplify(ACCESSOR[kind](v.e))
    return V(kind, e, path=v.path, cls=v.cls)


def truthy(v: V, st=None):
    """z3 Bool: Python truthiness of v."""
    k = v.kind
    if k == 'none':
        return z3.BoolVal(False)
    if k == 'bool':
        return v.e
    if k == 'int':
        return v.e != 0
    if k == 'real':
        return v.e != 0
    if k in ('str', 'bytes'):
        return z3.Length(v.e) > 0
    if k == 'tuple':
        return z3.BoolVal(len(v.py) > 0)
    if k in ('func', 'class', 'module', 'exccls'):
        return z3.BoolVal(True)
    if k == 'ref':
        if st is None:
            raise Unsupported('truthiness of ref without state')
        return st.ref_truthy(v)
    if k == 'any':
        e = v.e
        ref_t = st.ref_truthy(V('ref', Val.oid(e), cls=v.cls)) if st is not None else z3.BoolVal(True)
        return z3.If(Val.is_none(e), False,
                     z3.If(Val.is_bool(e), Val.b(e),
                           z3.If(Val.is_int(e), Val.i(e) != 0,
                                 z3.If(Val.is_real(e), Val.r(e) != 0,
                                       z3.If(Val.is_str(e), z3.Length(Val.s(e)) > 0,
                                             z3.If(Val.is_bytes(e), z3.Length(Val.y(e)) > 0, ref_t))))))
    raise Unsupported(f'truthiness of {k}')
