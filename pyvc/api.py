"""Contract API used by the sidecar files in /verif/contracts."""
from __future__ import annotations

import ast

import z3

from . import models
from .source import Repo, TargetMissing, fn_hash
from .state import State, Exc, Raise, FRESH_BASE, GHOST_SORTS
from .symex import Ctx, Executor, FuncVal, Frame, LoopSpec, Obligation
from .vals import (V, Val, SeqVal, IntS, RealS, BoolS, StrS, NONE, Unsupported, box, const, fresh, fresh_name, truthy,
                   unbox_as, vany, vbool, vbytes, vint, vreal, vref, vstr, vtuple, TESTER)

REGISTRY: dict[str, list] = {}   # property id -> [Check]


def register(check):
    inst = check() if isinstance(check, type) else check
    REGISTRY.setdefault(inst.prop, []).append(inst)
    return check


class VC:
    """One verification condition (pc => goal) with bookkeeping."""

    def __init__(self, name, pc, goal, kind='post', info=None, expect='valid'):
        self.name, self.pc, self.goal, self.kind, self.info = name, list(pc), goal, kind, info or {}
        self.expect = expect   # 'valid' | 'sat' (cover / canary: pc & not goal must be satisfiable)


class Check:
    """Base class: one obligation group."""

    id = ''
    prop = ''
    tag = 'P'            # P|S|F|L  (B = bounded stand-ins are separate)
    targets: tuple = ()  # qualified names of the real functions under contract
    doc = ''
    trusted: tuple = ()  # textual list of assumed contracts this check relies on

    def generate(self, repo: Repo):
        """-> (list[VC], meta dict). May raise Unsupported / TargetMissing."""
        raise NotImplementedError

    def concretize(self, vc: VC, model):
        """model -> JSON-able replay input, or None."""
        return None


# ---------------------------------------------------------------------------------------------------------------
# summaries (callee contracts)

class Summary:
    trusted = False
    name = ''

    def apply(self, ex: Executor, st: State, fv, args, kwargs, node):
        raise NotImplementedError


class Pure(Summary):
    """Heap-neutral callee. fn(ex, st, args, kwargs) -> V | list[(State, V|Raise)]."""

    def __init__(self, fn, name='', trusted=False, raises=()):
        self.fn, self.name, self.trusted, self.raises = fn, name, trusted, raises

    def apply(self, ex, st, fv, args, kwargs, node):
        outs = []
        for cls in self.raises:
            outs.append((st.fork(), Raise(ex.mk_exc(cls, f'{self.name} line {getattr(node, "lineno", "?")}'))))
        r = self.fn(ex, st, args, kwargs)
        if isinstance(r, list):
            return outs + r
        return outs + [(st, r)]


class Havoc(Summary):
    """Unknown callee: arbitrary heap effect, arbitrary result, may raise `raises` (default: anything)."""

    def __init__(self, name='', raises=('*',), keep=()):
        self.name, self.raises, self.keep = name, raises, keep

    def apply(self, ex, st, fv, args, kwargs, node):
        for a in list(args) + list(kwargs.values()):
            st.escape(a)
        st.havoc_heap(keep=self.keep)
        outs = [(st.fork(), Raise(ex.mk_exc(c, f'{self.name} line {getattr(node, "lineno", "?")}')))
                for c in self.raises]
        outs.append((st, vany(fresh(Val, 'ret'))))
        return outs


class Inline(Summary):
    """Execute the callee body (the callee then is part of the verified text); optional loop specs."""

    def __init__(self, loops=None):
        self.loops = loops

    def apply(self, ex, st, fv, args, kwargs, node):
        return ex.inline_call(st, fv, args, kwargs, node, loops=self.loops)


def ghost_get(st: State, name, default=None):
    return st.ghost.get(name, default)


# ---------------------------------------------------------------------------------------------------------------
# building symbolic pre-states

class Build:
    """Helpers to construct symbolic arguments in a State."""

    def __init__(self, ex: Executor, st: State):
        self.ex, self.st = ex, st
        self._n = 1
        self.symbols = {}

    def obj(self, name, cls=None, **fields) -> V:
        """A pre-existing object (symbolic identity among pre-state objects) with some typed fields."""
        oid = z3.Int(f'{name}.oid')
        self.st.assume(z3.And(oid > 0, oid < FRESH_BASE))
        v = vref(oid, cls=cls, path=name)
        if cls is not None:
            cid = self.ex.ctx.class_id(cls)
            self.st.assume(z3.Select(self.st.get_arr('C'), oid) == cid)
        for f, val in fields.items():
            self.set(v, f, val)
        self.symbols[name] = v
        return v

    def set(self, obj: V, field: str, val: V):
        """Constrain (not store) the pre-state: field has the given symbolic value."""
        a = self.st.get_arr('f:' + field)
        self.st.assume(z3.Select(a, obj.e) == self.st.box(val))

    def int(self, name) -> V:
        v = vint(z3.Int(name))
        self.symbols[name] = v
        return v

    def real(self, name) -> V:
        v = vreal(z3.Real(name))
        self.symbols[name] = v
        return v

    def bool(self, name) -> V:
        v = vbool(z3.Bool(name))
        self.symbols[name] = v
        return v

    def str(self, name) -> V:
        v = vstr(z3.String(name))
        self.symbols[name] = v
        return v

    def bytes(self, name) -> V:
        v = vbytes(z3.String(name))
        self.symbols[name] = v
        return v

    def any(self, name, maybe_none=False) -> V:
        v = vany(z3.Const(name, Val), path=name, maybe_none=maybe_none)
        self.symbols[name] = v
        return v

    def distinct(self, *objs):
        if len(objs) > 1:
            self.st.assume(z3.Distinct(*[o.e for o in objs]))


class FnCheck(Check):
    """Contract on one real function: symbolic execution from a constructed pre-state."""

    target = ''
    opaque_ok = False
    inline: tuple = ()
    optional_fields: tuple = ()
    container_hints: dict = {}
    max_paths = 4000
    float_model = 'real'   # 'ieee': every float operation carries a relative rounding error |d| <= 2^-53

    # -- to be provided by the concrete contract
    def setup(self, b: Build):
        """Build the pre-state; return (self_v | None, args list, kwargs dict). Add `requires` via b.st.assume."""
        raise NotImplementedError

    def callees(self, ex: Executor) -> dict:
        return {}

    def loops(self, ex: Executor) -> dict:
        return {}

    def hooks(self, ex: Executor):
        return None

    def post(self, ex: Executor, st0: State, st: State, outcome, b: Build):
        """Add obligations for one terminal path with ex.oblige(st, name, goal)."""

    replay_fn = None
    absence = None

    def absence_obligations(self):
        """Names of obligations that exist only on forbidden paths; default: every name used with a constant-False
        goal in `post` of this class (found by scanning the source of the contract)."""
        if self.absence is not None:
            return self.absence
        import inspect
        import re
        names = set()
        for klass in type(self).__mro__:
            if klass in (FnCheck, Check, object):
                continue
            try:
                src = inspect.getsource(klass)
            except (OSError, TypeError):
                continue
            for m in re.finditer(r"oblige\(\s*\w+,\s*'([\w.]+)',\s*z3\.BoolVal\(False\)", src):
                names.add(m.group(1))
        return sorted(names)

    def witness_exprs(self, st: State, b: Build) -> dict:
        """name -> z3 term whose model value is part of the concrete witness."""
        out = {}
        for name, v in b.symbols.items():
            if v.kind in ('int', 'real', 'bool', 'str', 'bytes'):
                out[name] = v.e
        return out

    def concretize(self, vc: VC, model):
        if self.replay_fn is None:
            return None
        return {k: model_value(model, e) for k, e in getattr(vc, 'syms', {}).items()}

    def finish(self, ex: Executor, st0: State, outcomes, b: Build):
        """Optional whole-function obligations (e.g. 'some normal path exists')."""

    # -- engine
    @property
    def targets(self):
        return (self.target,)

    def generate(self, repo: Repo):
        mod, cdef, fn = repo.find(self.target)
        ctx = Ctx(repo, self.id)
        ctx.opaque_ok = self.opaque_ok
        ctx.inline = set(self.inline)
        ctx.optional_fields = set(self.optional_fields)
        ctx.container_hints = dict(self.container_hints)
        ctx.stable_fields = tuple('f:' + f for f in getattr(self, 'stable_fields', ()))
        if ctx.stable_fields:
            ctx.assumptions.add('frame assumption on unknown callees: they do not assign the members '
                                + ', '.join(getattr(self, 'stable_fields')))
        ctx.max_paths = self.max_paths
        ctx.float_model = self.float_model
        ctx.exc_attr_nonnull = set(getattr(self, 'exc_attr_nonnull', ()))
        ctx.membership = {}
        ctx.map_functions = {}
        ctx.module_constants = dict(getattr(self, 'module_constants', {}))
        ctx.field_types = dict(getattr(self, 'field_types', {}))
        ctx.allow_yield = bool(getattr(self, 'allow_yield', False))
        ctx.objref_fields = set(getattr(self, 'objref_fields', ()))
        ctx.abstract_untracked_ifs = bool(getattr(self, 'abstract_untracked_ifs', False))
        ctx.solver_timeout_ms = getattr(self, 'feasibility_timeout_ms', ctx.solver_timeout_ms)
        ctx.feasibility_ematch_only = bool(getattr(self, 'feasibility_ematch_only', False))
        ctx.seq_membership_facts = bool(getattr(self, 'seq_membership_facts', False))
        ex = Executor(ctx)
        st = State(ctx)
        b = Build(ex, st)
        ex.frames.append(Frame(mod, cdef, fn, self.target))
        self_v, args, kwargs = self.setup(b)
        # parameters the function did not have when the baseline of this contract was recorded are bound to an arbitrary
        # value (not to their default): a change that adds an optional parameter must hold the contract for every caller
        params = [a.arg for a in fn.args.posonlyargs + fn.args.args + fn.args.kwonlyargs]
        new_params = []
        recorded = _recorded_signature(self.prop, self.id)
        if recorded is not None:
            n_pos = len(args) + (1 if self_v is not None and params and params[0] in ('self', 'cls') else 0)
            for i, pname in enumerate(params):
                if pname in recorded or pname in kwargs or i < n_pos:
                    continue
                kwargs = dict(kwargs)
                kwargs[pname] = vany(fresh(Val, 'new_param_' + pname), maybe_none=True)
                new_params.append(pname)
        ctx.callees = self.callees(ex)
        ctx.loops = self.loops(ex)
        ctx.hooks = self.hooks(ex)
        st0 = st.snapshot()
        fv = FuncVal('repo', mod=mod, clsdef=cdef, fn=fn, self_v=self_v, qual=self.target)
        ex.frames.pop()
        ex.frames.append(Frame(mod, cdef, fn, self.target))   # frame used only for name lookup in setup
        ex.frames.pop()
        # run the body (as an "inlined" call from an empty frame so that parameters are bound uniformly)
        ex.frames.append(Frame(mod, None, None, '<harness>'))
        ctx.inline.add(self.target)
        outs = ex.inline_call(st, fv, args, kwargs, fn, loops=ctx.loops)
        ex.frames.pop()
        outcomes = []
        for s, r in outs:
            oc = ('exc', r.exc) if isinstance(r, Raise) else ('ret', r)
            outcomes.append((s, oc))
            self.post(ex, st0, s, oc, b)
        self.finish(ex, st0, outcomes, b)
        vcs = []
        for i, ob in enumerate(ctx.obligations):
            vc = VC(f'{self.id}.{ob.name}', ob.pc, ob.goal, ob.kind, dict(ob.info, n=i))
            try:
                vc.syms = self.witness_exprs(ob.st, b)
            except Exception:  # noqa: BLE001
                vc.syms = {}
            vcs.append(vc)
        # obligations that only materialise on forbidden paths (e.g. 'never_raises') are always listed, so that the
        # recorded baseline knows them as proved when no such path exists
        have = {ob.name for ob in ctx.obligations}
        for n in self.absence_obligations():
            if n not in have:
                vcs.append(VC(f'{self.id}.{n}', [], z3.BoolVal(True), 'absence', {'note': 'no such path'}))
        # cover: at least one terminal path must be reachable (anti-vacuity)
        normal = [s for s, oc in outcomes if oc[0] == 'ret']
        cover_pcs = normal or [s for s, _ in outcomes]
        if cover_pcs:
            vcs.append(VC(f'{self.id}.cover', [z3.Or(*[z3.And(*s.pc) if s.pc else z3.BoolVal(True)
                                                         for s in cover_pcs])], z3.BoolVal(False), 'cover',
                          expect='sat'))
        meta = {
            'function': self.target, 'file': mod.path, 'lines': [fn.lineno, fn.end_lineno],
            'sha256_16': fn_hash(mod, fn), 'paths': len(outcomes),
            'normal_paths': len(normal), 'dropped': sorted(set(ctx.dropped)),
            'havocked_calls': sorted(ctx.havocked_calls), 'inlined': sorted(ctx.inlined - {self.target}),
            'assumptions': sorted(ctx.assumptions), 'trusted': sorted(ctx.trusted | set(self.trusted)),
            'unsupported_notes': ctx.unsupported_notes[:20],
            'feasibility_queries': ctx.stats['feasibility_queries'],
            'params': params, 'new_parameters_symbolic': new_params,
        }
        self._last = (ex, st0, outcomes, b)
        return vcs, meta


_SIG_CACHE = {}


def _recorded_signature(prop, check_id):
    """Parameter names of the contract's target function at the time its baseline was recorded (None: not recorded)."""
    import json
    import os
    if prop not in _SIG_CACHE:
        path = os.path.join(os.path.dirname(os.path.dirname(os.path.abspath(__file__))), 'obligations', f'{prop}.json')
        try:
            with open(path) as f:
                _SIG_CACHE[prop] = json.load(f).get('signatures', {})
        except (OSError, ValueError):
            _SIG_CACHE[prop] = {}
    return _SIG_CACHE[prop].get(check_id)


class SeqCheck(FnCheck):
    """Several real functions executed in sequence from one pre-state (composition lemmas on the real code).

    `steps(ex, b)` is a generator protocol replaced by explicit chaining: implement `script(run, b)` where
    `run(st, qual, self_v, args)` returns the outcomes [(state, V|Raise)] of executing the real function.
    """

    targets_list: tuple = ()

    @property
    def targets(self):
        return tuple(self.targets_list)

    def script(self, run, ex, st, b):
        """-> list[(State, outcome)] ; call ex.oblige as needed."""
        raise NotImplementedError

    def generate(self, repo: Repo):
        ctx = Ctx(repo, self.id)
        ctx.opaque_ok = self.opaque_ok
        ctx.inline = set(self.inline)
        ctx.optional_fields = set(self.optional_fields)
        ctx.container_hints = dict(self.container_hints)
        ctx.float_model = self.float_model
        ctx.solver_timeout_ms = getattr(self, 'feasibility_timeout_ms', ctx.solver_timeout_ms)
        ctx.feasibility_ematch_only = bool(getattr(self, 'feasibility_ematch_only', False))
        ctx.seq_membership_facts = bool(getattr(self, 'seq_membership_facts', False))
        ctx.field_types = dict(getattr(self, 'field_types', {}))
        ctx.max_paths = self.max_paths
        ex = Executor(ctx)
        ctx.callees = self.callees(ex)
        ctx.hooks = self.hooks(ex)
        st = State(ctx)
        b = Build(ex, st)
        metas = []

        def run(s, qual, self_v, args, kwargs=None, loops=None):
            mod, cdef, fn = repo.find(qual)
            metas.append({'function': qual, 'lines': [fn.lineno, fn.end_lineno], 'sha256_16': fn_hash(mod, fn)})
            fv = FuncVal('repo', mod=mod, clsdef=cdef, fn=fn, self_v=self_v, qual=qual)
            ex.frames.append(Frame(mod, None, None, '<harness>'))
            try:
                return ex.inline_call(s, fv, list(args), dict(kwargs or {}), fn, loops=loops)
            finally:
                ex.frames.pop()
        mod0, _, _ = repo.find(self.targets_list[0])
        ex.frames.append(Frame(mod0, None, None, '<harness>'))
        try:
            outcomes = self.script(run, ex, st, b)
        finally:
            ex.frames.pop()
        vcs = []
        for i, ob in enumerate(ctx.obligations):
            vc = VC(f'{self.id}.{ob.name}', ob.pc, ob.goal, ob.kind, dict(ob.info, n=i))
            try:
                vc.syms = self.witness_exprs(ob.st, b)
            except Exception:  # noqa: BLE001
                vc.syms = {}
            vcs.append(vc)
        if outcomes:
            vcs.append(VC(f'{self.id}.cover', [z3.Or(*[z3.And(*s.pc) if s.pc else z3.BoolVal(True)
                                                         for s, _ in outcomes])], z3.BoolVal(False), 'cover',
                          expect='sat'))
        meta = {'function': ' ; '.join(self.targets_list), 'functions': metas, 'paths': len(outcomes or []),
                'lines': None, 'sha256_16': ','.join(m['sha256_16'] for m in metas),
                'dropped': sorted(set(ctx.dropped)), 'havocked_calls': sorted(ctx.havocked_calls),
                'inlined': sorted(ctx.inlined - set(self.targets_list)), 'assumptions': sorted(ctx.assumptions),
                'trusted': sorted(ctx.trusted | set(self.trusted)), 'unsupported_notes': ctx.unsupported_notes[:20]}
        return vcs, meta


class LemmaCheck(Check):
    """Pure SMT lemma over spec functions (no code)."""

    tag = 'L'

    def lemmas(self):
        """-> list of (name, [hypotheses], goal)."""
        raise NotImplementedError

    def generate(self, repo: Repo):
        vcs = []
        for n, hyps, goal in self.lemmas():
            vcs.append(VC(f'{self.id}.{n}', hyps, goal, 'lemma'))
            if hyps:
                # vacuity guard: the hypotheses of every lemma must be satisfiable together
                vcs.append(VC(f'{self.id}.{n}.cover', hyps, z3.BoolVal(True), 'cover', expect='sat'))
        return vcs, {'function': None, 'lemmas': len(vcs), 'trusted': list(self.trusted)}


def model_value(model, e):
    v = model.eval(e, model_completion=True)
    if z3.is_int_value(v):
        return v.as_long()
    if z3.is_rational_value(v):
        return float(v.numerator_as_long()) / float(v.denominator_as_long())
    if z3.is_algebraic_value(v):
        return float(v.approx(10).as_fraction())
    if z3.is_true(v):
        return True
    if z3.is_false(v):
        return False
    if z3.is_string_value(v):
        return v.as_string()
    return str(v)


# convenient z3 helpers for contracts
def B(v: V, st: State = None):
    return truthy(v, st)


def as_int(ex, st, v: V):
    v = ex.concrete_kind(st, v, ('int',))
    if v.kind == 'int':
        return v.e
    if v.kind == 'any':
        return Val.i(v.e)
    raise Unsupported(f'as_int of {v.kind}')


def as_real(ex, st, v: V):
    v = ex.concrete_kind(st, v, ('real', 'int'))
    if v.kind == 'real':
        return v.e
    if v.kind == 'int':
        return z3.ToReal(v.e)
    if v.kind == 'any':
        return Val.r(v.e)
    raise Unsupported(f'as_real of {v.kind}')


def field(st: State, obj: V, name: str):
    """Boxed (sort Val) value of obj.name in state st."""
    return z3.Select(st.get_arr('f:' + name), obj.e)


class ScanCheck(Check):
    """[F] finite exhaustive syntactic check over the real sources (every site of a kind is visited)."""

    tag = 'F'

    def scan(self, repo: Repo):
        """-> list of (name, ok: bool, info: dict)."""
        raise NotImplementedError

    def generate(self, repo: Repo):
        items = self.scan(repo)
        vcs = [VC(f'{self.id}.{n}', [], z3.BoolVal(bool(ok)), 'scan', info) for n, ok, info in items]
        return vcs, {'function': None, 'sites': len(items), 'trusted': list(self.trusted),
                     'scan_sites': [dict(info, ok=bool(ok), name=n) for n, ok, info in items][:60]}
