"""Back ends: z3 (python API) first, then /usr/bin/cvc5 and /usr/bin/z3 on the SMT-LIB dump."""
from __future__ import annotations

import os
import re
import subprocess
import tempfile
import time

import z3

Z3_TIMEOUT_MS = int(os.environ.get('PYVC_Z3_TIMEOUT_MS', '10000'))
CLI_TIMEOUT_S = int(os.environ.get('PYVC_CLI_TIMEOUT_S', '12'))
# Budgets of the in-process z3: a *resource limit* (z3's deterministic step counter; between 0.1 and 2.5 million units per
# second on an idle core, depending on the theories involved) together with a generous wall-clock limit.
#  - queries made while VCs are generated (feasibility of a branch, kind of a value) decide which paths and VCs exist:
#    their budget is essentially the deterministic one (wall limit = 20 x nominal), so generation does not depend on load;
#  - discharging a VC: proofs on the pinned tree take < 3 s; the resource limit is far above that and the wall limit is
#    6 x the nominal budget, so a machine that is several times slower still reaches the same verdict;
#  - satisfiability covers: small budget (an inconclusive cover falls back to the canary).
BUDGETS = {'gen': (2500, 20), 'vc': (10000, 6), 'cover': (2500, 4)}


def set_budget(solver, nominal_ms, kind='gen'):
    per_ms, wall = BUDGETS[kind]
    solver.set('rlimit', min(int(nominal_ms) * per_ms, 4_000_000_000))
    solver.set('timeout', int(nominal_ms) * wall)


def _to_smt2(pc, neg_goal) -> str:
    s = z3.Solver()
    s.add(*pc)
    s.add(neg_goal)
    return s.to_smt2()


def _run_cli(cmd, text, timeout):
    with tempfile.NamedTemporaryFile('w', suffix='.smt2', delete=False) as f:
        f.write(text)
        path = f.name
    try:
        r = subprocess.run(cmd + [path], capture_output=True, text=True, timeout=timeout + 5)
        out = (r.stdout or '').strip().splitlines()
        first = out[0].strip() if out else ''
        if first in ('sat', 'unsat', 'unknown'):
            return first
        return 'unknown'
    except (subprocess.TimeoutExpired, OSError):
        return 'unknown'
    finally:
        os.unlink(path)


_QCACHE: dict = {}


def _has_quantifier(fs):
    """Only selects the solver strategy (never a verdict); top-level formulas are cached by AST id."""
    for top in fs:
        key = top.get_id()
        ent = _QCACHE.get(key)
        hit = ent[1] if ent is not None else None
        if hit is None:
            hit = False
            seen = set()
            todo = [top]
            while todo:
                f = todo.pop()
                if f.get_id() in seen:
                    continue
                seen.add(f.get_id())
                if z3.is_quantifier(f):
                    hit = True
                    break
                todo.extend(f.children())
            if len(_QCACHE) > 300000:
                _QCACHE.clear()
            _QCACHE[key] = (top, hit)     # keeps the term alive: z3 re-uses the ids of freed terms
        if hit:
            return True
    return False


def ematch_check(pc, neg, timeout_ms=8000, auto_config=True):
    s = z3.Solver()
    s.set('smt.mbqi', False)
    if not auto_config:
        s.set('smt.auto_config', False)
    set_budget(s, timeout_ms, 'vc')
    s.add(*pc)
    s.add(neg)
    r = s.check()
    if r == z3.unsat:
        return 'unsat'
    if r == z3.sat:
        return 'sat'
    reason = s.reason_unknown()
    if 'incomplete' in reason:
        return 'saturated'      # instantiation came to an end within the budget (not: budget exhausted)
    return 'unknown'


def check_valid(pc, goal, want_model=True, all_backends=False, z3_timeout_ms=None, ematch_probe=False, short=False,
                cvc5_first=False):
    """-> dict(verdict=proved|refuted|unknown, backend, ms, model (z3 ModelRef|None), detail)."""
    t0 = time.time()
    neg = z3.Not(goal)
    quantified = _has_quantifier(list(pc) + [neg])
    if cvc5_first and not all_backends and os.path.exists('/usr/bin/cvc5'):
        # string-heavy contracts (declared by the contract): cvc5 decides these in seconds where z3 exhausts its budget
        try:
            v = _run_cli(['/usr/bin/cvc5', '--strings-exp', f'--tlimit={CLI_TIMEOUT_S * 1000}', '--lang=smt2'],
                         _fix_for_cvc5(_to_smt2(pc, neg)), CLI_TIMEOUT_S)
        except Exception:  # noqa: BLE001
            v = 'unknown'
        if v == 'unsat':
            return {'backend': 'cvc5-1.0', 'model': None, 'detail': '', 'verdict': 'proved', 'all': {'cvc5-1.0': 'proved'},
                    'ms': int((time.time() - t0) * 1000)}
    if quantified and not all_backends:
        # quantified VCs: plain e-matching without the automatic strategy selection is the most stable configuration
        # (seconds instead of timeouts); only 'unsat' is used from this run
        if ematch_check(pc, neg, timeout_ms=1000 if short else 4000, auto_config=False) == 'unsat':
            return {'backend': 'z3-%s (e-matching, no auto-config)' % z3.get_version_string(), 'model': None, 'detail': '',
                    'verdict': 'proved', 'all': {'z3-ematch': 'proved'}, 'ms': int((time.time() - t0) * 1000)}
    s = z3.Solver()
    set_budget(s, z3_timeout_ms or Z3_TIMEOUT_MS, 'vc')
    s.add(*pc)
    s.add(neg)
    r = s.check()
    res = {'backend': 'z3-%s' % z3.get_version_string(), 'model': None, 'detail': ''}
    verdicts = {}
    if r == z3.unsat:
        res['verdict'] = 'proved'
    elif r == z3.sat:
        res['verdict'] = 'refuted'
        res['model'] = s.model() if want_model else None
    else:
        res['verdict'] = 'unknown'
        res['detail'] = s.reason_unknown()
    verdicts[res['backend']] = res['verdict']
    if short and res['verdict'] == 'unknown':
        # several obligations of the same contract already went through the full budget of every back end
        res['detail'] += ' (short budget: earlier obligations of this contract already exhausted all back ends)'
        res['all'] = verdicts
        res['ms'] = int((time.time() - t0) * 1000)
        return res
    if res['verdict'] == 'unknown' or ematch_probe:
        # instantiation-only run (no model-based quantifier instantiation): terminates by saturation; 'unsat' is a
        # proof, 'unknown (incomplete quantifiers)' means no instance of the hypotheses contradicts the negated goal
        em = ematch_check(pc, neg)
        res['ematch'] = em
        if res['verdict'] == 'unknown' and em == 'unsat':
            res['verdict'] = 'proved'
            res['backend'] = 'z3-%s (e-matching)' % z3.get_version_string()
            verdicts[res['backend']] = 'proved'
    if res['verdict'] == 'unknown' or all_backends:
        try:
            text = _to_smt2(pc, neg)
        except Exception as ex:  # noqa: BLE001
            text = None
            res['detail'] += f' smt2 dump failed: {ex}'
        if text is not None:
            for name, cmd, fix in (
                    ('cvc5-1.0', ['/usr/bin/cvc5', '--strings-exp', f'--tlimit={CLI_TIMEOUT_S * 1000}', '--lang=smt2'],
                     _fix_for_cvc5),
                    ('z3-4.8.12', ['/usr/bin/z3', f'-T:{CLI_TIMEOUT_S}'], lambda t: t)):
                if not os.path.exists(cmd[0]):
                    continue
                v = _run_cli(cmd, fix(text), CLI_TIMEOUT_S)
                vv = {'unsat': 'proved', 'sat': 'refuted', 'unknown': 'unknown'}[v]
                if vv == 'refuted' and quantified:
                    # "sat" of a command-line solver on a quantified problem comes without a model that could be
                    # checked or replayed (MBQI candidate models of recursive functions are unreliable in z3 4.8):
                    # recorded, but neither a refutation nor a disagreement with a proof
                    vv = 'unknown'
                    verdicts[name + ' (unvalidated sat on a quantified problem)'] = 'unknown'
                verdicts[name] = vv
                if res['verdict'] == 'unknown' and vv == 'proved':
                    res['verdict'] = 'proved'
                    res['backend'] = name
                elif res['verdict'] == 'unknown' and vv == 'refuted':
                    # a CLI refutation has no model object: keep as refuted without model
                    res['verdict'] = 'refuted'
                    res['backend'] = name
                if res['verdict'] != 'unknown' and not all_backends:
                    break
    res['all'] = verdicts
    proved = [k for k, v in verdicts.items() if v == 'proved']
    refuted = [k for k, v in verdicts.items() if v == 'refuted']
    if proved and refuted:
        res['verdict'] = 'disagree'
    res['ms'] = int((time.time() - t0) * 1000)
    return res


def _fix_for_cvc5(text: str) -> str:
    # z3 prints (set-info ...) and uses 'seq.' names cvc5 1.0 understands; set a logic explicitly
    if '(set-logic' not in text:
        text = '(set-logic ALL)\n' + text
    return text


def satisfiable(pc, timeout_ms=2500):
    s = z3.Solver()
    set_budget(s, timeout_ms, 'cover')
    s.add(*pc)
    r = s.check()
    verdict = 'sat' if r == z3.sat else ('unsat' if r == z3.unsat else 'unknown')
    return verdict, (s.model() if r == z3.sat else None)


def head(expr, n=400) -> str:
    try:
        t = expr.sexpr()
    except Exception:  # noqa: BLE001
        t = str(expr)
    t = re.sub(r'\s+', ' ', t)
    return t if len(t) <= n else t[:n] + ' …'
