"""Forward symbolic executor over the Python AST (path splitting, SSA heap)."""
from __future__ import annotations

import ast

import z3

from . import models
from .source import Repo, decorators
from .state import State, Exc, Raise, FRESH_BASE
from .vals import (V, Val, SeqVal, IntS, RealS, BoolS, StrS, NONE, Unsupported, box, const, fresh, fresh_name, truthy,
                   unbox_as, syntactic_kind, vany, vbool, vbytes, vint, vreal, vref, vstr, vtuple, TESTER)

BUILTIN_EXC = {
    'BaseException': None, 'Exception': 'BaseException', 'ArithmeticError': 'Exception',
    'ZeroDivisionError': 'ArithmeticError', 'OverflowError': 'ArithmeticError', 'AssertionError': 'Exception',
    'AttributeError': 'Exception', 'LookupError': 'Exception', 'KeyError': 'LookupError',
    'IndexError': 'LookupError', 'ValueError': 'Exception', 'UnicodeError': 'ValueError',
    'UnicodeDecodeError': 'UnicodeError', 'UnicodeEncodeError': 'UnicodeError', 'TypeError': 'Exception',
    'RuntimeError': 'Exception', 'NotImplementedError': 'RuntimeError', 'RecursionError': 'RuntimeError',
    'OSError': 'Exception', 'IOError': 'Exception', 'ConnectionError': 'OSError', 'TimeoutError': 'OSError',
    'ConnectionRefusedError': 'ConnectionError', 'ConnectionResetError': 'ConnectionError',
    'BrokenPipeError': 'ConnectionError', 'FileNotFoundError': 'OSError', 'StopIteration': 'Exception',
    'ImportError': 'Exception', 'NameError': 'Exception', 'MemoryError': 'Exception',
    'KeyboardInterrupt': 'BaseException', 'SystemExit': 'BaseException', 'GeneratorExit': 'BaseException',
    # frequently used library exceptions (flat under Exception unless stated)
    'queue.Empty': 'Exception', 'queue.Full': 'Exception', 'socket.timeout': 'OSError',
    'socket.error': 'OSError', 'etree.XMLSyntaxError': 'SyntaxError', 'SyntaxError': 'Exception',
    'etree.DocumentInvalid': 'Exception', 'etree.XMLSchemaParseError': 'Exception',
    'etree.LxmlError': 'Exception', 'HTTPException': 'Exception', 'http.client.HTTPException': 'Exception',
    'httplib.HTTPException': 'Exception', 'CannotSendRequest': 'HTTPException',
    'BadStatusLine': 'HTTPException', 'NotConnected': 'HTTPException',
    'asyncio.TimeoutError': 'Exception', 'asyncio.CancelledError': 'BaseException',
    'aiohttp.ClientError': 'Exception', 'aiohttp.client_exceptions.ClientConnectorError': 'Exception',
    'ssl.SSLError': 'OSError', 'zlib.error': 'Exception', 'decimal.InvalidOperation': 'ArithmeticError',
    'InvalidOperation': 'ArithmeticError', 'concurrent.futures.TimeoutError': 'Exception',
    'futures.TimeoutError': 'Exception', 'json.JSONDecodeError': 'ValueError',
    'Warning': 'Exception', 'DeprecationWarning': 'Warning', 'UserWarning': 'Warning', 'RuntimeWarning': 'Warning',
}


_SYMCACHE: dict = {}


def _symbols(e):
    """Names of the uninterpreted constants / functions occurring in e (cached by AST id)."""
    key = e.get_id()
    hit = _SYMCACHE.get(key)
    if hit is not None:
        return hit[1]
    out, seen, todo = set(), set(), [e]
    while todo:
        t = todo.pop()
        if t.get_id() in seen:
            continue
        seen.add(t.get_id())
        if z3.is_quantifier(t):
            todo.append(t.body())
            continue
        if z3.is_app(t):
            if t.decl().kind() == z3.Z3_OP_UNINTERPRETED:
                out.add(t.decl().name())
            todo.extend(t.children())
    if len(_SYMCACHE) > 200000:
        _SYMCACHE.clear()
    # the expression itself is kept in the cache entry: z3 re-uses AST ids of freed terms, a live reference prevents
    # a later term from inheriting this entry
    _SYMCACHE[key] = (e, frozenset(out))
    return _SYMCACHE[key][1]


class Ctx:
    """Per-contract shared context."""

    def __init__(self, repo: Repo, name: str = ''):
        self.repo = repo
        self.name = name
        self.obligations = []
        self.assumptions = set()
        self.dropped = []            # statements dropped by extraction (logging)
        self.havocked_calls = set()  # callees replaced by havoc
        self.inlined = set()
        self.callees = {}            # key -> Summary
        self.loops = {}              # ordinal -> LoopSpec
        self.inline = set()          # quals allowed to be inlined
        self.opaque_ok = False       # structural mode: unsupported constructs become havoc
        self.optional_fields = set()
        self.hooks = None            # object with on_call/on_attr_read/on_attr_write/on_with_enter/on_with_exit
        self._epoch = 0
        self._classes = {}
        self.builtin_class_ids = {}
        for b in ('list', 'dict', 'set', 'tuple', 'deque', 'object'):
            self.builtin_class_ids[b] = self.class_id(b)
        self._opaque = {}
        self.max_paths = 4000
        self.n_paths = 0
        self.solver_timeout_ms = 2000
        self.stats = {'feasibility_queries': 0}
        self.unsupported_notes = []
        self.trusted = set()        # names of trusted summaries used
        self.container_hints = {}   # access path -> 'list'|'dict'|'set'

    def new_epoch(self):
        self._epoch += 1
        return self._epoch

    def class_id(self, cls) -> int:
        if cls not in self._classes:
            self._classes[cls] = len(self._classes) + 1
        return self._classes[cls]

    def is_dict_subclass(self, cls) -> bool:
        if not isinstance(cls, tuple):
            return False
        for mod, cdef in self.repo.mro(*cls):
            for b in cdef.bases:
                if ast.unparse(b) in ('dict', 'defaultdict', 'OrderedDict', 'collections.OrderedDict'):
                    return True
        return False

    def subclass_ids(self, cls):
        """Class ids of all registered classes that are `cls` or derive from it."""
        tgt = self.repo.find_class(*cls)
        tname = (tgt[0].name, tgt[1].name) if tgt else cls
        ids = [self.class_id(tname)]
        for c in list(self._classes):
            if isinstance(c, tuple) and c != tname:
                chain = [(m.name, cd.name) for m, cd in self.repo.mro(*c)]
                if tname in chain:
                    ids.append(self._classes[c])
        return ids

    def container_kind(self, o):
        """Contract-declared container kind of an object of statically unknown class (by access path)."""
        if o.path is not None and o.path in self.container_hints:
            return self.container_hints[o.path]
        return None

    def opaque_const(self, key):
        if key not in self._opaque:
            self._opaque[key] = z3.Const('opaque:' + key[:60] + f'#{len(self._opaque)}', Val)
        return self._opaque[key]


class Obligation:
    def __init__(self, name, pc, goal, kind='post', info=None, st=None):
        self.name = name
        self.pc = list(pc)
        self.goal = goal
        self.kind = kind
        self.info = info or {}
        self.st = st


class LoopSpec:
    """Loop contract keyed by (function, ordinal).

    inv(ex, st, env) -> z3 Bool   (env: dict with loop ghost vars: '_k' completed iterations, '_seq' iterated seq)
    variant(ex, st, env) -> z3 Int (optional; checked to decrease and be bounded below by 0)
    unroll: int|None -> unroll exactly n times when the iteration count is concrete
    """

    def __init__(self, inv=None, variant=None, havoc_heap=None, name=None, prefix=False):
        self.inv = inv
        self.variant = variant
        self.havoc_heap = havoc_heap
        self.name = name
        # prefix=True (for-loops over a sequence): env['_prefix'] names the sequence of the items consumed so far -
        # empty on entry, `p` with len(p) == k at the head of an arbitrary iteration, p ++ [seq[k]] after it, and
        # p == seq when the loop exits normally (facts about prefixes of the iterated sequence, not about the code)
        self.prefix = prefix


class FuncVal:
    """Python-level callable."""

    def __init__(self, t, **kw):
        self.t = t
        self.__dict__.update(kw)

    def __repr__(self):
        return f'Func({self.t},{getattr(self, "name", getattr(self, "qual", ""))})'


class Frame:
    def __init__(self, mod, clsdef, fn, qual):
        self.mod, self.clsdef, self.fn, self.qual = mod, clsdef, fn, qual


LOGGER_NAMES = {'_logger', 'logger', '_log', 'log'}
LOG_METHODS = {'debug', 'info', 'warning', 'warn', 'error', 'exception', 'critical', 'log'}


def is_logging_call(node: ast.AST) -> bool:
    if not isinstance(node, ast.Call) or not isinstance(node.func, ast.Attribute):
        return False
    if node.func.attr == 'warn' and isinstance(node.func.value, ast.Name) and node.func.value.id == 'warnings':
        return True   # warnings.warn(...) is treated like logging (dropped by extraction)
    if node.func.attr not in LOG_METHODS:
        return False
    recv = node.func.value
    if isinstance(recv, ast.Attribute) and (recv.attr in LOGGER_NAMES or recv.attr.endswith('_logger')):
        return True
    if isinstance(recv, ast.Name) and (recv.id in LOGGER_NAMES or recv.id.endswith('_logger')):
        return True
    if isinstance(recv, ast.Call) and isinstance(recv.func, ast.Attribute) and recv.func.attr == 'getLogger':
        return True
    return False


class Executor:
    def __init__(self, ctx: Ctx):
        self.ctx = ctx
        self.repo = ctx.repo
        self.frames: list[Frame] = []
        self._loop_ord = {}

    # ------------------------------------------------------------------ solver helpers
    def _solver(self):
        # deterministic budget (resource limit instead of wall-clock time): the paths and VCs that are generated do
        # not depend on the load of the machine
        from .solve import set_budget
        s = z3.Solver()
        set_budget(s, self.ctx.solver_timeout_ms)
        return s

    def feasible(self, st: State, extra=None) -> bool:
        if getattr(self.ctx, 'feasibility_ematch_only', False):
            # contracts with many quantified assumptions: the default strategy (MBQI) runs into its timeout on every
            # query; only instantiation is tried - an undetected infeasible path merely yields extra (valid) VCs
            from .solve import _has_quantifier
            if _has_quantifier(st.pc):
                s = self._solver()
                s.set('smt.mbqi', False)
                s.set('smt.auto_config', False)
                s.add(*st.pc)
                if extra is not None:
                    s.add(extra)
                self.ctx.stats['feasibility_queries'] += 1
                return s.check() != z3.unsat
        s = self._solver()
        s.add(*st.pc)
        if extra is not None:
            s.add(extra)
        self.ctx.stats['feasibility_queries'] += 1
        return s.check() != z3.unsat

    def entails(self, st: State, f) -> bool:
        f = z3.simplify(f)
        if z3.is_true(f):
            return True
        if z3.is_false(f):
            return False
        self.ctx.stats['feasibility_queries'] += 1
        from .solve import _has_quantifier
        # a kind test on a member read `H.f:name[...]` whose heap array no assumption mentions: nothing is known
        # about that value, so no kind is entailed (answering "not entailed" is always sound)
        t0 = f.arg(0) if z3.is_app(f) and f.num_args() == 1 and f.decl().name() == 'is' else None
        if t0 is not None and z3.is_select(t0) and z3.is_const(t0.arg(0)) \
                and t0.arg(0).decl().kind() == z3.Z3_OP_UNINTERPRETED:
            nm0 = t0.arg(0).decl().name()
            if not any(nm0 in _symbols(c) for c in st.pc):
                return False
        if _has_quantifier(st.pc) and getattr(self.ctx, 'feasibility_ematch_only', False):
            # many quantified assumptions: (1) the ground part of the path condition alone, (2) instantiation only;
            # the default strategy would run into its timeout on every query that is not entailed
            ground = [c for c in st.pc if not _has_quantifier([c])]
            s = self._solver()
            s.add(*ground)
            s.add(z3.Not(f))
            if s.check() == z3.unsat:
                return True
            # only the quantified assumptions that mention a symbol of the query can contribute (dropping hypotheses is
            # sound for an entailment check)
            fs = set(_symbols(f))
            quant = [c for c in st.pc if _has_quantifier([c])]
            # a read of a member that no assumption mentions at all: nothing is known about it
            t = f.arg(0) if z3.is_app(f) and f.num_args() == 1 else None
            if t is not None and z3.is_select(t) and z3.is_const(t.arg(0)) \
                    and t.arg(0).decl().kind() == z3.Z3_OP_UNINTERPRETED:
                nm = t.arg(0).decl().name()
                if not any(nm in _symbols(c) for c in st.pc):
                    return False
            # symbols linked to the query through small ground facts (equalities naming a term), two rounds
            for _ in range(2):
                for c in ground:
                    cs = _symbols(c)
                    if len(cs) <= 8 and (cs & fs):
                        fs |= cs
            rel = [c for c in quant if _symbols(c) & fs]
            if not rel:
                return False
            s = self._solver()
            s.set('smt.mbqi', False)
            s.set('smt.auto_config', False)
            s.add(*ground)
            s.add(*rel)
            s.add(z3.Not(f))
            return s.check() == z3.unsat
        if _has_quantifier(st.pc):
            # quantified path conditions: instantiation-only run first (stable; a timeout of the default strategy
            # would silently lose precision and make the generated VCs differ from run to run)
            s = self._solver()
            s.set('smt.mbqi', False)
            s.set('smt.auto_config', False)
            s.add(*st.pc)
            s.add(z3.Not(f))
            if s.check() == z3.unsat:
                return True
        s = self._solver()
        s.add(*st.pc)
        s.add(z3.Not(f))
        return s.check() == z3.unsat

    def concrete_kind(self, st: State, v: V, wanted=None):
        """Resolve an 'any' value to a definite kind using (1) syntax (2) the path condition."""
        if v.kind != 'any':
            return v
        k, e = syntactic_kind(v.e)
        if k is not None:
            r = V('none') if k == 'none' else V(k, e.arg(0))
            r.path, r.cls = v.path, v.cls
            return r
        order = list(wanted) if wanted else []
        for k in ('ref', 'int', 'str', 'none', 'real', 'bool', 'bytes'):
            if k not in order:
                order.append(k)
        for k in order:
            if self.entails(st, TESTER[k](v.e)):
                return unbox_as(v, k)
        return v

    def oblige(self, st: State, name, goal, kind='assert', info=None):
        self.ctx.obligations.append(Obligation(name, st.pc, goal, kind, info, st))

    # ------------------------------------------------------------------ frames / names
    @property
    def frame(self) -> Frame:
        return self.frames[-1]

    def lookup_name(self, name: str, st: State) -> V:
        if name in st.locals:
            return st.locals[name]
        mod = self.frame.mod
        return self.module_attr(mod, name, st)

    def module_attr(self, mod, name: str, st: State) -> V:
        if mod is not None:
            if name in mod.functions:
                return V('func', py=FuncVal('repo', mod=mod, clsdef=None, fn=mod.functions[name], self_v=None,
                                            qual=f'{mod.name}:{name}'))
            if name in mod.classes:
                return V('class', py=(mod.name, name))
            mc = getattr(self.ctx, 'module_constants', {})
            if f'{mod.name}:{name}' in mc:
                self.ctx.assumptions.add(f'module constant {mod.name}:{name} == {mc[f"{mod.name}:{name}"]!r} '
                                         f'(value computed at import time; checked natively by the [F] constants check)')
                return const(mc[f'{mod.name}:{name}'])
            if name in mod.constants:
                return self.eval_constant(mod, mod.constants[name], f'{mod.name}:{name}', name, st)
            if name in mod.imports:
                m2, attr = mod.imports[name]
                if attr is None:
                    return V('module', py=m2)
                target = self.repo.module(m2)
                if target is not None and (attr in target.functions or attr in target.classes
                                           or attr in target.constants or attr in target.imports):
                    return self.module_attr(target, attr, st)
                sub = self.repo.module(m2 + '.' + attr)
                if sub is not None or target is None:
                    # submodule of the repo, or an external module / external name
                    if sub is not None:
                        return V('module', py=m2 + '.' + attr)
                    return self.external_name(m2, attr)
                return self.external_name(m2, attr)
        if name in models.BUILTIN_FUNCS:
            return V('func', py=FuncVal('builtin', name=name))
        if name in BUILTIN_EXC:
            return V('exccls', py=name)
        if name in ('int', 'str', 'float', 'bool', 'bytes', 'list', 'dict', 'set', 'tuple', 'object', 'type',
                    'bytearray', 'frozenset'):
            return V('func', py=FuncVal('builtin', name=name))
        raise Unsupported(f'name {name}')

    def eval_constant(self, mod, cexpr, key: str, path: str, st: State) -> V:
        """Value of a module / class level constant (computed at import time): evaluated on a scratch copy of the
        state; anything but a scalar / tuple / class / function becomes a stable opaque object."""
        cache = self.ctx.__dict__.setdefault('_const_cache', {})
        if key in cache:
            return cache[key]
        if st is None:
            st = State(self.ctx)
        saved, saved_opq = self.frames, self.ctx.opaque_ok
        self.frames = saved + [Frame(mod, None, None, mod.name)]
        self.ctx.opaque_ok = False
        n_obl = len(self.ctx.obligations)
        n_hav = set(self.ctx.havocked_calls)
        try:
            outs = self.ev(cexpr, st.fork())
        except Unsupported:
            outs = None
        finally:
            self.frames = saved
            self.ctx.opaque_ok = saved_opq
            del self.ctx.obligations[n_obl:]
            self.ctx.havocked_calls = n_hav
        v = None
        if outs is not None and len(outs) == 1 and not isinstance(outs[0][1], Raise):
            r = outs[0][1]
            if r.kind in ('none', 'bool', 'int', 'real', 'str', 'bytes', 'tuple', 'class', 'func', 'exccls', 'module'):
                if r.kind != 'tuple' or all(x.kind in ('none', 'bool', 'int', 'real', 'str', 'bytes', 'class', 'exccls')
                                            for x in r.py):
                    v = r
        if v is None:
            # a distinct, stable object identity per constant (reserved range just below the fresh range)
            ids = self.ctx.__dict__.setdefault('_const_ids', {})
            if key not in ids:
                ids[key] = FRESH_BASE - 1 - len(ids)
            self.ctx.assumptions.add(f'import-time constant {key} is an opaque object (not None, distinct from other constants)')
            v = V('ref', z3.IntVal(ids[key]), path=path)
        cache[key] = v
        return v

    def external_name(self, modname: str, attr: str) -> V:
        full = f'{modname}.{attr}'
        short = f'{modname.split(".")[-1]}.{attr}'
        for k in (full, short, attr):
            if k in BUILTIN_EXC:
                return V('exccls', py=k)
        if attr and attr[0].isupper() and (attr.endswith('Error') or attr.endswith('Exception')):
            return V('exccls', py=attr)
        return V('func', py=FuncVal('ext', name=full))

    # ------------------------------------------------------------------ exceptions
    def exc_parent(self, cls: str):
        if cls in BUILTIN_EXC:
            return BUILTIN_EXC[cls]
        # repo-defined exception class: search all loaded modules of the frame chain
        for fr in reversed(self.frames):
            found = self.repo.find_class(fr.mod.name, cls) if fr.mod else None
            if found:
                mod, cdef = found
                for b in cdef.bases:
                    bn = ast.unparse(b)
                    return bn
                return 'object'
        return 'Exception'

    def exc_matches(self, cls: str, handler: str):
        """True / False / None(unknown)."""
        if handler in ('BaseException',):
            return True
        if cls == '*':
            return True if handler == 'Exception' else None
        seen = 0
        c = cls
        hshort = handler.split('.')[-1]
        while c is not None and seen < 20:
            if c == handler or c.split('.')[-1] == hshort:
                return True
            c = self.exc_parent(c)
            seen += 1
        return False

    def handler_names(self, typ, st) -> list[str]:
        if typ is None:
            return ['BaseException']
        if isinstance(typ, ast.Tuple):
            out = []
            for e in typ.elts:
                out += self.handler_names(e, st)
            return out
        return [ast.unparse(typ)]

    def mk_exc(self, cls: str, origin: ast.AST | str = '', value=None, args=()):
        if isinstance(origin, ast.AST):
            origin = f'line {getattr(origin, "lineno", "?")}'
        return Exc(cls, origin, value, args)

    # ------------------------------------------------------------------ statements
    def exec_block(self, stmts, st: State):
        outs = [(st, None)]
        for node in stmts:
            nxt = []
            for s, sig in outs:
                if sig is not None:
                    nxt.append((s, sig))
                    continue
                nxt.extend(self.exec_stmt(node, s))
            outs = nxt
            self.ctx.n_paths = max(self.ctx.n_paths, len(outs))
            if len(outs) > self.ctx.max_paths:
                raise Unsupported(f'path explosion (> {self.ctx.max_paths} paths)')
        return outs

    def exec_stmt(self, node, st: State):
        try:
            return self._exec_stmt(node, st)
        except Unsupported as ex:
            if not self.ctx.opaque_ok or self.contains_tracked(node):
                raise
            self.ctx.unsupported_notes.append(f'line {getattr(node, "lineno", "?")}: {ex} -> havoc')
            return self.havoc_stmt(node, st)

    def contains_tracked(self, node) -> bool:
        hooks = self.ctx.hooks
        tracked = getattr(hooks, 'tracked_names', ()) if hooks else ()
        names = set(tracked)
        for k in self.ctx.callees:
            names.add(k.split('.')[-1].split(':')[-1])
        for n in ast.walk(node):
            if isinstance(n, ast.Attribute) and n.attr in names:
                return True
            if isinstance(n, ast.Name) and n.id in names:
                return True
            if isinstance(n, (ast.With, ast.AsyncWith, ast.Return, ast.Raise, ast.Try)) and n is not node:
                return True
        if isinstance(node, (ast.With, ast.AsyncWith, ast.Return, ast.Raise, ast.Try, ast.Break, ast.Continue)):
            return True
        return False

    def havoc_stmt(self, node, st: State):
        for n in ast.walk(node):
            if isinstance(n, ast.Name) and isinstance(n.ctx, ast.Store):
                st.locals[n.id] = vany(fresh(Val, n.id))
        has_call = any(isinstance(n, (ast.Call, ast.Attribute, ast.Subscript)) for n in ast.walk(node))
        outs = []
        if has_call:
            self.escape_names(node, st)
            st.havoc_heap()
            s2 = st.fork()
            outs.append((s2, ('exc', self.mk_exc('*', node))))
        outs.append((st, None))
        return outs

    def _exec_stmt(self, node, st: State):
        t = type(node)
        if t is ast.Expr:
            if isinstance(node.value, ast.Constant):
                return [(st, None)]
            if is_logging_call(node.value) or (isinstance(node.value, ast.Call)
                                               and isinstance(node.value.func, ast.Name)
                                               and node.value.func.id == 'print'):
                self.ctx.dropped.append(f'line {node.lineno}: logging call')
                return [(st, None)]
            return [(s, ('exc', r.exc) if isinstance(r, Raise) else None) for s, r in self.ev(node.value, st)]
        if t is ast.Pass:
            return [(st, None)]
        if t is ast.Assign:
            outs = []
            for s, r in self.ev(node.value, st):
                if isinstance(r, Raise):
                    outs.append((s, ('exc', r.exc)))
                    continue
                cur = [(s, None)]
                for tgt in node.targets:
                    nxt = []
                    for s2, sig in cur:
                        if sig is not None:
                            nxt.append((s2, sig))
                        else:
                            nxt.extend(self.assign(tgt, r, s2))
                    cur = nxt
                outs.extend(cur)
            return outs
        if t is ast.AnnAssign:
            if node.value is None:
                return [(st, None)]
            outs = []
            for s, r in self.ev(node.value, st):
                if isinstance(r, Raise):
                    outs.append((s, ('exc', r.exc)))
                else:
                    outs.extend(self.assign(node.target, r, s))
            return outs
        if t is ast.AugAssign:
            load = self._as_load(node.target)
            binop = ast.BinOp(left=load, op=node.op, right=node.value)
            ast.copy_location(binop, node)
            ast.fix_missing_locations(binop)
            binop._augmented = True
            outs = []
            for s, r in self.ev(binop, st):
                if isinstance(r, Raise):
                    outs.append((s, ('exc', r.exc)))
                else:
                    outs.extend(self.assign(node.target, r, s))
            return outs
        if t is ast.Return:
            if node.value is None:
                return [(st, ('ret', NONE))]
            return [(s, ('exc', r.exc) if isinstance(r, Raise) else ('ret', r)) for s, r in self.ev(node.value, st)]
        if t is ast.If:
            if getattr(self.ctx, 'abstract_untracked_ifs', False) and not self.contains_tracked(node) \
                    and not any(isinstance(n, (ast.Return, ast.Raise, ast.Break, ast.Continue, ast.Yield, ast.With,
                                               ast.Try)) for n in ast.walk(node)):
                # structural mode: an `if` that touches nothing the contract tracks is abstracted to a havoc
                self.ctx.unsupported_notes.append(f'line {node.lineno}: untracked if-statement abstracted')
                return self.havoc_stmt(node, st)
            outs = []
            for s, c in self.ev_cond(node.test, st):
                if isinstance(c, Raise):
                    outs.append((s, ('exc', c.exc)))
                    continue
                for branch, cond, body in ((True, c, node.body), (False, z3.Not(c), node.orelse)):
                    cs = z3.simplify(cond)
                    if z3.is_false(cs):
                        continue
                    s2 = s.fork()
                    s2.assume(cs)
                    if not z3.is_true(cs) and not self.feasible(s2):
                        continue
                    s2.mark((node.lineno, branch))
                    outs.extend(self.exec_block(body, s2))
            return outs
        if t is ast.While:
            return self.exec_while(node, st)
        if t in (ast.For, ast.AsyncFor):
            return self.exec_for(node, st)
        if t is ast.Break:
            return [(st, ('brk',))]
        if t is ast.Continue:
            return [(st, ('cnt',))]
        if t is ast.Raise:
            return self.exec_raise(node, st)
        if t is ast.Try:
            return self.exec_try(node, st)
        if t in (ast.With, ast.AsyncWith):
            return self.exec_with(node, st, 0)
        if t is ast.Assert:
            outs = []
            for s, c in self.ev_cond(node.test, st):
                if isinstance(c, Raise):
                    outs.append((s, ('exc', c.exc)))
                    continue
                s_ok = s.fork()
                s_ok.assume(c)
                if self.feasible(s_ok):
                    outs.append((s_ok, None))
                s_bad = s.fork()
                s_bad.assume(z3.Not(c))
                if self.feasible(s_bad):
                    outs.append((s_bad, ('exc', self.mk_exc('AssertionError', node))))
            return outs
        if t is ast.Delete:
            cur = [(st, None)]
            for tgt in node.targets:
                nxt = []
                for s, sig in cur:
                    if sig is not None:
                        nxt.append((s, sig))
                    else:
                        nxt.extend(self.delete(tgt, s))
                cur = nxt
            return cur
        if t in (ast.FunctionDef, ast.AsyncFunctionDef):
            st.locals[node.name] = V('func', py=FuncVal('repo', mod=self.frame.mod, clsdef=None, fn=node, self_v=None,
                                                       qual=f'{self.frame.qual}.<locals>.{node.name}',
                                                       closure=st.locals))
            return [(st, None)]
        if t in (ast.Import, ast.ImportFrom):
            for a in node.names:
                nm = a.asname or a.name.split('.')[0]
                if t is ast.ImportFrom:
                    modname = node.module or ''
                    if node.level and self.frame.mod:
                        base = self.frame.mod.name.split('.')
                        base = base[:len(base) - node.level]
                        modname = '.'.join(base + ([modname] if modname else []))
                    target = self.repo.module(modname)
                    if target is not None:
                        try:
                            st.locals[nm] = self.module_attr(target, a.name, st)
                            continue
                        except Unsupported:
                            pass
                    if self.repo.module(modname + '.' + a.name) is not None:
                        st.locals[nm] = V('module', py=modname + '.' + a.name)
                    else:
                        st.locals[nm] = self.external_name(modname, a.name)
                else:
                    st.locals[nm] = V('module', py=a.name if a.asname else a.name.split('.')[0])
            return [(st, None)]
        if t in (ast.Global, ast.Nonlocal):
            raise Unsupported('global/nonlocal')
        raise Unsupported(f'statement {t.__name__}')

    @staticmethod
    def _as_load(target):
        import copy
        n = copy.deepcopy(target)
        for x in ast.walk(n):
            if hasattr(x, 'ctx'):
                x.ctx = ast.Load()
        return n

    # -- assignment targets
    def assign(self, tgt, val: V, st: State):
        if isinstance(tgt, ast.Name):
            if val.kind in ('any', 'ref') and val.path is None:
                val = val.with_path(tgt.id)
            st.locals[tgt.id] = val
            return [(st, None)]
        if isinstance(tgt, (ast.Tuple, ast.List)):
            items = self.unpack(val, len(tgt.elts), st, tgt)
            if isinstance(items, Raise):
                return [(st, ('exc', items.exc))]
            if isinstance(items, list) and items and isinstance(items[0], tuple) and isinstance(items[0][0], State):
                outs = []
                for s2, its in items:
                    if isinstance(its, Raise):
                        outs.append((s2, ('exc', its.exc)))
                        continue
                    cur = [(s2, None)]
                    for sub, item in zip(tgt.elts, its):
                        nxt = []
                        for s3, sig in cur:
                            nxt.extend(self.assign(sub, item, s3) if sig is None else [(s3, sig)])
                        cur = nxt
                    outs.extend(cur)
                return outs
            cur = [(st, None)]
            for sub, item in zip(tgt.elts, items):
                nxt = []
                for s2, sig in cur:
                    nxt.extend(self.assign(sub, item, s2) if sig is None else [(s2, sig)])
                cur = nxt
            return cur
        if isinstance(tgt, ast.Attribute):
            outs = []
            for s, o in self.ev(tgt.value, st):
                if isinstance(o, Raise):
                    outs.append((s, ('exc', o.exc)))
                    continue
                outs.extend(self.store_attr(s, o, tgt.attr, val, tgt))
            return outs
        if isinstance(tgt, ast.Subscript):
            outs = []
            for s, o in self.ev(tgt.value, st):
                if isinstance(o, Raise):
                    outs.append((s, ('exc', o.exc)))
                    continue
                for s2, i in self.ev_index(tgt.slice, s):
                    if isinstance(i, Raise):
                        outs.append((s2, ('exc', i.exc)))
                        continue
                    d = self.dunder(s2, o, '__setitem__')
                    res = self.call(s2, d, [i, val], {}, tgt) if d is not None else models.setitem(self, s2, o, i, val, tgt)
                    for s3, r in res:
                        outs.append((s3, ('exc', r.exc) if isinstance(r, Raise) else None))
            return outs
        raise Unsupported(f'assignment target {type(tgt).__name__}')

    def unpack(self, val: V, n: int, st: State, node):
        if val.kind == 'tuple':
            if len(val.py) != n:
                return Raise(self.mk_exc('ValueError', node))
            return list(val.py)
        val = self.concrete_kind(st, val, ('ref',))
        if val.kind == 'ref':
            seq = st.list_seq(val)
            ln = z3.Length(seq)
            outs = []
            ok = st.fork()
            ok.assume(ln == n)
            if self.feasible(ok):
                outs.append((ok, [vany(z3.simplify(seq[i])) for i in range(n)]))
            bad = st.fork()
            bad.assume(ln != n)
            if self.feasible(bad):
                outs.append((bad, Raise(self.mk_exc('ValueError', node))))
            return outs
        if self.ctx.opaque_ok:
            return [vany(fresh(Val, 'unpack')) for _ in range(n)]
        raise Unsupported(f'unpack of {val.kind}')

    def delete(self, tgt, st: State):
        if isinstance(tgt, ast.Name):
            st.locals.pop(tgt.id, None)
            return [(st, None)]
        if isinstance(tgt, ast.Subscript):
            outs = []
            for s, o in self.ev(tgt.value, st):
                if isinstance(o, Raise):
                    outs.append((s, ('exc', o.exc)))
                    continue
                for s2, i in self.ev_index(tgt.slice, s):
                    if isinstance(i, Raise):
                        outs.append((s2, ('exc', i.exc)))
                        continue
                    d = self.dunder(s2, o, '__delitem__')
                    res = self.call(s2, d, [i], {}, tgt) if d is not None else models.delitem(self, s2, o, i, tgt)
                    for s3, r in res:
                        outs.append((s3, ('exc', r.exc) if isinstance(r, Raise) else None))
            return outs
        raise Unsupported('del target')

    # -- raise / try / with
    def exec_raise(self, node, st: State):
        if node.exc is None:
            if st.exc_stack:
                return [(st, ('exc', st.exc_stack[-1]))]
            return [(st, ('exc', self.mk_exc('RuntimeError', node)))]
        e = node.exc
        # raise X / raise X(...) / raise var
        callee = e.func if isinstance(e, ast.Call) else e
        outs = []
        try:
            cv_outs = self.ev(callee, st)
        except Unsupported:
            cv_outs = None
        if cv_outs is None:
            return [(st, ('exc', self.mk_exc(ast.unparse(callee), node)))]
        for s, cv in cv_outs:
            if isinstance(cv, Raise):
                outs.append((s, ('exc', cv.exc)))
                continue
            if cv.kind == 'exccls':
                args_out = [(s, [])]
                if isinstance(e, ast.Call):
                    args_out = self.ev_many(e.args, s)
                for s2, args in args_out:
                    if isinstance(args, Raise):
                        outs.append((s2, ('exc', args.exc)))
                    else:
                        outs.append((s2, ('exc', self.mk_exc(cv.py, node, args=tuple(args)))))
            elif cv.kind == 'class':
                args_out = [(s, [])]
                if isinstance(e, ast.Call):
                    args_out = self.ev_many(e.args, s)
                for s2, args in args_out:
                    if isinstance(args, Raise):
                        outs.append((s2, ('exc', args.exc)))
                    else:
                        outs.append((s2, ('exc', self.mk_exc(cv.py[1], node, args=tuple(args)))))
            elif cv.kind == 'pyconst' and isinstance(cv.py, Exc):
                outs.append((s, ('exc', cv.py)))
            else:
                # raising a previously caught / constructed exception object of unknown class
                outs.append((s, ('exc', self.mk_exc('*', node))))
        return outs

    def exec_try(self, node: ast.Try, st: State):
        outs = []
        body_outs = self.exec_block(node.body, st)
        after = []
        for s, sig in body_outs:
            if sig is None:
                after.extend(self.exec_block(node.orelse, s) if node.orelse else [(s, None)])
            elif sig[0] == 'exc':
                after.extend(self.dispatch_handlers(node, s, sig[1]))
            else:
                after.append((s, sig))
        if not node.finalbody:
            return after
        for s, sig in after:
            for s2, sig2 in self.exec_block(node.finalbody, s):
                outs.append((s2, sig2 if sig2 is not None else sig))
        return outs

    def dispatch_handlers(self, node: ast.Try, st: State, exc: Exc):
        outs = []
        cur = st
        for h in node.handlers:
            names = self.handler_names(h.type, cur)
            res = [self.exc_matches(exc.cls, n) for n in names]
            if any(r is True for r in res):
                outs.extend(self.run_handler(h, cur, exc))
                return outs
            if any(r is None for r in res):
                # may match: fork
                s_match = cur.fork()
                s_match.mark((h.lineno, 'maycatch'))
                narrowed = Exc(names[0] if len(names) == 1 else exc.cls, exc.origin, exc.value, exc.args)
                outs.extend(self.run_handler(h, s_match, narrowed))
                # and continue with the not-matched alternative
        outs.append((cur, ('exc', exc)))
        return outs

    def run_handler(self, h: ast.ExceptHandler, st: State, exc: Exc):
        if h.name:
            st.locals[h.name] = V('pyconst', py=exc)
        st.exc_stack = st.exc_stack + (exc,)
        outs = []
        for s, sig in self.exec_block(h.body, st):
            s.exc_stack = s.exc_stack[:-1] if s.exc_stack else ()
            outs.append((s, sig))
        return outs

    def exec_with(self, node, st: State, idx: int):
        if idx >= len(node.items):
            return self.exec_block(node.body, st)
        item = node.items[idx]
        ce = item.context_expr
        # contextlib.suppress(E, ...)
        if isinstance(ce, ast.Call) and ast.unparse(ce.func) in ('contextlib.suppress', 'suppress'):
            names = []
            for a in ce.args:
                names += self.handler_names(a, st)
            outs = []
            for s, sig in self.exec_with(node, st, idx + 1):
                if sig is not None and sig[0] == 'exc':
                    res = [self.exc_matches(sig[1].cls, n) for n in names]
                    if any(r is True for r in res):
                        outs.append((s, None))
                        continue
                    if any(r is None for r in res):
                        outs.append((s.fork(), None))
                outs.append((s, sig))
            return outs
        outs = []
        for s, cm in self.ev(ce, st):
            if isinstance(cm, Raise):
                outs.append((s, ('exc', cm.exc)))
                continue
            hooks = self.ctx.hooks
            key = cm.path or ast.unparse(ce)
            entered = [(s, None)]
            if hooks is not None and hasattr(hooks, 'on_with_enter'):
                entered = hooks.on_with_enter(self, s, key, cm, node) or [(s, None)]
            for s1, sig1 in entered:
                if sig1 is not None:
                    outs.append((s1, sig1))
                    continue
                if item.optional_vars is not None:
                    bound = cm if hooks is None or not hasattr(hooks, 'with_value') else hooks.with_value(self, s1, key, cm)
                    for s1b, sigb in self.assign(item.optional_vars, bound, s1):
                        if sigb is not None:
                            outs.append((s1b, sigb))
                    # assignment of simple names never forks
                for s2, sig in self.exec_with(node, s1, idx + 1):
                    if hooks is not None and hasattr(hooks, 'on_with_exit'):
                        r = hooks.on_with_exit(self, s2, key, cm, node, sig)
                        if r is not None:
                            outs.extend(r)
                            continue
                    outs.append((s2, sig))
        return outs

    # -- loops
    def loop_ordinal(self, node) -> int:
        fn = self.frame.fn
        key = id(fn)
        if key not in self._loop_ord:
            loops = [n for n in ast.walk(fn) if isinstance(n, (ast.While, ast.For, ast.AsyncFor))]
            loops.sort(key=lambda n: (n.lineno, n.col_offset))
            self._loop_ord[key] = {id(n): i for i, n in enumerate(loops)}
        return self._loop_ord[key].get(id(node), -1)

    def loop_spec(self, node):
        if len(self.frames) != 1 and not getattr(self.frame, 'loops', None):
            return None
        ordn = self.loop_ordinal(node)
        table = getattr(self.frame, 'loops', None) or (self.ctx.loops if len(self.frames) == 1 else {})
        return table.get(ordn)

    @staticmethod
    def assigned_names(nodes):
        names = set()
        for b in nodes:
            for n in ast.walk(b):
                if isinstance(n, ast.Name) and isinstance(n.ctx, (ast.Store, ast.Del)):
                    names.add(n.id)
        return names

    @staticmethod
    def aug_only_names(nodes):
        aug, plain = set(), set()
        for b in nodes:
            for n in ast.walk(b):
                if isinstance(n, ast.AugAssign) and isinstance(n.target, ast.Name):
                    aug.add(n.target.id)
            for n in ast.walk(b):
                if isinstance(n, ast.Name) and isinstance(n.ctx, (ast.Store, ast.Del)):
                    parent_aug = False
                    for m in ast.walk(b):
                        if isinstance(m, ast.AugAssign) and m.target is n:
                            parent_aug = True
                    if not parent_aug:
                        plain.add(n.id)
        return aug - plain

    @staticmethod
    def touches_heap(nodes):
        for b in nodes:
            for n in ast.walk(b):
                if isinstance(n, ast.Call):
                    return True
                if isinstance(n, (ast.Attribute, ast.Subscript)) and isinstance(n.ctx, (ast.Store, ast.Del)):
                    return True
        return False

    def oblige_inv(self, st, name, f, info):
        """An invariant may be given as one formula or as a dict of named clauses (one obligation per clause)."""
        if isinstance(f, dict):
            for k, g in f.items():
                self.oblige(st, f'{name}.{k}', g, kind='loop', info=info)
        else:
            self.oblige(st, name, f, kind='loop', info=info)

    @staticmethod
    def inv_formula(f):
        return z3.And(*f.values()) if isinstance(f, dict) else f

    def havoc_loop_state(self, node, st: State, spec):
        kinds = {}
        aug_only = self.aug_only_names(node.body + node.orelse)
        aug_heap = False
        for nm in self.assigned_names(node.body + node.orelse):
            old = st.locals.get(nm)
            if nm in aug_only and old is not None and old.kind == 'ref' and old.cls in ('bytearray', 'list'):
                aug_heap = True     # x += y on a mutable container: same object, content changes
                continue
            st.locals[nm] = vany(fresh(Val, nm), path=nm)
            if old is not None and old.kind in ('func', 'class', 'module', 'exccls'):
                st.locals[nm] = old
            elif old is not None and old.kind in ('int', 'real', 'bool', 'str', 'bytes'):
                # scalar kind is kept across iterations; stability is an obligation at the end of the body
                from .vals import SORT_OF_KIND
                st.locals[nm] = V(old.kind, fresh(SORT_OF_KIND[old.kind], nm), path=nm)
                kinds[nm] = old.kind
        st.ghost['c:loopkinds:%d' % id(node)] = tuple(kinds.items())
        for gk, gv in list(st.ghost.items()):
            # z3-valued ghost state is loop-carried unless marked constant ('c:' prefix); 'now' stays monotone
            if isinstance(gv, z3.ExprRef) and not gk.startswith('c:'):
                nv = fresh(gv.sort(), 'g.' + gk)
                if gk == 'now':
                    st.assume(nv >= gv)
                st.ghost[gk] = nv
        if self.ctx.hooks is not None and hasattr(self.ctx.hooks, 'on_loop_havoc'):
            self.ctx.hooks.on_loop_havoc(self, st, node)
        hv = spec.havoc_heap if spec is not None and spec.havoc_heap is not None else None
        if hv is None:
            if aug_heap or self.touches_heap(node.body + node.orelse):
                st.havoc_heap()
        elif hv:
            st.havoc_arrays(hv)
        if self.ctx.hooks is not None and hasattr(self.ctx.hooks, 'on_loop_head'):
            self.ctx.hooks.on_loop_head(self, st, node)      # after the havoc: the state at the head of an arbitrary iteration

    def check_kind_stability(self, node, st: State, name):
        for nm, kind in st.ghost.get('c:loopkinds:%d' % id(node), ()):
            v = st.locals.get(nm)
            if v is None:
                continue
            if v.kind == kind:
                continue
            if v.kind == 'any':
                self.oblige(st, f'{name}.kind_stable.{nm}', TESTER[kind](v.e), kind='loop')
            else:
                self.oblige(st, f'{name}.kind_stable.{nm}', z3.BoolVal(False), kind='loop')

    def exec_while(self, node: ast.While, st: State):
        spec = self.loop_spec(node)
        ordn = self.loop_ordinal(node)
        name = f'loop{ordn}'
        outs = []
        if spec is not None and spec.inv is not None:
            env0 = {'_entry': st, '_phase': 'entry'}
            self.oblige_inv(st, f'{name}.inv_entry', spec.inv(self, st, env0), {'line': node.lineno})
        # arbitrary iteration
        h = st.fork()
        self.havoc_loop_state(node, h, spec)
        h.mark((node.lineno, 'loophead'))
        env = {'_entry': st, '_phase': 'assume'}
        if spec is not None and spec.inv is not None:
            h.assume(self.inv_formula(spec.inv(self, h, env)))
        var0 = spec.variant(self, h, env) if spec is not None and spec.variant is not None else None
        for s, c in self.ev_cond(node.test, h):
            if isinstance(c, Raise):
                outs.append((s, ('exc', c.exc)))
                continue
            # exit branch
            s_exit = s.fork()
            s_exit.assume(z3.simplify(z3.Not(c)))
            if self.feasible(s_exit):
                outs.extend(self.exec_block(node.orelse, s_exit) if node.orelse else [(s_exit, None)])
            # body branch
            s_body = s.fork()
            s_body.assume(z3.simplify(c))
            s_body.sym_alloc = True
            if not self.feasible(s_body):
                continue
            for s2, sig in self.exec_block(node.body, s_body):
                if sig is None or sig[0] == 'cnt':
                    self.check_kind_stability(node, s2, name)
                    if spec is not None and spec.inv is not None:
                        self.oblige_inv(s2, f'{name}.inv_preserved', spec.inv(self, s2, dict(env, _phase='preserve')),
                                        {'line': node.lineno})
                    if var0 is not None:
                        var1 = spec.variant(self, s2, dict(env))
                        self.oblige(s2, f'{name}.variant_decreases', z3.And(var1 < var0, var0 > 0) if False else
                                    z3.And(var0 >= 0, var1 < var0), kind='loop', info={'line': node.lineno})
                    # path ends here (cut point)
                elif sig[0] == 'brk':
                    outs.append((s2, None))
                else:
                    outs.append((s2, sig))
        return outs

    def exec_for(self, node, st: State):
        spec = self.loop_spec(node)
        ordn = self.loop_ordinal(node)
        name = f'loop{ordn}'
        outs = []
        for s, it in self.ev(node.iter, st):
            if isinstance(it, Raise):
                outs.append((s, ('exc', it.exc)))
                continue
            items = models.concrete_items(self, s, it)
            if items is not None and (spec is None or spec.inv is None):
                outs.extend(self.unroll_for(node, s, items))
                continue
            outs.extend(self.cut_for(node, s, it, spec, name))
        return outs

    def unroll_for(self, node, st: State, items):
        cur = [(st, None)]
        done = []
        for item in items:
            nxt = []
            for s, sig in cur:
                for s1, sig1 in self.assign(node.target, item, s):
                    if sig1 is not None:
                        done.append((s1, sig1))
                        continue
                    for s2, sig2 in self.exec_block(node.body, s1):
                        if sig2 is None or sig2[0] == 'cnt':
                            nxt.append((s2, None))
                        elif sig2[0] == 'brk':
                            done.append((s2, ('_broke',)))
                        else:
                            done.append((s2, sig2))
            cur = nxt
        outs = []
        for s, sig in cur:
            outs.extend(self.exec_block(node.orelse, s) if node.orelse else [(s, None)])
        for s, sig in done:
            outs.append((s, None if sig == ('_broke',) else sig))
        return outs

    def cut_for(self, node, st: State, it: V, spec, name):
        """Cut-point treatment of a for loop over a symbolic sequence."""
        outs = []
        seq_info = models.iter_seq(self, st, it)   # (seq term | None, length term | None, elem_fn)
        use_prefix = spec is not None and getattr(spec, 'prefix', False) and seq_info[0] is not None
        if spec is not None and spec.inv is not None:
            env0 = {'_k': z3.IntVal(0), '_seq': seq_info[0], '_n': seq_info[1], '_entry': st, '_phase': 'entry'}
            if use_prefix:
                env0['_prefix'] = z3.Empty(SeqVal)
            self.oblige_inv(st, f'{name}.inv_entry', spec.inv(self, st, env0), {'line': node.lineno})
        h = st.fork()
        self.havoc_loop_state(node, h, spec)
        h.mark((node.lineno, 'loophead'))
        k = fresh(IntS, '_k')
        h.assume(k >= 0)
        n = seq_info[1]
        if n is None:
            n = fresh(IntS, '_n')
        h.assume(n >= 0)
        env = {'_k': k, '_seq': seq_info[0], '_n': n, '_entry': st, '_phase': 'assume'}
        h.ghost['c:k%d' % self.loop_ordinal(node)] = k      # iteration counter of this loop, for invariants of loops nested in its body
        pre = None
        if use_prefix:
            pre = fresh(SeqVal, '_prefix')
            h.assume(z3.Length(pre) == k)
            env['_prefix'] = pre
        if spec is not None and spec.inv is not None:
            h.assume(self.inv_formula(spec.inv(self, h, env)))
        # exit: all items consumed
        s_exit = h.fork()
        s_exit.assume(k == n)
        if pre is not None:
            s_exit.assume(pre == seq_info[0])     # the prefix of length len(seq) is the sequence itself
        if self.feasible(s_exit):
            outs.extend(self.exec_block(node.orelse, s_exit) if node.orelse else [(s_exit, None)])
        s_body = h.fork()
        s_body.assume(k < n)
        s_body.sym_alloc = True
        if self.feasible(s_body):
            item = seq_info[2](s_body, k)
            if pre is not None:
                # the item of this iteration is a member of the iterated sequence (k is in range)
                s_body.assume(z3.Contains(seq_info[0], z3.Unit(seq_info[0][k])))
            for s1, sig1 in self.assign(node.target, item, s_body):
                if sig1 is not None:
                    outs.append((s1, sig1))
                    continue
                for s2, sig in self.exec_block(node.body, s1):
                    if sig is None or sig[0] == 'cnt':
                        self.check_kind_stability(node, s2, name)
                        if spec is not None and spec.inv is not None:
                            env2 = {'_k': k + 1, '_seq': seq_info[0], '_n': n, '_entry': st, '_phase': 'preserve'}
                            if pre is not None:
                                env2['_prefix'] = z3.Concat(pre, z3.Unit(seq_info[0][k]))
                            self.oblige_inv(s2, f'{name}.inv_preserved', spec.inv(self, s2, env2), {'line': node.lineno})
                    elif sig[0] == 'brk':
                        outs.append((s2, None))
                    else:
                        outs.append((s2, sig))
        return outs

    # ------------------------------------------------------------------ expressions
    def ev_many(self, nodes, st: State):
        outs = [(st, [])]
        for n in nodes:
            nxt = []
            for s, vals in outs:
                if isinstance(vals, Raise):
                    nxt.append((s, vals))
                    continue
                if isinstance(n, ast.Starred):
                    for s2, v in self.ev(n.value, s):
                        if isinstance(v, Raise):
                            nxt.append((s2, v))
                            continue
                        items = models.concrete_items(self, s2, v)
                        if items is None:
                            raise Unsupported('starred argument of symbolic length')
                        nxt.append((s2, vals + list(items)))
                    continue
                for s2, v in self.ev(n, s):
                    nxt.append((s2, v if isinstance(v, Raise) else vals + [v]))
            outs = nxt
        return outs

    def ev_index(self, node, st: State):
        if isinstance(node, ast.Slice):
            parts = [node.lower, node.upper, node.step]
            outs = [(st, [])]
            for p in parts:
                nxt = []
                for s, vals in outs:
                    if isinstance(vals, Raise):
                        nxt.append((s, vals))
                    elif p is None:
                        nxt.append((s, vals + [None]))
                    else:
                        for s2, v in self.ev(p, s):
                            nxt.append((s2, v if isinstance(v, Raise) else vals + [v]))
                outs = nxt
            return [(s, v if isinstance(v, Raise) else V('pyconst', py=('slice', *v))) for s, v in outs]
        return self.ev(node, st)

    def ev(self, node, st: State):
        try:
            return self._ev(node, st)
        except Unsupported as ex:
            if not self.ctx.opaque_ok or self.contains_tracked_expr(node):
                raise
            self.ctx.unsupported_notes.append(f'line {getattr(node, "lineno", "?")}: {ex} -> opaque value')
            return self.opaque_expr(node, st)

    def contains_tracked_expr(self, node) -> bool:
        hooks = self.ctx.hooks
        tracked = set(getattr(hooks, 'tracked_names', ()) if hooks else ())
        for k in self.ctx.callees:
            tracked.add(k.split('.')[-1].split(':')[-1])
        for n in ast.walk(node):
            if isinstance(n, ast.Attribute) and n.attr in tracked:
                return True
            if isinstance(n, ast.Name) and n.id in tracked:
                return True
        return False

    PURE_BUILTINS = {'max', 'min', 'len', 'str', 'int', 'float', 'abs', 'round', 'sorted', 'isinstance', 'bool',
                     'repr', 'tuple', 'list', 'dict', 'set', 'sum', 'any', 'all', 'enumerate', 'zip', 'range', 'id',
                     'hash', 'type', 'getattr', 'hasattr', 'callable', 'format', 'bytes'}

    def opaque_expr(self, node, st: State):
        has_call = any(isinstance(n, ast.Call) and not (isinstance(n.func, ast.Name) and n.func.id in self.PURE_BUILTINS
                                                         and n.func.id not in st.locals)
                       for n in ast.walk(node))
        outs = []
        if has_call:
            self.escape_names(node, st)
            st.havoc_heap()
            outs.append((st.fork(), Raise(self.mk_exc('*', node))))
        outs.append((st, vany(fresh(Val, 'opq'))))
        return outs

    def escape_names(self, node, st: State):
        for n in ast.walk(node):
            if isinstance(n, ast.Name) and n.id in st.locals:
                st.escape(st.locals[n.id])

    def _ev(self, node, st: State):
        t = type(node)
        if t is ast.Constant:
            return [(st, const(node.value))]
        if t is ast.Name:
            return [(st, self.lookup_name(node.id, st))]
        if t is ast.Attribute:
            outs = []
            for s, o in self.ev(node.value, st):
                if isinstance(o, Raise):
                    outs.append((s, o))
                else:
                    outs.extend(self.load_attr(s, o, node.attr, node))
            return outs
        if t is ast.Subscript:
            outs = []
            for s, o in self.ev(node.value, st):
                if isinstance(o, Raise):
                    outs.append((s, o))
                    continue
                for s2, i in self.ev_index(node.slice, s):
                    if isinstance(i, Raise):
                        outs.append((s2, i))
                    else:
                        d = self.dunder(s2, o, '__getitem__')
                        if d is not None:
                            outs.extend(self.call(s2, d, [i], {}, node))
                        else:
                            outs.extend(models.getitem(self, s2, o, i, node))
            return outs
        if t is ast.Call:
            return self.ev_call(node, st)
        if t is ast.BinOp:
            outs = []
            for s, vals in self.ev_many([node.left, node.right], st):
                if isinstance(vals, Raise):
                    outs.append((s, vals))
                else:
                    outs.extend(models.binop(self, s, node.op, vals[0], vals[1], node))
            return outs
        if t is ast.UnaryOp:
            if isinstance(node.op, ast.Not):
                return [(s, c if isinstance(c, Raise) else vbool(z3.simplify(z3.Not(c))))
                        for s, c in self.ev_cond(node.operand, st)]
            outs = []
            for s, v in self.ev(node.operand, st):
                if isinstance(v, Raise):
                    outs.append((s, v))
                    continue
                v = self.concrete_kind(s, v, ('int', 'real'))
                if v.kind not in ('int', 'real', 'bool'):
                    raise Unsupported(f'unary op on {v.kind}')
                e = z3.If(v.e, 1, 0) if v.kind == 'bool' else v.e
                kind = 'int' if v.kind == 'bool' else v.kind
                if isinstance(node.op, ast.USub):
                    outs.append((s, V(kind, -e)))
                elif isinstance(node.op, ast.UAdd):
                    outs.append((s, V(kind, e)))
                else:
                    raise Unsupported('unary ~')
            return outs
        if t is ast.BoolOp:
            return self.ev_boolop(node, st)
        if t is ast.Compare:
            return [(s, c if isinstance(c, Raise) else vbool(c)) for s, c in self.ev_cond(node, st)]
        if t is ast.IfExp:
            outs = []
            for s, c in self.ev_cond(node.test, st):
                if isinstance(c, Raise):
                    outs.append((s, c))
                    continue
                for cond, branch in ((c, node.body), (z3.Not(c), node.orelse)):
                    cs = z3.simplify(cond)
                    if z3.is_false(cs):
                        continue
                    s2 = s.fork()
                    s2.assume(cs)
                    if not z3.is_true(cs) and not self.feasible(s2):
                        continue
                    outs.extend(self.ev(branch, s2))
            return outs
        if t is ast.Tuple:
            return [(s, v if isinstance(v, Raise) else vtuple(v)) for s, v in self.ev_many(node.elts, st)]
        if t is ast.List:
            return [(s, v if isinstance(v, Raise) else s.new_list(v)) for s, v in self.ev_many(node.elts, st)]
        if t is ast.Set:
            outs = []
            for s, v in self.ev_many(node.elts, st):
                if isinstance(v, Raise):
                    outs.append((s, v))
                    continue
                sv = s.new_set()
                for item in v:
                    models.set_add(self, s, sv, item)
                outs.append((s, sv))
            return outs
        if t is ast.Dict:
            outs = []
            if any(k is None for k in node.keys):
                raise Unsupported('dict unpacking')
            for s, ks in self.ev_many(node.keys, st):
                if isinstance(ks, Raise):
                    outs.append((s, ks))
                    continue
                for s2, vs in self.ev_many(node.values, s):
                    if isinstance(vs, Raise):
                        outs.append((s2, vs))
                        continue
                    d = s2.new_dict()
                    for k, v in zip(ks, vs):
                        models.dict_set(self, s2, d, k, v)
                    outs.append((s2, d))
            return outs
        if t is ast.JoinedStr:
            return models.joined_str(self, st, node)
        if t is ast.Lambda:
            return [(st, V('func', py=FuncVal('lambda', node=node, closure=st.locals, mod=self.frame.mod,
                                              frame=self.frame)))]
        if t in (ast.ListComp, ast.GeneratorExp, ast.SetComp):
            return models.comprehension(self, st, node)
        if t is ast.DictComp:
            return models.dict_comprehension(self, st, node)
        if t is ast.Await:
            return self.ev(node.value, st)
        if t is ast.Yield:
            # @contextmanager generator: the `with` body of the caller runs here - an abstract callee that may change
            # the heap arbitrarily and may raise anything (the exception is thrown into the generator at the yield)
            if not getattr(self.ctx, 'allow_yield', False):
                raise Unsupported('yield')
            outs = []
            vouts = self.ev(node.value, st) if node.value is not None else [(st, NONE)]
            for s, v in vouts:
                if isinstance(v, Raise):
                    outs.append((s, v))
                    continue
                hooks = self.ctx.hooks
                if hooks is not None and hasattr(hooks, 'on_yield'):
                    r = hooks.on_yield(self, s, v, node)
                    if r is not None:
                        outs.extend(r)
                        continue
                s.havoc_heap()
                outs.append((s.fork(), Raise(self.mk_exc('*', 'with-body'))))
                outs.append((s, NONE))
            return outs
        if t is ast.Starred:
            raise Unsupported('starred expression')
        if t is ast.NamedExpr:
            outs = []
            for s, v in self.ev(node.value, st):
                if not isinstance(v, Raise):
                    s.locals[node.target.id] = v
                outs.append((s, v))
            return outs
        raise Unsupported(f'expression {t.__name__}')

    def ev_boolop(self, node: ast.BoolOp, st: State):
        """Value semantics of and/or (returns an operand)."""
        is_and = isinstance(node.op, ast.And)
        outs = []
        cur = [(st, None)]
        for idx, operand in enumerate(node.values):
            last = idx == len(node.values) - 1
            nxt = []
            for s, _ in cur:
                for s2, v in self.ev(operand, s):
                    if isinstance(v, Raise):
                        outs.append((s2, v))
                        continue
                    if last:
                        outs.append((s2, v))
                        continue
                    tv = z3.simplify(truthy(v, s2))
                    stop_cond = z3.Not(tv) if is_and else tv
                    stop_cond = z3.simplify(stop_cond)
                    if not z3.is_false(stop_cond):
                        s_stop = s2.fork()
                        s_stop.assume(stop_cond)
                        if z3.is_true(stop_cond) or self.feasible(s_stop):
                            outs.append((s_stop, v))
                    go = z3.simplify(z3.Not(stop_cond))
                    if not z3.is_false(go):
                        s_go = s2.fork()
                        s_go.assume(go)
                        if z3.is_true(go) or self.feasible(s_go):
                            nxt.append((s_go, None))
            cur = nxt
        return outs

    # -- conditions (truthiness only)
    def ev_cond(self, node, st: State):
        try:
            return self._ev_cond(node, st)
        except Unsupported as ex:
            if not self.ctx.opaque_ok or self.contains_tracked_expr(node):
                raise
            self.ctx.unsupported_notes.append(f'line {getattr(node, "lineno", "?")}: {ex} -> opaque condition')
            outs = []
            for s, v in self.opaque_expr(node, st):
                outs.append((s, v if isinstance(v, Raise) else fresh(BoolS, 'cond')))
            return outs

    def _ev_cond(self, node, st: State):
        t = type(node)
        if t is ast.BoolOp:
            is_and = isinstance(node.op, ast.And)
            # short-circuit with forking only when a later operand can have effects
            cur = [(st, z3.BoolVal(is_and))]
            for operand in node.values:
                nxt = []
                pure = self.is_pure(operand)
                for s, acc in cur:
                    if isinstance(acc, Raise):
                        nxt.append((s, acc))
                        continue
                    acc_s = z3.simplify(acc)
                    if (is_and and z3.is_false(acc_s)) or (not is_and and z3.is_true(acc_s)):
                        nxt.append((s, acc))
                        continue
                    if pure and ((is_and and z3.is_true(acc_s)) or (not is_and and z3.is_false(acc_s))):
                        for s2, c in self.ev_cond(operand, s):
                            nxt.append((s2, c))
                        continue
                    # evaluate operand only under the condition that we get here
                    s_go = s.fork()
                    s_go.assume(acc_s if is_and else z3.Not(acc_s))
                    if not self.feasible(s_go):
                        nxt.append((s, acc))
                        continue
                    # short-circuit alternative
                    s_stop = s.fork()
                    s_stop.assume(z3.Not(acc_s) if is_and else acc_s)
                    if self.feasible(s_stop):
                        nxt.append((s_stop, z3.BoolVal(not is_and)))
                    for s2, c in self.ev_cond(operand, s_go):
                        nxt.append((s2, c))
                cur = nxt
            return cur
        if t is ast.UnaryOp and isinstance(node.op, ast.Not):
            return [(s, c if isinstance(c, Raise) else z3.Not(c)) for s, c in self.ev_cond(node.operand, st)]
        if t is ast.Compare:
            outs = []
            for s, vals in self.ev_many([node.left] + list(node.comparators), st):
                if isinstance(vals, Raise):
                    outs.append((s, vals))
                    continue
                # pairwise conjunction (operands are evaluated once; comparisons of modelled kinds cannot raise,
                # except ordering of incompatible kinds)
                res = [(s, z3.BoolVal(True))]
                for op, a, b in zip(node.ops, vals, vals[1:]):
                    nxt = []
                    for s2, acc in res:
                        if isinstance(acc, Raise):
                            nxt.append((s2, acc))
                            continue
                        for s3, c in models.compare(self, s2, op, a, b, node):
                            nxt.append((s3, c if isinstance(c, Raise) else z3.And(acc, c)))
                    res = nxt
                outs.extend(res)
            return outs
        outs = []
        for s, v in self.ev(node, st):
            if isinstance(v, Raise):
                outs.append((s, v))
            else:
                outs.append((s, truthy(v, s)))
        return outs

    def is_pure(self, node) -> bool:
        for n in ast.walk(node):
            if isinstance(n, (ast.Call, ast.Await, ast.NamedExpr, ast.ListComp, ast.GeneratorExp, ast.SetComp,
                              ast.DictComp, ast.Subscript)):
                return False
            if isinstance(n, ast.Attribute):
                # attribute access may be a property
                return False
        return True

    # ------------------------------------------------------------------ attributes
    def static_class(self, v: V):
        return v.cls if isinstance(v.cls, tuple) else None

    def load_attr(self, st: State, o: V, attr: str, node):
        k = o.kind
        if k == 'module':
            mod = self.repo.module(o.py)
            if mod is not None:
                try:
                    return [(st, self.module_attr(mod, attr, st))]
                except Unsupported:
                    if self.repo.module(o.py + '.' + attr) is not None:
                        return [(st, V('module', py=o.py + '.' + attr))]
                    raise
            if self.repo.module(o.py + '.' + attr) is not None:
                return [(st, V('module', py=o.py + '.' + attr))]
            return [(st, self.external_name(o.py, attr))]
        if k == 'class':
            return self.class_attr(st, o, attr, None, node)
        if k == 'exccls':
            return [(st, V('func', py=FuncVal('ext', name=f'{o.py}.{attr}')))]
        if k == 'func':
            if o.py.t == 'ext':
                return [(st, V('func', py=FuncVal('ext', name=f'{o.py.name}.{attr}')))]
            return [(st, vany(fresh(Val, attr)))]
        if k == 'pyconst' and isinstance(o.py, Exc):
            if attr == 'args':
                return [(st, vtuple(o.py.args))]
            if attr in getattr(self.ctx, 'exc_attr_nonnull', ()):
                self.ctx.assumptions.add(f'exception attribute .{attr} is never None (constructor invariant)')
                return [(st, vref(fresh(IntS, attr)))]
            return [(st, vany(fresh(Val, attr)))]
        if k == 'any':
            if o.maybe_none:
                nonef = TESTER['none'](o.e)
                outs = []
                s_none = st.fork()
                s_none.assume(nonef)
                if self.feasible(s_none):
                    outs.append((s_none, Raise(self.mk_exc('AttributeError', node))))
                st.assume(z3.Not(nonef))
                if not self.feasible(st):
                    return outs
                o2 = V('any', o.e, path=o.path, cls=o.cls)
                return outs + self.load_attr(st, o2, attr, node)
            o = self.concrete_kind(st, o, ('ref', 'str', 'none'))
            k = o.kind
            if k == 'any':
                # assumption: well-typedness (recorded) -> treat as object reference
                self.ctx.assumptions.add('well-typedness: attribute access on values of statically unknown type '
                                         'is a field read of an object (no AttributeError)')
                o = V('ref', Val.oid(o.e), path=o.path, cls=o.cls)
                k = 'ref'
        if k == 'none':
            return [(st, Raise(self.mk_exc('AttributeError', node)))]
        if k in ('str', 'bytes', 'int', 'real', 'bool', 'tuple'):
            return [(st, V('func', py=FuncVal('method', recv=o, name=attr)))]
        if k == 'ref':
            hooks = self.ctx.hooks
            if hooks is not None and hasattr(hooks, 'on_attr_read'):
                r = hooks.on_attr_read(self, st, o, attr, node)
                if r is not None:
                    return r
            sc = self.static_class(o)
            if sc is not None:
                return self.class_attr(st, V('class', py=sc), attr, o, node)
            if o.cls in ('list', 'dict', 'set', 'tuple', 'deque'):
                return [(st, V('func', py=FuncVal('method', recv=o, name=attr)))]
            # unknown class: method call if used as callee, else field read. Decide by callee table / models:
            path = f'{o.path}.{attr}' if o.path else None
            if self.is_method_name(o, attr, path):
                return [(st, V('func', py=FuncVal('method', recv=o, name=attr, path=path)))]
            return [(st, st.read_field(o, attr))]
        raise Unsupported(f'attribute {attr} of {k}')

    def dunder(self, st: State, o: V, name: str):
        """Bound method V if the (static) class of `o` defines `name` in the repo sources."""
        if o.kind != 'ref' or not isinstance(o.cls, tuple):
            return None
        found = self.repo.find_method(o.cls[0], o.cls[1], name)
        if found is None:
            return None
        mod, cdef, fn = found
        return V('func', py=FuncVal('repo', mod=mod, clsdef=cdef, fn=fn, self_v=o, qual=f'{mod.name}:{cdef.name}.{name}'))

    def is_method_name(self, o: V, attr: str, path) -> bool:
        par = getattr(self, '_call_func_node', None)
        return par is not None and par[1] == attr

    def class_attr(self, st: State, clsv: V, attr: str, inst: V | None, node):
        modname, clsname = clsv.py
        found = self.repo.find_method(modname, clsname, attr)
        if found is not None:
            mod, cdef, fn = found
            decs = decorators(fn)
            qual = f'{mod.name}:{cdef.name}.{attr}'
            if 'property' in decs or any(d.endswith('.getter') for d in decs):
                if inst is None:
                    return [(st, vany(fresh(Val, attr)))]
                fv = FuncVal('repo', mod=mod, clsdef=cdef, fn=fn, self_v=inst, qual=qual, is_property=True)
                return self.call(st, V('func', py=fv), [], {}, node)
            if 'staticmethod' in decs:
                return [(st, V('func', py=FuncVal('repo', mod=mod, clsdef=cdef, fn=fn, self_v=None, qual=qual)))]
            if 'classmethod' in decs:
                cv = clsv if inst is None or self.static_class(inst) is None else V('class', py=self.static_class(inst))
                return [(st, V('func', py=FuncVal('repo', mod=mod, clsdef=cdef, fn=fn, self_v=cv, qual=qual)))]
            if inst is None:
                return [(st, V('func', py=FuncVal('repo', mod=mod, clsdef=cdef, fn=fn, self_v=None, qual=qual,
                                                  unbound=True)))]
            return [(st, V('func', py=FuncVal('repo', mod=mod, clsdef=cdef, fn=fn, self_v=inst, qual=qual)))]
        # instance field?
        if inst is not None and self.is_instance_field(modname, clsname, attr):
            return [(st, st.read_field(inst, attr))]
        ca = self.repo.class_attr(modname, clsname, attr)
        if ca is not None:
            mod, cexpr = ca
            return [(st, self.eval_constant(mod, cexpr, f'{mod.name}:{clsname}.{attr}', f'{clsname}.{attr}', st))]
        if attr == '__class__' and inst is not None:
            return [(st, clsv)]
        if attr == '__name__':
            return [(st, vstr(clsname))]
        if inst is not None:
            nested = [n for _, c in self.repo.mro(modname, clsname) for n in c.body
                      if isinstance(n, ast.ClassDef) and n.name == attr]
            if nested:
                return [(st, V('func', py=FuncVal('ext', name=f'{clsname}.{attr}')))]
            return [(st, st.read_field(inst, attr))]
        nested = [n for _, c in self.repo.mro(modname, clsname) for n in c.body
                  if isinstance(n, ast.ClassDef) and n.name == attr]
        if nested:
            return [(st, V('func', py=FuncVal('ext', name=f'{clsname}.{attr}')))]
        raise Unsupported(f'class attribute {clsname}.{attr}')

    _inst_fields_cache: dict = {}

    def is_instance_field(self, modname, clsname, attr) -> bool:
        key = (modname, clsname)
        if key not in self._inst_fields_cache:
            names = set()
            for mod, cdef in self.repo.mro(modname, clsname):
                for n in ast.walk(cdef):
                    if isinstance(n, ast.Attribute) and isinstance(n.ctx, ast.Store) \
                            and isinstance(n.value, ast.Name) and n.value.id == 'self':
                        names.add(n.attr)
                    # dataclass style annotated fields
                for n in cdef.body:
                    if isinstance(n, ast.AnnAssign) and isinstance(n.target, ast.Name) and n.value is None:
                        names.add(n.target.id)
                    if isinstance(n, ast.AnnAssign) and isinstance(n.target, ast.Name) and n.value is not None \
                            and any('dataclass' in ast.unparse(d) for d in cdef.decorator_list):
                        names.add(n.target.id)
            self._inst_fields_cache[key] = names
        return attr in self._inst_fields_cache[key]

    def store_attr(self, st: State, o: V, attr: str, val: V, node):
        if o.kind == 'any':
            o = self.concrete_kind(st, o, ('ref',))
            if o.kind == 'any':
                o = V('ref', Val.oid(o.e), path=o.path, cls=o.cls)
        if o.kind == 'class':
            raise Unsupported('store to class attribute')
        if o.kind != 'ref':
            if o.kind == 'none':
                return [(st, ('exc', self.mk_exc('AttributeError', node)))]
            raise Unsupported(f'attribute store on {o.kind}')
        hooks = self.ctx.hooks
        if hooks is not None and hasattr(hooks, 'on_attr_write'):
            r = hooks.on_attr_write(self, st, o, attr, val, node)
            if r is not None:
                return r
        sc = self.static_class(o)
        if sc is not None:
            found = self.repo.find_method(sc[0], sc[1], attr)
            if found is not None and any(d.endswith('.setter') or d == 'property' for d in decorators(found[2])):
                # property setter: find the setter def
                for mod, cdef in self.repo.mro(*sc):
                    for n in cdef.body:
                        if isinstance(n, ast.FunctionDef) and n.name == attr and any(
                                d == f'{attr}.setter' for d in decorators(n)):
                            fv = FuncVal('repo', mod=mod, clsdef=cdef, fn=n, self_v=o,
                                         qual=f'{mod.name}:{cdef.name}.{attr}.setter')
                            return [(s, ('exc', r.exc) if isinstance(r, Raise) else None)
                                    for s, r in self.call(st, V('func', py=fv), [val], {}, node)]
                raise Unsupported(f'assignment to read-only property {attr}')
        st.write_field(o, attr, val)
        return [(st, None)]

    # ------------------------------------------------------------------ calls
    def quantified_anyall(self, node: ast.Call, st: State):
        """any()/all() over a generator whose iterable has symbolic length -> quantified formula."""
        is_all = node.func.id == 'all'
        gen_node = node.args[0]
        gen = gen_node.generators[0]
        it_node = gen.iter
        enum = isinstance(it_node, ast.Call) and isinstance(it_node.func, ast.Name) and it_node.func.id == 'enumerate' \
            and len(it_node.args) == 1
        src = it_node.args[0] if enum else it_node
        outs = []
        for s, it in self.ev(src, st):
            if isinstance(it, Raise):
                outs.append((s, it))
                continue
            items = models.concrete_items(self, s, it)
            if items is not None:
                return None
            seq, n, elem = models.iter_seq(self, s, it)
            if n is None:
                raise Unsupported('any/all over unknown iterable')
            i = fresh(IntS, 'qi')
            body_st = s.fork()
            body_st.assume(z3.And(i >= 0, i < n))
            item = elem(body_st, i)
            target_val = vtuple([vint(i), item]) if enum else item
            saved = dict(s.locals)
            base_len = len(body_st.pc)
            disj = []
            for s1, sig in self.assign(gen.target, target_val, body_st):
                if sig is not None:
                    raise Unsupported('exception in generator target')
                conds = [(s1, z3.BoolVal(True))]
                for cnode in list(gen.ifs):
                    nxt = []
                    for s2, acc in conds:
                        for s3, c in self.ev_cond(cnode, s2):
                            if isinstance(c, Raise):
                                raise Unsupported('generator condition may raise')
                            nxt.append((s3, z3.And(acc, c)))
                    conds = nxt
                for s2, guard in conds:
                    for s3, c in self.ev_cond(gen_node.elt, s2):
                        if isinstance(c, Raise):
                            if self.feasible(s3):
                                raise Unsupported('generator element may raise')
                            continue
                        extra = z3.And(*s3.pc[base_len:]) if len(s3.pc) > base_len else z3.BoolVal(True)
                        if is_all:
                            disj.append(z3.And(extra, z3.Implies(guard, c)))
                        else:
                            disj.append(z3.And(extra, guard, c))
            s.locals = saved
            body = z3.Or(*disj) if disj else z3.BoolVal(is_all)
            rng = z3.And(i >= 0, i < n)
            f = z3.ForAll([i], z3.Implies(rng, body)) if is_all else z3.Exists([i], z3.And(rng, body))
            outs.append((s, vbool(f)))
        return outs

    def ev_call(self, node: ast.Call, st: State):
        if is_logging_call(node):
            self.ctx.dropped.append(f'line {node.lineno}: logging call')
            return [(st, NONE)]
        if isinstance(node.func, ast.Name) and node.func.id in ('any', 'all') and len(node.args) == 1 \
                and isinstance(node.args[0], ast.GeneratorExp) and len(node.args[0].generators) == 1 \
                and node.func.id not in st.locals:
            r = self.quantified_anyall(node, st)
            if r is not None:
                return r
        # super().meth(...)
        f = node.func
        outs = []
        saved = getattr(self, '_call_func_node', None)
        if isinstance(f, ast.Attribute):
            self._call_func_node = (f, f.attr)
        else:
            self._call_func_node = None
        try:
            if isinstance(f, ast.Attribute) and isinstance(f.value, ast.Call) and isinstance(f.value.func, ast.Name) \
                    and f.value.func.id == 'super':
                fouts = [(st, self.super_method(st, f.attr))]
            else:
                if isinstance(f, ast.Attribute):
                    # evaluate receiver without the "callee" marker, then the attribute with it
                    self._call_func_node = None
                    recv_outs = self.ev(f.value, st)
                    self._call_func_node = (f, f.attr)
                    fouts = []
                    for s, o in recv_outs:
                        if isinstance(o, Raise):
                            fouts.append((s, o))
                        else:
                            fouts.extend(self.load_attr(s, o, f.attr, f))
                else:
                    fouts = self.ev(f, st)
        finally:
            self._call_func_node = saved
        for s, fv in fouts:
            if isinstance(fv, Raise):
                outs.append((s, fv))
                continue
            for s2, args in self.ev_many(node.args, s):
                if isinstance(args, Raise):
                    outs.append((s2, args))
                    continue
                kw_nodes = [k for k in node.keywords]
                for s3, kwvals in self.ev_many([k.value for k in kw_nodes], s2):
                    if isinstance(kwvals, Raise):
                        outs.append((s3, kwvals))
                        continue
                    kwargs = {}
                    for k, v in zip(kw_nodes, kwvals):
                        if k.arg is not None:
                            kwargs[k.arg] = v
                            continue
                        # f(**d): only for a dict built in this execution from literal string keys
                        d = self.concrete_kind(s3, v, ('ref',))
                        oid = z3.simplify(d.e) if d.kind == 'ref' else None
                        keys = s3.ghost.get('c:dictkeys:%d' % oid.as_long()) if oid is not None and z3.is_int_value(oid) else None
                        if keys is None:
                            raise Unsupported('**kwargs in call (keys of the dict are not literal)')
                        dvals = z3.Select(s3.get_arr('DV'), d.e)
                        for key in keys:
                            kwargs[key] = vany(z3.simplify(z3.Select(dvals, Val.str(z3.StringVal(key)))), maybe_none=True)
                    outs.extend(self.call(s3, fv, args, kwargs, node))
        return outs

    def super_method(self, st: State, meth: str) -> V:
        fr = self.frame
        if fr.clsdef is None:
            raise Unsupported('super() outside class')
        self_v = st.locals.get('self') or st.locals.get('cls')
        mro = self.repo.mro(fr.mod.name, fr.clsdef.name)
        # dynamic class of self may be a subclass; use its MRO when statically known
        sc = self.static_class(self_v) if self_v is not None and self_v.kind == 'ref' else None
        if sc is not None:
            full = self.repo.mro(*sc)
            idx = [i for i, (m, c) in enumerate(full) if c is fr.clsdef]
            if idx:
                mro = full[idx[0]:]
        for mod, cdef in mro[1:]:
            for n in cdef.body:
                if isinstance(n, (ast.FunctionDef, ast.AsyncFunctionDef)) and n.name == meth:
                    return V('func', py=FuncVal('repo', mod=mod, clsdef=cdef, fn=n, self_v=self_v,
                                                qual=f'{mod.name}:{cdef.name}.{meth}'))
        # builtin base (dict, object, Exception ...)
        base = None
        for mod, cdef in mro:
            for b in cdef.bases:
                bn = ast.unparse(b)
                if bn in ('dict', 'list', 'set', 'object', 'Exception', 'defaultdict', 'OrderedDict'):
                    base = bn
        if base in ('dict', 'defaultdict', 'OrderedDict') and self_v is not None:
            recv = V('ref', self_v.e, cls='dict', path=self_v.path)
            return V('func', py=FuncVal('method', recv=recv, name=meth))
        if meth == '__init__':
            return V('func', py=FuncVal('builtin', name='_noop'))
        raise Unsupported(f'super().{meth}')

    def callee_keys(self, fv: FuncVal):
        keys = []
        if fv.t == 'repo':
            keys.append(fv.qual)
            keys.append('*.' + fv.fn.name)
        elif fv.t == 'method':
            p = getattr(fv, 'path', None) or (f'{fv.recv.path}.{fv.name}' if fv.recv.path else None)
            if p:
                keys.append(p)
            keys.append('*.' + fv.name)
        elif fv.t == 'ext':
            keys.append(fv.name)
            keys.append('*.' + fv.name.split('.')[-1])
        elif fv.t == 'builtin':
            keys.append(fv.name)
        return keys

    def call(self, st: State, f: V, args, kwargs, node):
        if f.kind == 'class':
            return self.instantiate(st, f, args, kwargs, node)
        if f.kind == 'exccls':
            return [(st, V('pyconst', py=self.mk_exc(f.py, node, args=tuple(args))))]
        if f.kind != 'func':
            summ = self.ctx.callees.get(f.path) if f.path else None
            if summ is None and f.path:
                summ = self.ctx.callees.get('*.' + f.path.split('.')[-1])
            if summ is not None:
                return summ.apply(self, st, None, args, kwargs, node)
            hooks = self.ctx.hooks
            if hooks is not None and hasattr(hooks, 'on_call_value'):
                r = hooks.on_call_value(self, st, f, args, kwargs, node)
                if r is not None:
                    return r
            return self.havoc_call(st, f'<value {f.path or f.kind}>', node, args=list(args) + list(kwargs.values()))
        fv: FuncVal = f.py
        hooks = self.ctx.hooks
        keys = self.callee_keys(fv)
        if hooks is not None and hasattr(hooks, 'on_call'):
            r = hooks.on_call(self, st, fv, keys, args, kwargs, node)
            if r is not None:
                return r
        for k in keys:
            summ = self.ctx.callees.get(k)
            if summ is not None:
                if getattr(summ, 'trusted', False):
                    self.ctx.trusted.add(getattr(summ, 'name', k))
                return summ.apply(self, st, fv, args, kwargs, node)
        if fv.t == 'builtin':
            return models.call_builtin(self, st, fv.name, args, kwargs, node)
        if fv.t == 'method':
            r = models.call_method(self, st, fv.recv, fv.name, args, kwargs, node)
            if r is not None:
                return r
            return self.havoc_call(st, keys[0] if keys else fv.name, node, args=[fv.recv] + list(args) + list(kwargs.values()))
        if fv.t == 'lambda':
            return self.call_lambda(st, fv, args, kwargs, node)
        if fv.t == 'ext':
            r = models.call_external(self, st, fv.name, args, kwargs, node)
            if r is not None:
                return r
            return self.havoc_call(st, fv.name, node, args=list(args) + list(kwargs.values()))
        if fv.t == 'repo':
            if fv.qual in self.ctx.inline or '*' in self.ctx.inline or getattr(fv, 'closure', None) is not None:
                return self.inline_call(st, fv, args, kwargs, node)
            return self.havoc_call(st, fv.qual, node, args=([fv.self_v] if fv.self_v is not None else []) + list(args) + list(kwargs.values()))
        raise Unsupported(f'call of {fv.t}')

    def havoc_call(self, st: State, what: str, node, may_raise=True, args=()):
        self.ctx.havocked_calls.add(what)
        for a in args:
            st.escape(a)
        outs = []
        st.havoc_heap()
        if may_raise:
            outs.append((st.fork(), Raise(self.mk_exc('*', f'{what} line {getattr(node, "lineno", "?")}'))))
        res = vany(fresh(Val, 'ret_' + what.split('.')[-1].split(':')[-1]))
        res.maybe_none = False
        outs.append((st, res))
        return outs

    def bind_args(self, fn, self_v, args, kwargs, st: State, mod, node, unbound=False):
        a = fn.args
        params = [p.arg for p in a.posonlyargs + a.args]
        defaults = a.defaults
        local = {}
        pos = list(args)
        if self_v is not None:
            pos = [self_v] + pos
        if a.vararg is None and len(pos) > len(params):
            raise Unsupported(f'too many positional arguments for {fn.name}')
        for p, v in zip(params, pos):
            local[p] = v if v.path is not None or v.kind not in ('any', 'ref') else v.with_path(p)
        if a.vararg is not None:
            local[a.vararg.arg] = vtuple(pos[len(params):])
        first_default = len(params) - len(defaults)
        pending_defaults = []
        for i, p in enumerate(params):
            if p in local:
                continue
            if p in kwargs:
                local[p] = kwargs.pop(p) if False else kwargs[p]
                continue
            if i >= first_default:
                pending_defaults.append((p, defaults[i - first_default]))
            else:
                raise Unsupported(f'missing argument {p} for {fn.name}')
        for p, d in zip(a.kwonlyargs, a.kw_defaults):
            if p.arg in kwargs:
                local[p.arg] = kwargs[p.arg]
            elif d is not None:
                pending_defaults.append((p.arg, d))
            else:
                raise Unsupported(f'missing kw-only argument {p.arg}')
        known = set(params) | {p.arg for p in a.kwonlyargs}
        extra = {k: v for k, v in kwargs.items() if k not in known}
        if extra:
            if a.kwarg is None:
                raise Unsupported(f'unexpected keyword {list(extra)} for {fn.name}')
            raise Unsupported('**kwargs parameter')
        elif a.kwarg is not None:
            local[a.kwarg.arg] = st.new_dict()
        for p, d in pending_defaults:
            saved = self.frames
            self.frames = saved + [Frame(mod, None, None, mod.name if mod else '')]
            try:
                o = self.ev(d, st)
            finally:
                self.frames = saved
            if len(o) != 1 or isinstance(o[0][1], Raise):
                raise Unsupported('default argument with effects')
            local[p] = o[0][1]
        return local

    def inline_call(self, st: State, fv: FuncVal, args, kwargs, node, loops=None):
        if len(self.frames) > 12:
            raise Unsupported('inline depth')
        fn = fv.fn
        decs = decorators(fn)
        if any(d not in ('property', 'staticmethod', 'classmethod', 'contextmanager',
                         'contextlib.contextmanager') and not d.endswith('.setter') and not d.endswith('.getter')
               for d in decs):
            if not all(d.startswith('dataclass') for d in decs):
                raise Unsupported(f'decorator {decs} on {fn.name}')
        if any(isinstance(n, (ast.Yield, ast.YieldFrom)) for n in ast.walk(fn)) \
                and not getattr(self.ctx, 'allow_yield', False):
            raise Unsupported(f'generator function {fn.name}')
        self.ctx.inlined.add(fv.qual)
        local = self.bind_args(fn, fv.self_v, args, dict(kwargs), st, fv.mod, node)
        closure = getattr(fv, 'closure', None)
        caller_locals = st.locals
        new_locals = dict(closure) if closure else {}
        new_locals.update(local)
        st.locals = new_locals
        fr = Frame(fv.mod, fv.clsdef, fn, fv.qual)
        if loops:
            fr.loops = loops
        self.frames.append(fr)
        try:
            body_outs = self.exec_block(fn.body, st)
        finally:
            self.frames.pop()
        outs = []
        for s, sig in body_outs:
            s.locals = caller_locals if s is st else dict(caller_locals)
            if sig is None:
                outs.append((s, NONE))
            elif sig[0] == 'ret':
                outs.append((s, sig[1]))
            elif sig[0] == 'exc':
                outs.append((s, Raise(sig[1])))
            else:
                raise Unsupported('break/continue escaping function')
        return outs

    def call_lambda(self, st: State, fv: FuncVal, args, kwargs, node):
        lam = fv.node
        params = [p.arg for p in lam.args.args]
        if len(args) > len(params):
            raise Unsupported('lambda arity')
        caller_locals = st.locals
        new_locals = dict(fv.closure)
        for p, v in zip(params, args):
            new_locals[p] = v
        nd = len(lam.args.defaults)
        for i, p in enumerate(params):
            if p not in new_locals or i >= len(args):
                if p in kwargs:
                    new_locals[p] = kwargs[p]
                elif i >= len(params) - nd:
                    d = lam.args.defaults[i - (len(params) - nd)]
                    o = self.ev(d, st)
                    new_locals[p] = o[0][1]
        st.locals = new_locals
        self.frames.append(fv.frame)
        try:
            outs = self.ev(lam.body, st)
        finally:
            self.frames.pop()
        res = []
        for s, v in outs:
            s.locals = dict(caller_locals)
            res.append((s, v))
        return res

    def instantiate(self, st: State, clsv: V, args, kwargs, node):
        modname, clsname = clsv.py
        found = self.repo.find_class(modname, clsname)
        if found is None:
            return self.havoc_call(st, f'{clsname}()', node, args=list(args) + list(kwargs.values()))
        mod, cdef = found
        qual_cls = f'{mod.name}:{cdef.name}'
        summ = self.ctx.callees.get(qual_cls) or self.ctx.callees.get(f'{qual_cls}.__init__')
        if summ is not None:
            return summ.apply(self, st, FuncVal('repo', mod=mod, clsdef=cdef, fn=None, self_v=None, qual=qual_cls),
                              args, kwargs, node)
        # exception classes
        base_chain = [c.name for _, c in self.repo.mro(mod.name, cdef.name)]
        is_exc = any(ast.unparse(b) in BUILTIN_EXC or ast.unparse(b).endswith('Error') or
                     ast.unparse(b).endswith('Exception')
                     for _, c in self.repo.mro(mod.name, cdef.name) for b in c.bases)
        if is_exc:
            return [(st, V('pyconst', py=self.mk_exc(cdef.name, node, args=tuple(args))))]
        is_dc = any('dataclass' in ast.unparse(d) for d in cdef.decorator_list)
        init = self.repo.find_method(mod.name, cdef.name, '__init__')
        obj = st.alloc((mod.name, cdef.name))
        if is_dc and init is None:
            fields = []
            for m2, c2 in reversed(self.repo.mro(mod.name, cdef.name)):
                for n in c2.body:
                    if isinstance(n, ast.AnnAssign) and isinstance(n.target, ast.Name):
                        fields.append((n.target.id, n.value))
            vals = list(args)
            for i, (fname, default) in enumerate(fields):
                if i < len(vals):
                    st.write_field(obj, fname, vals[i])
                elif fname in kwargs:
                    st.write_field(obj, fname, kwargs[fname])
                elif default is not None:
                    o = self.ev(default, st)
                    if len(o) != 1 or isinstance(o[0][1], Raise):
                        raise Unsupported('dataclass default')
                    st.write_field(obj, fname, o[0][1])
                else:
                    raise Unsupported(f'dataclass field {fname} missing')
            return [(st, obj)]
        if init is None:
            return [(st, obj)]
        imod, icdef, ifn = init
        qual = f'{imod.name}:{icdef.name}.__init__'
        fv = FuncVal('repo', mod=imod, clsdef=icdef, fn=ifn, self_v=obj, qual=qual)
        if qual in self.ctx.inline or '*' in self.ctx.inline:
            return [(s, r if isinstance(r, Raise) else obj) for s, r in self.inline_call(st, fv, args, kwargs, node)]
        outs = self.havoc_call(st, qual, node, args=[obj] + list(args) + list(kwargs.values()))
        return [(s, r if isinstance(r, Raise) else obj) for s, r in outs]
