"""pyvc - verification-condition generator for a subset of Python.

Re-reads the real sources under /repo/src on every run, symbolically executes
the AST of the functions under contract and discharges the obligations with
z3 / cvc5.  See /verif/DESIGN.md section 2.
"""
import os

REPO_ROOT = os.environ.get('PYVC_REPO', '/repo')
SRC_ROOT = os.path.join(REPO_ROOT, 'src')
VERIF_ROOT = os.path.dirname(os.path.dirname(os.path.abspath(__file__)))
NATIVE_PY = os.environ.get('PYVC_NATIVE_PY', '/venv/bin/python')
