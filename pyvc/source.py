"""Locate functions/classes in the real sources (re-read on every run)."""
from __future__ import annotations

import ast
import hashlib
import os

from . import SRC_ROOT, REPO_ROOT


class TargetMissing(Exception):
    pass


class Module:
    def __init__(self, name: str, path: str):
        self.name = name
        self.path = path
        with open(path, encoding='utf-8') as f:
            self.text = f.read()
        self.tree = ast.parse(self.text)
        self.lines = self.text.splitlines()
        self.classes: dict[str, ast.ClassDef] = {}
        self.functions: dict[str, ast.FunctionDef] = {}
        self.constants: dict[str, ast.expr] = {}
        self.imports: dict[str, tuple[str, str | None]] = {}  # local name -> (module, attr)
        self._scan(self.tree.body)

    def _scan(self, body):
        for node in body:
            if isinstance(node, ast.ClassDef):
                self.classes[node.name] = node
            elif isinstance(node, (ast.FunctionDef, ast.AsyncFunctionDef)):
                self.functions[node.name] = node
            elif isinstance(node, ast.Assign) and len(node.targets) == 1 and isinstance(node.targets[0], ast.Name):
                self.constants[node.targets[0].id] = node.value
            elif isinstance(node, ast.AnnAssign) and isinstance(node.target, ast.Name) and node.value is not None:
                self.constants[node.target.id] = node.value
            elif isinstance(node, ast.Import):
                for a in node.names:
                    self.imports[a.asname or a.name.split('.')[0]] = (a.name if a.asname else a.name.split('.')[0], None)
            elif isinstance(node, ast.ImportFrom):
                mod = node.module or ''
                if node.level:
                    base = self.name.split('.')
                    # a module 'a.b.c' at level 1 -> package 'a.b'
                    base = base[:len(base) - node.level]
                    mod = '.'.join(base + ([mod] if mod else []))
                for a in node.names:
                    self.imports[a.asname or a.name] = (mod, a.name)
            elif isinstance(node, (ast.If, ast.Try)):
                # e.g. "if TYPE_CHECKING:" / "try: import lz4"
                for sub in ('body', 'orelse', 'handlers', 'finalbody'):
                    for child in getattr(node, sub, []) or []:
                        if isinstance(child, ast.ExceptHandler):
                            self._scan(child.body)
                        else:
                            self._scan([child])

    def segment(self, node: ast.AST) -> str:
        return ast.get_source_segment(self.text, node) or ''


class Repo:
    def __init__(self, src_root: str = SRC_ROOT, extra_roots: tuple[str, ...] = ()):
        self.roots = (src_root, *extra_roots, REPO_ROOT)
        self._mods: dict[str, Module | None] = {}

    def module(self, name: str) -> Module | None:
        if name in self._mods:
            return self._mods[name]
        mod = None
        rel = name.replace('.', os.sep)
        for root in self.roots:
            for cand in (os.path.join(root, rel + '.py'), os.path.join(root, rel, '__init__.py')):
                if os.path.isfile(cand):
                    mod = Module(name, cand)
                    break
            if mod:
                break
        self._mods[name] = mod
        return mod

    # -- lookup ---------------------------------------------------------
    def find(self, qual: str):
        """qual = 'pkg.mod:Class.method' | 'pkg.mod:function' -> (Module, ClassDef|None, FunctionDef)."""
        modname, _, path = qual.partition(':')
        mod = self.module(modname)
        if mod is None:
            raise TargetMissing(f'module {modname} not found')
        parts = path.split('.')
        if len(parts) == 1:
            fn = mod.functions.get(parts[0])
            if fn is None:
                raise TargetMissing(f'{qual}: function not found')
            return mod, None, fn
        cls = mod.classes.get(parts[0])
        if cls is None:
            raise TargetMissing(f'{qual}: class not found')
        for p in parts[1:-1]:  # nested classes
            nxt = [n for n in cls.body if isinstance(n, ast.ClassDef) and n.name == p]
            if not nxt:
                raise TargetMissing(f'{qual}: nested class {p} not found')
            cls = nxt[0]
        for n in cls.body:
            if isinstance(n, (ast.FunctionDef, ast.AsyncFunctionDef)) and n.name == parts[-1]:
                # property setters share the name; prefer the first (getter) unless '@x.setter' asked explicitly
                return mod, cls, n
        raise TargetMissing(f'{qual}: method not found')

    def find_class(self, modname: str, clsname: str):
        """Resolve a class name as seen from module `modname` (follows from-imports)."""
        seen = set()
        while True:
            if (modname, clsname) in seen:
                return None
            seen.add((modname, clsname))
            mod = self.module(modname)
            if mod is None:
                return None
            if clsname in mod.classes:
                return mod, mod.classes[clsname]
            if clsname in mod.imports:
                m2, attr = mod.imports[clsname]
                if attr is None:
                    return None
                # "from pkg import mod" style is not a class
                modname, clsname = m2, attr
                continue
            return None

    def mro(self, modname: str, clsname: str):
        """Linearised (depth-first, left to right, duplicates removed) list of (Module, ClassDef)."""
        out = []
        found = self.find_class(modname, clsname)
        if found is None:
            return out
        mod, cls = found
        out.append((mod, cls))
        for b in cls.bases:
            bname = None
            bmod = mod.name
            if isinstance(b, ast.Name):
                bname = b.id
            elif isinstance(b, ast.Attribute) and isinstance(b.value, ast.Name):
                # module.Class
                imp = mod.imports.get(b.value.id)
                if imp:
                    bmod = imp[0] if imp[1] is None else imp[0] + '.' + imp[1]
                    bname = b.attr
            if bname is None:
                continue
            for item in self.mro(bmod, bname):
                if item not in out:
                    out.append(item)
        return out

    def find_method(self, modname: str, clsname: str, meth: str):
        """-> (Module, ClassDef, FunctionDef) following the MRO, or None."""
        for mod, cls in self.mro(modname, clsname):
            for n in cls.body:
                if isinstance(n, (ast.FunctionDef, ast.AsyncFunctionDef)) and n.name == meth:
                    return mod, cls, n
        return None

    def class_attr(self, modname: str, clsname: str, attr: str):
        """Class-level assignment `attr = <expr>` following the MRO -> (Module, expr) or None."""
        for mod, cls in self.mro(modname, clsname):
            for n in cls.body:
                if isinstance(n, ast.Assign) and len(n.targets) == 1 and isinstance(n.targets[0], ast.Name) \
                        and n.targets[0].id == attr:
                    return mod, n.value
                if isinstance(n, ast.AnnAssign) and isinstance(n.target, ast.Name) and n.target.id == attr \
                        and n.value is not None:
                    return mod, n.value
        return None


def fn_hash(mod: Module, fn: ast.AST) -> str:
    return hashlib.sha256(mod.segment(fn).encode()).hexdigest()[:16]


def decorators(fn) -> list[str]:
    out = []
    for d in fn.decorator_list:
        out.append(ast.unparse(d))
    return out
