"""Check driver: `python3-vt -m pyvc.run C15 --tier quick`."""
from __future__ import annotations

import argparse
import hashlib
import importlib
import json
import multiprocessing as mp
import os
import subprocess
import sys
import time
import traceback

from . import VERIF_ROOT, REPO_ROOT, NATIVE_PY

# scratch runs against another tree (PYVC_REPO=<worktree>) may redirect what they write (evidence, replays)
OUT_ROOT = os.environ.get('PYVC_OUT_DIR') or VERIF_ROOT

EXIT_OK, EXIT_VIOLATION, EXIT_UNDECIDED, EXIT_CRASH = 0, 1, 2, 3
FAST_MS = 1500   # obligations discharged faster than this on the pinned tree count as 'fast proofs'


def _worker(arg):
    prop, check_id, tier, probe = arg
    t0 = time.time()
    out = {'id': check_id, 'vcs': [], 'meta': {}, 'error': None, 'undecided': None}
    try:
        from .api import REGISTRY
        from .source import Repo, TargetMissing
        from .vals import Unsupported
        from . import solve
        importlib.import_module(f'contracts.{prop}')
        chk = [c for c in REGISTRY[prop] if c.id == check_id][0]
        out['tag'] = chk.tag
        out['doc'] = chk.doc
        out['targets'] = list(chk.targets)
        repo = Repo()
        try:
            vcs, meta = chk.generate(repo)
        except TargetMissing as ex:
            out['undecided'] = f'contract target missing: {ex}'
            return out
        except Unsupported as ex:
            out['undecided'] = f'unsupported construct: {ex}'
            return out
        out['meta'] = meta
        out['gen_s'] = round(time.time() - t0, 3)
        n_unknown = 0
        for vc in vcs:
            rec = {'name': vc.name, 'kind': vc.kind, 'info': {k: v for k, v in vc.info.items()
                                                               if isinstance(v, (int, str, float, bool))}}
            if vc.expect == 'sat':
                v, _ = solve.satisfiable(vc.pc)
                if v == 'unknown':
                    # satisfiability of quantified assumptions cannot be shown; at least look for a contradiction
                    # with the configuration that proves the obligations (canary: "false" must not be provable)
                    import z3 as _z3
                    if solve.ematch_check(vc.pc, _z3.BoolVal(True), timeout_ms=4000, auto_config=False) == 'unsat':
                        v = 'unsat'
                rec.update(verdict={'sat': 'covered', 'unsat': 'vacuous', 'unknown': 'cover-unknown'}[v],
                           backend='z3', ms=0)
                out['vcs'].append(rec)
                continue
            short = n_unknown >= 2 and tier != 'thorough'
            if n_unknown >= 6 and tier != 'thorough':
                # six obligations of this contract are already undischarged (reported): the rest is not attempted
                rec.update(verdict='unknown', backend='-', ms=0, detail='not attempted: 6 obligations of this contract '
                           'are already undischarged', all=None, ematch=None)
                out['vcs'].append(rec)
                continue
            r = solve.check_valid(vc.pc, vc.goal, all_backends=(tier == 'thorough'),
                                  z3_timeout_ms=1000 if short else getattr(chk, 'z3_timeout_ms', None),
                                  ematch_probe=probe, short=short, cvc5_first=bool(getattr(chk, 'cvc5_first', False)))
            if r['verdict'] != 'proved':
                n_unknown += 1
            rec.update(verdict=r['verdict'], backend=r['backend'], ms=r['ms'], detail=r['detail'], all=r.get('all'),
                       ematch=r.get('ematch'))
            rec['goal_head'] = solve.head(vc.goal, 300)
            if r['verdict'] == 'refuted':
                model = r['model']
                rec['model'] = str(model)[:4000] if model is not None else None
                try:
                    rec['inputs'] = chk.concretize(vc, model) if (model is not None or getattr(chk, 'replay_without_model', False)) else None
                except Exception as ex:  # noqa: BLE001
                    rec['inputs'] = None
                    rec['concretize_error'] = repr(ex)
                rec['replay_fn'] = getattr(chk, 'replay_fn', None)
            out['vcs'].append(rec)
    except Exception:  # noqa: BLE001
        out['error'] = traceback.format_exc()
    out['wall_s'] = round(time.time() - t0, 3)
    return out


def native_replay(replay_fn, inputs, timeout=120):
    """Run the real code under /venv/bin/python on concretised inputs -> dict(violates=bool|None, detail)."""
    payload = json.dumps({'fn': replay_fn, 'inputs': inputs})
    env = dict(os.environ)
    env['PYTHONPATH'] = os.path.join(REPO_ROOT, 'src') + os.pathsep + VERIF_ROOT
    try:
        r = subprocess.run([NATIVE_PY, os.path.join(VERIF_ROOT, 'native', 'replay.py')], input=payload, text=True,
                           capture_output=True, timeout=timeout, env=env, cwd=VERIF_ROOT)
    except subprocess.TimeoutExpired:
        return {'violates': True, 'detail': f'real code did not terminate within {timeout}s on the witness',
                'timeout': True}
    try:
        return json.loads(r.stdout.strip().splitlines()[-1])
    except Exception:  # noqa: BLE001
        return {'violates': None, 'detail': f'replay harness failed: {r.stdout[-500:]} {r.stderr[-1500:]}'}


def load_known():
    p = os.path.join(VERIF_ROOT, 'known_findings.json')
    if not os.path.exists(p):
        return []
    with open(p) as f:
        return json.load(f).get('findings', [])


def load_baseline(prop):
    p = os.path.join(VERIF_ROOT, 'obligations', f'{prop}.json')
    if not os.path.exists(p):
        return None
    with open(p) as f:
        return json.load(f)


def run_native_checks(prop, tier, seed):
    """[F] finite-exhaustive and [B] bounded checks that execute the real code under /venv/bin/python."""
    script = os.path.join(VERIF_ROOT, 'native', f'{prop}_native.py')
    if not os.path.exists(script):
        return []
    env = dict(os.environ)
    env['PYTHONPATH'] = os.path.join(REPO_ROOT, 'src') + os.pathsep + VERIF_ROOT
    env['VERIF_SEED'] = str(seed)
    env['VERIF_TIER'] = tier
    try:
        r = subprocess.run([NATIVE_PY, script, tier], capture_output=True, text=True, env=env, cwd=VERIF_ROOT,
                           timeout=3000 if tier == 'thorough' else 600)
    except subprocess.TimeoutExpired:
        return [{'name': f'{prop}.native', 'tag': 'B', 'ok': None, 'detail': 'native checks timed out', 'cases': 0}]
    try:
        return json.loads(r.stdout.strip().splitlines()[-1])
    except Exception:  # noqa: BLE001
        return [{'name': f'{prop}.native', 'tag': 'B', 'ok': None, 'cases': 0,
                 'detail': 'native check harness failed: ' + (r.stdout[-300:] + r.stderr[-1500:])}]


def main(argv=None):
    ap = argparse.ArgumentParser()
    ap.add_argument('prop', nargs='?')
    ap.add_argument('--tier', default=os.environ.get('VERIF_TIER', 'quick'), choices=['quick', 'thorough'])
    ap.add_argument('--replay')
    ap.add_argument('--record-baseline', action='store_true')
    ap.add_argument('--only')
    ap.add_argument('--jobs', type=int, default=min(16, os.cpu_count() or 4))
    a = ap.parse_args(argv)
    if a.replay:
        return do_replay(a.replay)
    prop = a.prop
    seed = int(os.environ.get('VERIF_SEED', '0') or 0)
    t0 = time.time()
    sys.path.insert(0, VERIF_ROOT)
    try:
        from .api import REGISTRY
        importlib.import_module(f'contracts.{prop}')
        checks = [c for c in REGISTRY.get(prop, []) if not a.only or a.only in c.id]
    except Exception:  # noqa: BLE001
        traceback.print_exc()
        print(f'CRASH property={prop}: contracts failed to load', file=sys.stderr)
        return EXIT_CRASH
    jobs = [(prop, c.id, a.tier, a.record_baseline) for c in checks]
    results = []
    native_box = {}
    nt = None
    if not a.only:
        import threading
        nt = threading.Thread(target=lambda: native_box.update(r=run_native_checks(prop, a.tier, seed)))
        nt.start()     # the native checks mostly wait for sockets: run them beside the solver pool
    if jobs:
        with mp.get_context('fork').Pool(min(a.jobs, len(jobs))) as pool:
            results = pool.map(_worker, jobs, chunksize=1)
    if nt is not None:
        nt.join()
    native = native_box.get('r', []) if not a.only else []
    return report(prop, a, checks, results, native, seed, t0)


def report(prop, a, checks, results, native, seed, t0):
    known = [k for k in load_known() if k.get('property') == prop and k.get('status') == 'open']
    baseline = load_baseline(prop)
    base_names = set(baseline['proved']) if baseline else None
    violations, undecided, crashes, known_hits = [], [], [], []
    proved_names, all_names = set(), set()
    n_vc = n_proved = 0
    solver_ms = 0
    backends = {}
    samples = []
    fn_meta = []
    trusted, assumptions = set(), set()
    covers = 0
    replays_dir = os.path.join(OUT_ROOT, 'replays')
    for res in results:
        if res['error']:
            crashes.append(f"{res['id']}: {res['error'][-1500:]}")
            continue
        if res['undecided']:
            undecided.append(f"{res['id']}: {res['undecided']}")
            continue
        m = res['meta']
        fn_meta.append({'check': res['id'], 'tag': res.get('tag'), 'function': m.get('function'),
                        'lines': m.get('lines'), 'sha256_16': m.get('sha256_16'), 'paths': m.get('paths'),
                        'dropped_by_extraction': m.get('dropped'), 'havocked_calls': m.get('havocked_calls'),
                        'inlined': m.get('inlined'), 'doc': res.get('doc')})
        trusted.update(m.get('trusted') or [])
        assumptions.update(m.get('assumptions') or [])
        per_name = {}
        for vc in res['vcs']:
            if vc['kind'] == 'cover':
                if vc['verdict'] == 'vacuous':
                    crashes.append(f"{vc['name']}: precondition/path set is unsatisfiable (vacuous contract)")
                elif vc['verdict'] == 'covered':
                    covers += 1
                continue
            n_vc += 1
            solver_ms += vc.get('ms', 0)
            all_names.add(vc['name'])
            per_name.setdefault(vc['name'], []).append(vc)
            backends[vc['backend']] = backends.get(vc['backend'], 0) + 1
            if vc['verdict'] == 'proved':
                n_proved += 1
                if len(samples) < 4:
                    samples.append({'obligation': vc['name'], 'backend': vc['backend'], 'ms': vc['ms'],
                                    'goal': vc.get('goal_head')})
        for name, vcs in per_name.items():
            if all(v['verdict'] == 'proved' for v in vcs):
                proved_names.add(name)
                continue
            for v in vcs:
                if v['verdict'] == 'proved':
                    continue
                if v['verdict'] == 'unknown' and v.get('ematch') == 'saturated' and baseline \
                        and name in set(baseline.get('ematch_provable', [])):
                    # proved by quantifier instantiation on the pinned tree; now instantiation saturates without a
                    # contradiction: the obligation fails although the solver cannot construct a finite model
                    v = dict(v, verdict='refuted', model=None, inputs=None,
                             detail='instantiation saturated without contradiction (incomplete quantifiers); '
                                    'the same obligation is recorded as provable by instantiation on the pinned tree')
                    handle_refutation(prop, name, v, known, known_hits, violations, undecided, base_names, replays_dir)
                    continue
                base_ms = (baseline or {}).get('max_ms', {}).get(name)
                all_unknown = v.get('all') and len(v['all']) >= 2 and all(x == 'unknown' for x in v['all'].values())
                if v['verdict'] == 'unknown' and all_unknown and base_ms is not None and base_ms <= FAST_MS:
                    # discharged in milliseconds on the pinned tree, now undischargeable by every back end within the
                    # full budget (>= 10 s each): reported as a failed obligation without a model
                    v = dict(v, verdict='refuted', model=None, inputs=None,
                             detail=f'no back end ({", ".join(v["all"])}) can discharge this obligation any more within '
                                    f'its full time budget; on the pinned tree it was discharged in {base_ms} ms')
                    handle_refutation(prop, name, v, known, known_hits, violations, undecided, base_names, replays_dir)
                    continue
                if v['verdict'] in ('unknown', 'disagree'):
                    undecided.append(f"{name}: solver verdict {v['verdict']} ({v.get('detail')}, {v.get('all')})")
                    continue
                # refuted. A failed site of an exhaustive syntactic scan is decided as it stands (no solver involved): it is
                # reported also when the site - a new method, a new call - does not exist on the pinned tree
                handle_refutation(prop, name, v, known, known_hits, violations, undecided,
                                  None if v.get('kind') == 'scan' else base_names, replays_dir)
    # native [F]/[B] checks
    f_cases = f_ok = b_cases = 0
    bounded = []
    finite = []
    for n in native:
        rec = {'name': n['name'], 'tag': n.get('tag', 'B'), 'cases': n.get('cases', 0), 'bound': n.get('bound'),
               'ok': n.get('ok'), 'detail': n.get('detail', '')[:600]}
        if n.get('tag') == 'F':
            finite.append(rec)
            f_cases += n.get('cases', 0)
        else:
            bounded.append(rec)
            b_cases += n.get('cases', 0)
        if n.get('ok') is None:
            undecided.append(f"{n['name']}: {n.get('detail', '')[:300]}")
        elif n.get('ok') is False:
            n_viol_before = len(violations)
            for w in n.get('witnesses', [{'key': 'unspecified', 'detail': n.get('detail', '')}]):
                v = {'verdict': 'refuted', 'native_witness': w, 'model': None, 'inputs': w.get('inputs'),
                     'replay_fn': n.get('replay_fn'), 'witness_key': w.get('key'), 'detail': w.get('detail')}
                handle_refutation(prop, n['name'], v, known, known_hits, violations, undecided, None, replays_dir,
                                  native_confirmed=True)
            if len(violations) == n_viol_before:
                rec['known_finding_only'] = True     # fails only for recorded known findings: not claimed as proved
        else:
            if n.get('tag') == 'F':
                proved_names.add(n['name'])
                all_names.add(n['name'])
    # baseline comparison (anti-vacuity: the obligations proved on the pinned tree must all be generated again)
    if a.record_baseline:
        os.makedirs(os.path.join(VERIF_ROOT, 'obligations'), exist_ok=True)
        with open(os.path.join(VERIF_ROOT, 'obligations', f'{prop}.json'), 'w') as f:
            em = set()
            for res in results:
                per = {}
                for vc in res.get('vcs', []):
                    if vc['kind'] != 'cover':
                        per.setdefault(vc['name'], []).append(vc.get('ematch') == 'unsat')
                em.update(n for n, flags in per.items() if all(flags))
            max_ms = {}
            for res in results:
                for vc in res.get('vcs', []):
                    if vc['kind'] != 'cover' and vc['name'] in proved_names:
                        max_ms[vc['name']] = max(max_ms.get(vc['name'], 0), vc.get('ms', 0))
            signatures = {res['id']: res['meta']['params'] for res in results
                          if isinstance(res.get('meta'), dict) and res['meta'].get('params') is not None}
            json.dump({'property': prop, 'proved': sorted(proved_names),
                       'ematch_provable': sorted(em & proved_names), 'max_ms': max_ms, 'signatures': signatures}, f, indent=1)
        print(f'recorded baseline: {len(proved_names)} obligation names')
    elif base_names is not None and not a.only:
        missing = base_names - all_names
        for mname in sorted(missing):
            undecided.append(f'{mname}: obligation of the recorded baseline was not generated on this tree')
    if n_vc + f_cases == 0 and not a.only:
        crashes.append('no obligations generated')
    wall = time.time() - t0
    for k in known_hits:
        print(f"KNOWN-FINDING: property={prop} {k['what']} [{k['obligation']} / {k['witness_key']}]")
    seen_lines = set()
    for v in violations:
        if v['line'] not in seen_lines:
            print(v['line'])
            seen_lines.add(v['line'])
    for u in dict.fromkeys(undecided):
        print(f'UNDECIDED property={prop} {u}', file=sys.stderr)
    for c in crashes:
        print(f'CRASH property={prop} {c}', file=sys.stderr)
    n_known_vcs = sum(k.get('_hits', 0) for k in known_hits)
    n_oblig = n_vc + len([x for x in finite if not x.get('known_finding_only')]) - n_known_vcs
    n_disch = n_proved + sum(1 for x in finite if x['ok'])
    evidence = {
        'property_id': prop, 'tier': a.tier, 'seed': seed, 'level': 'proof',
        'coverage': {
            'obligations': n_oblig, 'discharged': n_disch,
            'checker_cmd': f'python3-vt -m pyvc.run {prop} --tier {a.tier}',
            'trusted_base': sorted(trusted),
            'obligation_names': len(all_names), 'proved_names': len(proved_names),
            'vcs_from_symbolic_execution': n_vc, 'vcs_proved': n_proved,
            'finite_exhaustive_checks': finite, 'bounded_obligations': bounded,
            'bounded_cases_not_counted_as_proved': b_cases,
            'covers_satisfiable': covers, 'back_ends': backends, 'solver_ms': solver_ms,
            'functions_under_contract': fn_meta, 'samples': samples or [{'note': 'no proved VC in this run'}],
            'undecided': undecided[:50],
            'known_findings_hit': [{'obligation': k['obligation'], 'witness_key': k['witness_key'],
                                    'vcs_refuted_and_excluded_from_obligations': k.get('_hits', 0)}
                                   for k in known_hits],
            'exhaustive': False,
            'explanation': 'obligations = VCs generated from the current /repo sources by symbolic execution '
                           '(one per path and postcondition clause) + finite-exhaustive [F] checks; bounded [B] '
                           'stand-ins are listed separately and never counted',
        },
        'assumptions': sorted(assumptions | {
            'no monkey-patching of verified functions at run time', 'dict iteration order = insertion order',
            'python float arithmetic modelled as real arithmetic unless a check states an IEEE error model',
            'recursion depth and memory unbounded', 'logging calls neither raise nor change program state'}),
        'wall_s': round(wall, 2), 'violations': len(violations),
    }
    os.makedirs(os.path.join(OUT_ROOT, 'evidence'), exist_ok=True)
    with open(os.path.join(OUT_ROOT, 'evidence', f'{prop}.json'), 'w') as f:
        json.dump(evidence, f, indent=1, default=str)
    print(f'{prop}: {n_disch}/{n_oblig} obligations discharged ({len(proved_names)} names), '
          f'{len(violations)} violations, {len(known_hits)} known findings, {len(undecided)} undecided, '
          f'{b_cases} bounded cases, {wall:.1f}s')
    if crashes:
        return EXIT_CRASH
    if violations:
        return EXIT_VIOLATION
    if undecided:
        return EXIT_UNDECIDED
    return EXIT_OK


def handle_refutation(prop, name, v, known, known_hits, violations, undecided, base_names, replays_dir,
                      native_confirmed=False):
    inputs = v.get('inputs')
    replay_fn = v.get('replay_fn')
    native = None
    witness_key = v.get('witness_key')
    if native_confirmed:
        native = {'violates': True, 'detail': v.get('detail', '')}
    elif inputs is not None and replay_fn:
        native = native_replay(replay_fn, inputs)
        witness_key = native.get('witness_key') or witness_key
    if witness_key is None:
        witness_key = (v.get('info') or {}).get('witness_key') or 'path'
    # known finding?
    for k in known:
        if k['obligation'] == name and (k['witness_key'] == witness_key or k['witness_key'] == '*'):
            if k not in known_hits:
                known_hits.append(k)
            if not native_confirmed:
                k['_hits'] = k.get('_hits', 0) + 1
            return
    os.makedirs(replays_dir, exist_ok=True)
    h = hashlib.sha256((name + json.dumps(inputs, sort_keys=True, default=str) + str(witness_key)).encode()).hexdigest()[:10]
    path = os.path.join(replays_dir, f'{prop}_{name.replace("/", "_")}_{h}.json')
    rec = {'property': prop, 'obligation': name, 'witness_key': witness_key, 'solver_verdict': v.get('verdict'),
           'backend': v.get('backend'), 'solver_model': v.get('model'), 'solver_reason': v.get('detail'),
           'goal': v.get('goal_head'),
           'inputs': inputs, 'replay_fn': replay_fn, 'native_result': native, 'info': v.get('info')}
    if native is not None and native.get('violates') is True:
        with open(path, 'w') as f:
            json.dump(rec, f, indent=1, default=str)
        violations.append({'line': f'VIOLATION property={prop} replay={path}', 'name': name})
        return
    if native is not None and native.get('violates') is False:
        undecided.append(f'{name}: spurious-model (solver counterexample does not violate the contract on the real '
                         f'code: {native.get("detail", "")[:200]})')
        return
    if native is not None and native.get('violates') is None:
        rec['note'] = 'replay harness could not run the witness'
    # no concrete input available
    if base_names is None or name in base_names:
        with open(path, 'w') as f:
            json.dump(rec, f, indent=1, default=str)
        violations.append({'line': f'VIOLATION property={prop} replay={path} no-failing-input-found', 'name': name})
    else:
        undecided.append(f'{name}: refuted but not in the recorded baseline and no concrete witness')


def do_replay(path):
    with open(path) as f:
        rec = json.load(f)
    print(json.dumps({k: rec.get(k) for k in ('property', 'obligation', 'witness_key', 'inputs')}, indent=1))
    if rec.get('inputs') is not None and rec.get('replay_fn'):
        r = native_replay(rec['replay_fn'], rec['inputs'])
        print(json.dumps(r, indent=1))
        if r.get('violates'):
            print(f"VIOLATION property={rec['property']} replay={path}")
            return EXIT_VIOLATION
        return EXIT_OK
    print('no concrete input recorded (no-failing-input-found); solver output:')
    print(rec.get('solver_model'))
    print(f"VIOLATION property={rec['property']} replay={path} no-failing-input-found")
    return EXIT_VIOLATION


if __name__ == '__main__':
    sys.exit(main())
