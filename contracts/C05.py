"""C05 - BICEPS/WS-* data types round-trip losslessly through schema-valid XML."""
from __future__ import annotations

import z3

from pyvc.api import (FnCheck, SeqCheck, ScanCheck, LoopSpec, Pure, Inline, register, Build, V, Val, SeqVal, IntS, RealS,
                      BoolS, StrS, NONE, Raise, Unsupported, fresh, vany, vint, vreal, vbool, vstr, vref, as_int,
                      unbox_as, truthy, field)
from pyvc import models

XS = 'sdc11073.xml_types.xml_structure'
TOXML = z3.Function('to_xml', Val, Val)
TOPY = z3.Function('to_py', Val, Val)


def element(b, name):
    """lxml element modelled as an object whose `attrib` is a dict (node.set / attrib.get / del attrib[k])."""
    st = b.st
    attrib = b.obj(f'{name}.attrib')
    st.assume(z3.Select(st.get_arr('C'), attrib.e) == b.ex.ctx.builtin_class_ids['dict'])
    st.assume(z3.Select(st.get_arr('DN'), attrib.e) >= 0)
    node = b.obj(name, cls='LxmlElement', attrib=attrib)
    b.distinct(node, attrib)
    return node, attrib


@register
class AttributeRoundTrip(SeqCheck):
    id = 'C05.attribute_roundtrip'
    prop = 'C05'
    targets_list = (f'{XS}:_AttributeBase.update_xml_value', f'{XS}:_AttributeBase.get_py_value_from_node')
    container_hints = {}
    doc = ('attribute properties (all _AttributeBase descriptors): writing the stored value v and reading it back gives '
           'v (given the converter lemma to_py(to_xml(v)) == v, C18); an absent optional value removes the attribute and '
           'reads back as None; every other attribute of the node is untouched; writing the re-read value again gives '
           'the same attribute map (stable re-serialisation); a missing mandatory value is refused')
    trusted = ('lxml: node.set(k, v) / node.attrib behave like a string map', 'converter lemma to_py(to_xml(v)) == v (C18)')

    def script(self, run, ex, st, b):
        from pyvc import models as m
        self.node, self.attrib = element(b, 'node')
        name = b.str('attribute_name')
        lvn = b.str('local_var_name')
        conv = b.obj('converter')
        self.optional = b.bool('is_optional')
        prop = b.obj('self', cls=(XS, '_AttributeBase'), _attribute_name=name, _local_var_name=lvn, _converter=conv,
                     _is_optional=self.optional)
        inst = b.obj('instance')
        v = b.any('stored_value', maybe_none=True)
        b.distinct(prop, inst, self.node, self.attrib, conv)
        # converter lemma (C18) for the stored value; xml values are strings, never None
        st.assume(z3.Implies(z3.Not(Val.is_none(v.e)), z3.And(TOPY(TOXML(v.e)) == v.e, Val.is_str(TOXML(v.e)),
                                                             z3.Not(Val.is_none(TOPY(TOXML(v.e)))))))
        self.v, self.name, self.prop, self.inst = v, name, prop, inst
        ex.ctx.callees.update({
            'getattr': Pure(lambda e, s, a, k: v, name='getattr(instance, local_var_name) -> stored value'),
            '*.to_xml': Pure(lambda e, s, a, k: vany(TOXML(s.box(a[0]))), name='converter.to_xml (C18)'),
            '*.to_py': Pure(lambda e, s, a, k: vany(TOPY(s.box(a[0]))), name='converter.to_py (C18)'),
            '*.set': Pure(self._set, name='lxml node.set(name, value)', trusted=True),
        })
        ex.ctx.container_hints['node.attrib'] = 'dict'
        ex.ctx.inline.add(f'{XS}:_XmlStructureBaseProperty.is_optional')
        outs = []
        key = Val.str(name.e)
        dk0, dv0 = z3.Select(st.get_arr('DK'), self.attrib.e), z3.Select(st.get_arr('DV'), self.attrib.e)
        for s1, r1 in run(st, self.targets_list[0], prop, [inst, self.node]):
            if isinstance(r1, Raise):
                ex.oblige(s1, 'write_refused_only_for_missing_mandatory_value', z3.And(
                    z3.BoolVal(r1.exc.cls == 'ValueError'), Val.is_none(v.e), z3.Not(self.optional.e)))
                ex.oblige(s1, 'refused_write_leaves_node_unchanged', z3.And(
                    z3.Select(s1.get_arr('DK'), self.attrib.e) == dk0, z3.Select(s1.get_arr('DV'), self.attrib.e) == dv0))
                continue
            dk1, dv1 = z3.Select(s1.get_arr('DK'), self.attrib.e), z3.Select(s1.get_arr('DV'), self.attrib.e)
            kq = z3.Const('kq', Val)
            ex.oblige(s1, 'other_attributes_untouched', z3.ForAll([kq], z3.Implies(kq != key, z3.And(
                z3.Select(dk1, kq) == z3.Select(dk0, kq), z3.Select(dv1, kq) == z3.Select(dv0, kq)))))
            ex.oblige(s1, 'attribute_present_iff_value_present', z3.Select(dk1, key) == z3.Not(Val.is_none(v.e)))
            for s2, r2 in run(s1, self.targets_list[1], prop, [inst, self.node]):
                if isinstance(r2, Raise):
                    ex.oblige(s2, 'read_never_raises', z3.BoolVal(False), info={'exc': repr(r2.exc)})
                    continue
                ex.oblige(s2, 'read_back_equals_written_value', s2.box(r2) == v.e)
                ex.oblige(s2, 'read_does_not_change_node', z3.And(
                    z3.Select(s2.get_arr('DK'), self.attrib.e) == dk1, z3.Select(s2.get_arr('DV'), self.attrib.e) == dv1))
                # write the re-read value again: same attribute map
                old_get = ex.ctx.callees['getattr']
                ex.ctx.callees['getattr'] = Pure(lambda e, s, a, k, _r=r2: _r, name='getattr -> re-read value')
                try:
                    for s3, r3 in run(s2, self.targets_list[0], prop, [inst, self.node]):
                        if isinstance(r3, Raise):
                            ex.oblige(s3, 'rewrite_never_raises', z3.BoolVal(False))
                            continue
                        ex.oblige(s3, 'rewrite_is_stable', z3.And(
                            z3.Select(s3.get_arr('DK'), self.attrib.e) == dk1,
                            z3.Select(z3.Select(s3.get_arr('DV'), self.attrib.e), key) == z3.Select(dv1, key)))
                        outs.append((s3, ('ret', r3)))
                finally:
                    ex.ctx.callees['getattr'] = old_get
        return outs

    def _set(self, ex_, st, args, kwargs):
        from pyvc import models as m
        m.dict_set(ex_, st, self.attrib, args[0], args[1])
        return NONE


def element_with_children(b, name):
    """lxml element modelled as an object with a text member and a map child-tag -> child element.

    find(tag) = the child stored under tag or None, SubElement(node, tag) adds a new child with text None,
    remove(child) deletes the entry of the child's tag.  Several children with one tag are not modelled (the text
    properties under contract address the first child of a tag and never create a second one)."""
    st = b.st
    children = b.obj(f'{name}.children')
    st.assume(z3.Select(st.get_arr('C'), children.e) == b.ex.ctx.builtin_class_ids['dict'])
    st.assume(z3.Select(st.get_arr('DN'), children.e) >= 0)
    k = z3.Const('k!ch', Val)
    dk, dv = z3.Select(st.get_arr('DK'), children.e), z3.Select(st.get_arr('DV'), children.e)
    # every stored child is a pre-existing element object whose tag is its key
    st.assume(z3.ForAll([k], z3.Implies(z3.Select(dk, k), z3.And(
        Val.is_ref(z3.Select(dv, k)), Val.oid(z3.Select(dv, k)) > 0, Val.oid(z3.Select(dv, k)) < 10 ** 9,
        z3.Select(st.get_arr('f:tag'), Val.oid(z3.Select(dv, k))) == k))))
    node = b.obj(name, cls='LxmlElement', children=children, text=b.any(f'{name}.text', maybe_none=True))
    st.assume(z3.ForAll([k], z3.Implies(z3.Select(dk, k), z3.And(Val.oid(z3.Select(dv, k)) != node.e,
                                                                 Val.oid(z3.Select(dv, k)) != children.e))))
    b.distinct(node, children)
    return node, children


@register
class NodeTextRoundTrip(SeqCheck):
    id = 'C05.node_text_roundtrip'
    prop = 'C05'
    targets_list = (f'{XS}:NodeTextProperty.update_xml_value', f'{XS}:NodeTextProperty.get_py_value_from_node')
    doc = ('text-valued element properties (NodeTextProperty and subclasses): writing a present value v creates / reuses '
           'the child element of the property and sets its text to to_xml(v), reading it back gives v (converter lemma); '
           'an absent optional value removes the child and reads back as None; a missing mandatory value with a minimum '
           'length is refused without changing the node; children with other tags and the node\'s own text are untouched; '
           'writing the re-read value again leaves the node as it is')
    trusted = ('lxml find / SubElement / remove behave like a map tag -> first child', 'converter lemma to_py(to_xml(v)) == v (C18)')
    optional_fields = ('text',)

    def script(self, run, ex, st, b):
        from pyvc import models as m
        self.node, self.children = element_with_children(b, 'node')
        qn = b.obj('sub_element_name', cls='QName')     # a QName object (always truthy)
        name = vany(Val.ref(qn.e))
        conv = b.obj('converter')
        self.optional = b.bool('is_optional')
        self.minlen = b.int('min_length')
        st.assume(self.minlen.e >= 0)
        prop = b.obj('self', cls=(XS, 'NodeTextProperty'), _sub_element_name=name, _local_var_name=b.str('local_var_name'),
                     _converter=conv, _is_optional=self.optional, _min_length=self.minlen)
        inst = b.obj('instance')
        v = b.any('stored_value', maybe_none=True)
        b.distinct(prop, inst, self.node, self.children, conv, qn)
        st.assume(z3.Implies(z3.Not(Val.is_none(v.e)), z3.And(TOPY(TOXML(v.e)) == v.e, Val.is_str(TOXML(v.e)))))
        mand = b.bool('MANDATORY_VALUE_CHECKING')
        ex.ctx.module_constants = dict(getattr(ex.ctx, 'module_constants', {}))
        self.v = v
        key = name.e

        def find(ex_, s, args, kwargs):
            d = self.children
            has = m.dict_has(s, d, args[0])
            return vany(z3.If(has, m.dict_val(s, d, args[0]), Val.none), maybe_none=True)

        def sub_element(ex_, s, args, kwargs):
            child = s.alloc('LxmlElement')
            s.write_field(child, 'tag', args[1])
            s.write_field(child, 'text', NONE)
            m.dict_set(ex_, s, self.children, args[1], child)
            return child

        def remove(ex_, s, args, kwargs):
            c = ex_.concrete_kind(s, args[0], ('ref',))
            tag = s.read_field(c, 'tag')
            m.dict_del(ex_, s, self.children, tag)
            return NONE
        ex.ctx.callees.update({
            'getattr': Pure(lambda e, s, a, k: v, name='getattr(instance, local_var_name) -> stored value'),
            '*.to_xml': Pure(lambda e, s, a, k: vany(TOXML(s.box(a[0]))), name='converter.to_xml (C18)'),
            '*.to_py': Pure(lambda e, s, a, k: vany(TOPY(s.box(a[0]))), name='converter.to_py (C18)'),
            '*.find': Pure(find, name='lxml node.find(tag): first child with that tag or None', trusted=True),
            'lxml.etree.SubElement': Pure(sub_element, name='etree.SubElement(node, tag): new child', trusted=True),
            'etree.SubElement': Pure(sub_element, name='etree.SubElement(node, tag): new child', trusted=True),
            '*.remove': Pure(remove, name='lxml node.remove(child)', trusted=True),
        })
        ex.ctx.inline.add(f'{XS}:_XmlStructureBaseProperty.is_optional')
        ex.ctx.inline.add(f'{XS}:_ElementBase._get_element_by_child_name')
        ex.ctx.module_constants[f'{XS}:MANDATORY_VALUE_CHECKING'] = True
        outs = []
        dk0, dv0 = z3.Select(st.get_arr('DK'), self.children.e), z3.Select(st.get_arr('DV'), self.children.e)
        text0 = z3.Select(st.get_arr('f:text'), self.node.e)
        present = z3.Not(Val.is_none(v.e))

        def child_text(s):
            dv = z3.Select(s.get_arr('DV'), self.children.e)
            return z3.Select(s.get_arr('f:text'), Val.oid(z3.Select(dv, key)))
        for s1, r1 in run(st, self.targets_list[0], prop, [inst, self.node]):
            if isinstance(r1, Raise):
                ex.oblige(s1, 'write_refused_only_for_missing_mandatory_value', z3.And(
                    z3.BoolVal(r1.exc.cls == 'ValueError'), Val.is_none(v.e), z3.Not(self.optional.e), self.minlen.e > 0))
                ex.oblige(s1, 'refused_write_leaves_node_unchanged', z3.And(
                    z3.Select(s1.get_arr('DK'), self.children.e) == dk0, z3.Select(s1.get_arr('DV'), self.children.e) == dv0))
                continue
            dk1, dv1 = z3.Select(s1.get_arr('DK'), self.children.e), z3.Select(s1.get_arr('DV'), self.children.e)
            kq = z3.Const('kq', Val)
            ex.oblige(s1, 'other_children_untouched', z3.ForAll([kq], z3.Implies(kq != key, z3.And(
                z3.Select(dk1, kq) == z3.Select(dk0, kq), z3.Select(dv1, kq) == z3.Select(dv0, kq)))))
            ex.oblige(s1, 'own_text_of_the_node_untouched', z3.Select(s1.get_arr('f:text'), self.node.e) == text0)
            ex.oblige(s1, 'child_present_when_value_present', z3.Implies(present, z3.And(
                z3.Select(dk1, key), child_text(s1) == TOXML(v.e))))
            ex.oblige(s1, 'absent_optional_value_removes_the_child', z3.Implies(z3.And(z3.Not(present), self.optional.e),
                                                                                  z3.Not(z3.Select(dk1, key))))
            ex.oblige(s1, 'existing_child_is_reused', z3.Implies(z3.And(present, z3.Select(dk0, key)),
                                                                   z3.Select(dv1, key) == z3.Select(dv0, key)))
            for s2, r2 in run(s1, self.targets_list[1], prop, [inst, self.node]):
                if isinstance(r2, Raise):
                    ex.oblige(s2, 'read_never_raises', z3.BoolVal(False), info={'exc': repr(r2.exc)})
                    continue
                ex.oblige(s2, 'read_back_equals_written_value', z3.Implies(z3.Or(present, self.optional.e), s2.box(r2) == v.e))
                ex.oblige(s2, 'read_does_not_change_node', z3.And(
                    z3.Select(s2.get_arr('DK'), self.children.e) == dk1, z3.Select(s2.get_arr('DV'), self.children.e) == dv1,
                    z3.Implies(z3.Select(dk1, key), child_text(s2) == child_text(s1))))
                outs.append((s2, ('ret', r2)))
        return outs


class _UpdateFromNode(FnCheck):
    prop = 'C05'
    list_variant = False

    def setup(self, b):
        self.lvn = b.str('local_var_name')
        self.o = b.obj('self', cls=(XS, self.cls_name), _local_var_name=self.lvn)
        self.inst, self.node = b.obj('instance'), b.obj('node')
        b.distinct(self.o, self.inst, self.node)
        b.st.ghost['sets'] = ()
        return self.o, [self.inst, self.node], {}

    def callees(self, ex):
        ids = ex.ctx.builtin_class_ids

        def get(ex_, st, args, kwargs):
            if self.list_variant:
                # the list readers return a (possibly empty) list or None
                lst = st.alloc('list')
                st.set_list_seq(lst, fresh(SeqVal, 'read_list'))
                self_none = fresh(BoolS, 'reader_returns_none')
                st.ghost['c:none'] = self_none
                v = vany(z3.If(self_none, Val.none, Val.ref(lst.e)), maybe_none=True)
            else:
                v = vany(fresh(Val, 'read_value'), maybe_none=True)
            st.ghost['c:read'] = v.e
            st.ghost['c:read_args'] = (st.box(args[0]), st.box(args[1]))
            return v

        def setattr_(ex_, st, args, kwargs):
            st.ghost['sets'] += ((st.box(args[0]), st.box(args[1]), st.box(args[2])),)
            return NONE
        return {'*.get_py_value_from_node': Pure(get, name='get_py_value_from_node (C05 round-trip contracts)'),
                'setattr': Pure(setattr_, name='setattr(instance, name, value)')}

    def post(self, ex, st0, st, outcome, b):
        if outcome[0] == 'exc':
            ex.oblige(st, 'never_raises_itself', z3.BoolVal(False), info={'exc': repr(outcome[1])})
            return
        sets = st.ghost['sets']
        read = st.ghost.get('c:read')
        ex.oblige(st, 'value_is_read_from_the_given_node', z3.And(
            st.ghost['c:read_args'][0] == Val.ref(self.inst.e), st.ghost['c:read_args'][1] == Val.ref(self.node.e))
            if read is not None else z3.BoolVal(False))
        if read is None:
            return
        must_write = z3.Not(Val.is_none(read)) if self.list_variant else z3.BoolVal(True)
        ex.oblige(st, 'member_takes_the_value_read_from_xml', z3.Implies(must_write, z3.And(
            z3.BoolVal(len(sets) == 1), sets[0][0] == Val.ref(self.inst.e), sets[0][1] == Val.str(self.lvn.e), sets[0][2] == read)
            if len(sets) == 1 else z3.BoolVal(False)))
        ex.oblige(st, 'nothing_else_is_written', z3.BoolVal(len(sets) <= 1))


@register
class UpdateFromNodeScalar(_UpdateFromNode):
    id = 'C05.update_from_node'
    cls_name = '_XmlStructureBaseProperty'
    target = f'{XS}:_XmlStructureBaseProperty.update_from_node'
    doc = ('update_from_node (all scalar / single-element properties): the member always takes exactly the value read '
           'from the given node (also None / implied-value cases), so the result of reading depends on the XML only and '
           'never on what the object held before')


@register
class UpdateFromNodeList(_UpdateFromNode):
    id = 'C05.update_from_node_list'
    cls_name = '_ElementListProperty'
    list_variant = True
    target = f'{XS}:_ElementListProperty.update_from_node'
    doc = ('update_from_node of list-valued element properties: whenever the reader returns a list - including the empty '
           'list for XML without such elements - the member is replaced by it, so entries of an earlier content never '
           'survive a re-read')


# The attribute / text round-trip contracts above assume the converter lemma to_py(to_xml(v)) == v.  For the converters
# whose code is within the encoding (time stamps under the IEEE-754 error model, integers, booleans) the lemma itself is
# proved in contracts/C18.py; those proofs are re-checked under this property so that a converter regression is
# reported here as well.
from contracts import C18 as _c18   # noqa: E402


@register
class TimestampLemmaXml(_c18.TimestampXmlPyXml):
    id = 'C05.converter_lemma.timestamp_xml_py_xml'
    prop = 'C05'


@register
class TimestampLemmaPy(_c18.TimestampPyXmlPy):
    id = 'C05.converter_lemma.timestamp_py_xml_py'
    prop = 'C05'


@register
class IntegerLemma(_c18.IntegerRoundTrip):
    id = 'C05.converter_lemma.integer'
    prop = 'C05'


@register
class BooleanLemma(_c18.BooleanRoundTrip):
    id = 'C05.converter_lemma.boolean'
    prop = 'C05'


@register
class AllowedValuesIsEmpty(FnCheck):
    id = 'C05.allowed_values_is_empty'
    prop = 'C05'
    target = 'sdc11073.mdib.statecontainers:AllowedValuesType.is_empty'
    doc = ('AllowedValuesType.is_empty() - the test that decides whether pm:AllowedValues is written at all - is true '
           'exactly for "no value list" or an empty list: a list with one or more values is never dropped on writing')

    def setup(self, b):
        st = b.st
        self.is_none = b.bool('value_is_none')
        lst = b.obj('Value')
        st.assume(z3.Select(st.get_arr('C'), lst.e) == b.ex.ctx.builtin_class_ids['list'])
        self.seq = z3.Select(st.get_arr('L'), lst.e)
        self.o = b.obj('self', Value=vany(z3.If(self.is_none.e, Val.none, Val.ref(lst.e)), maybe_none=True))
        return self.o, [], {}

    def post(self, ex, st0, st, outcome, b):
        if outcome[0] == 'exc':
            ex.oblige(st, 'never_raises', z3.BoolVal(False), info={'exc': repr(outcome[1])})
            return
        ex.oblige(st, 'empty_iff_no_values', truthy(outcome[1], st) == z3.Or(self.is_none.e, z3.Length(self.seq) == 0))


# ---------------------------------------------------------------------------------------------------------------
# element-valued properties: the value is an object that serialises itself into a child element (structural induction
# over the type graph: the round trip of the value class itself is the induction hypothesis, stated as an assumption)
CANON = z3.Function('canonical_value', Val, Val)       # value semantics of a data-type object ("equal value")
SER = z3.Function('value_serialised_into', Val, Val)    # child element -> the value object it was written from


class _ElementValueRoundTrip(SeqCheck):
    prop = 'C05'
    prop_cls = ''
    writer = ''              # method of the value object that creates the child element
    optional_fields = ('text',)
    trusted = ('lxml find / SubElement / remove behave like a map tag -> first child',
               'induction hypothesis: value_class.from_node(child written by the value) yields an equal value '
               '(round trip of the nested class - bounded for the concrete classes by C05.datatype_roundtrip)')

    @property
    def targets_list(self):
        return (f'{XS}:{self.prop_cls}.update_xml_value', f'{XS}:{self.prop_cls}.get_py_value_from_node')

    def script(self, run, ex, st, b):
        from pyvc import models as m
        self.node, self.children = element_with_children(b, 'node')
        qn = b.obj('sub_element_name', cls='QName')
        name = vany(Val.ref(qn.e))
        key = name.e
        self.optional = b.bool('is_optional')
        vcls = b.obj('value_class')
        extra = {'_cls_getter': b.obj('cls_getter'), '_ns_helper': b.obj('ns_helper')} if self.prop_cls == 'ContainerProperty' else {}
        prop = b.obj('self', cls=(XS, self.prop_cls), _sub_element_name=name, _local_var_name=b.str('local_var_name'),
                     _is_optional=self.optional, value_class=vcls, _default_py_value=NONE, **extra)
        inst = b.obj('instance')
        vobj = b.obj('value_object')
        self.present = b.bool('value_present')
        v = vany(z3.If(self.present.e, Val.ref(vobj.e), Val.none), maybe_none=True, path='py_value')
        b.distinct(prop, inst, self.node, self.children, qn, vobj, vcls)
        dk0, dv0 = z3.Select(st.get_arr('DK'), self.children.e), z3.Select(st.get_arr('DV'), self.children.e)
        # a node that is written for the first time: it has no child of this property yet
        st.assume(z3.Not(z3.Select(dk0, key)))
        text0 = z3.Select(st.get_arr('f:text'), self.node.e)

        def find(ex_, s, args, kwargs):
            has = m.dict_has(s, self.children, args[0])
            return vany(z3.If(has, m.dict_val(s, self.children, args[0]), Val.none), maybe_none=True)

        def sub_element(ex_, s, args, kwargs):
            child = s.alloc('LxmlElement')
            s.write_field(child, 'tag', args[1])
            s.write_field(child, 'text', NONE)
            m.dict_set(ex_, s, self.children, args[1], child)
            return child

        def remove(ex_, s, args, kwargs):
            c = ex_.concrete_kind(s, args[0], ('ref',))
            m.dict_del(ex_, s, self.children, s.read_field(c, 'tag'))
            return NONE

        def write_child(ex_, s, args, kwargs):
            # value.as_etree_node(tag, nsmap, parent) / value.mk_node(tag, ns_helper, parent): a new child of `parent` with
            # that tag which holds the serialised value
            recv = s.ghost.get('c:recv')
            parent = ex_.concrete_kind(s, args[2], ('ref',)) if len(args) > 2 else None
            ex_.oblige(s, 'value_is_serialised_into_the_given_node', parent.e == self.node.e if parent is not None else z3.BoolVal(False))
            child = s.alloc('LxmlElement')
            s.write_field(child, 'tag', args[0])
            s.write_field(child, 'text', NONE)
            s.assume(SER(Val.ref(child.e)) == recv)
            m.dict_set(ex_, s, self.children, args[0], child)
            s.ghost['c:written'] = s.ghost.get('c:written', ()) + ((recv, s.box(args[0])),)
            return child

        def from_node(ex_, s, args, kwargs):
            # induction hypothesis: reading the child a value was written into gives an equal value (new object)
            r = s.alloc('Value')
            s.assume(CANON(Val.ref(r.e)) == CANON(SER(s.box(args[0]))))
            s.ghost['c:read_from'] = s.box(args[0])
            return r
        ex.ctx.callees.update({
            'getattr': Pure(lambda e, s, a, k: v, name='getattr(instance, local_var_name) -> stored value'),
            'hasattr': Pure(lambda e, s, a, k: vbool(fresh(BoolS, 'hasattr')), name='hasattr (unknown)'),
            'copy.deepcopy': Pure(lambda e, s, a, k: vany(z3.If(Val.is_none(s.box(a[0])), Val.none, Val.ref(s.alloc('Copy').e)), maybe_none=True),
                                  name='copy.deepcopy: None stays None, an object gives a new object', trusted=True),
            '*.find': Pure(find, name='lxml node.find(tag): first child with that tag or None', trusted=True),
            'lxml.etree.SubElement': Pure(sub_element, name='etree.SubElement(node, tag)', trusted=True),
            'etree.SubElement': Pure(sub_element, name='etree.SubElement(node, tag)', trusted=True),
            '*.remove': Pure(remove, name='lxml node.remove(child)', trusted=True),
            '*.' + self.writer: Pure(write_child, name=f'value.{self.writer}(tag, ns, parent): new child holding the value'),
            '*.value_class_from_node': Pure(lambda e, s, a, k: vcls, name='value_class.value_class_from_node(node)'),
            '*.from_node': Pure(from_node, name='value_class.from_node(child) (induction hypothesis)'),
            '*.set': Pure(lambda e, s, a, k: NONE, name='child.set(xsi:type, ...)'),
            '*.get': Pure(lambda e, s, a, k: NONE, name='child.get(xsi:type) -> None (no type substitution)'),
            f'{XS}:docname_from_qname': Pure(lambda e, s, a, k: vstr(fresh(StrS, 'docname')), name='docname_from_qname'),
            'sdc11073.namespaces:docname_from_qname': Pure(lambda e, s, a, k: vstr(fresh(StrS, 'docname')), name='docname_from_qname'),
        })
        ex.ctx.inline.add(f'{XS}:_XmlStructureBaseProperty.is_optional')
        ex.ctx.inline.add(f'{XS}:_ElementBase._get_element_by_child_name')
        ex.ctx.inline.add(f'{XS}:_ElementBase.remove_sub_element')
        ex.ctx.module_constants = dict(getattr(ex.ctx, 'module_constants', {}))
        ex.ctx.module_constants[f'{XS}:MANDATORY_VALUE_CHECKING'] = True
        outs = []
        for s1, r1 in run(st, self.targets_list[0], prop, [inst, self.node]):
            if isinstance(r1, Raise):
                ex.oblige(s1, 'write_refused_only_for_missing_mandatory_value', z3.And(
                    z3.BoolVal(r1.exc.cls == 'ValueError'), z3.Not(self.present.e), z3.Not(self.optional.e)), info={'exc': repr(r1.exc)})
                continue
            dk1, dv1 = z3.Select(s1.get_arr('DK'), self.children.e), z3.Select(s1.get_arr('DV'), self.children.e)
            kq = z3.Const('kq', Val)
            written = s1.ghost.get('c:written', ())
            ex.oblige(s1, 'other_children_untouched', z3.ForAll([kq], z3.Implies(kq != key, z3.And(
                z3.Select(dk1, kq) == z3.Select(dk0, kq), z3.Select(dv1, kq) == z3.Select(dv0, kq)))))
            ex.oblige(s1, 'own_text_of_the_node_untouched', z3.Select(s1.get_arr('f:text'), self.node.e) == text0)
            ex.oblige(s1, 'present_value_is_written_once_under_the_tag_of_the_property', z3.Implies(self.present.e, z3.And(
                z3.BoolVal(len(written) == 1), written[0][0] == Val.ref(vobj.e), written[0][1] == key) if len(written) == 1 else z3.BoolVal(False)))
            ex.oblige(s1, 'absent_value_writes_no_value', z3.Implies(z3.Not(self.present.e), z3.BoolVal(len(written) == 0)))
            ex.oblige(s1, 'absent_optional_value_leaves_no_child', z3.Implies(z3.And(z3.Not(self.present.e), self.optional.e),
                                                                               z3.Not(z3.Select(dk1, key))))
            for s2, r2 in run(s1, self.targets_list[1], prop, [inst, self.node]):
                if isinstance(r2, Raise):
                    ex.oblige(s2, 'read_never_raises', z3.BoolVal(False), info={'exc': repr(r2.exc)})
                    continue
                rb = s2.box(r2)
                ex.oblige(s2, 'read_back_is_an_equal_value', z3.Implies(self.present.e, z3.And(
                    Val.is_ref(rb), CANON(rb) == CANON(Val.ref(vobj.e)))))
                ex.oblige(s2, 'absent_optional_value_reads_back_as_none', z3.Implies(z3.And(z3.Not(self.present.e), self.optional.e),
                                                                                   Val.is_none(rb)))
                ex.oblige(s2, 'read_does_not_change_node', z3.And(
                    z3.Select(s2.get_arr('DK'), self.children.e) == dk1, z3.Select(s2.get_arr('DV'), self.children.e) == dv1))
                outs.append((s2, ('ret', r2)))
        return outs

    def hooks(self, ex):
        class H:
            tracked_names = ()

            @staticmethod
            def on_call(ex_, st, fv, keys, args, kwargs, node):
                if fv.t == 'method':
                    st.ghost['c:recv'] = st.box(fv.recv)
                return None
        return H


@register
class SubElementRoundTrip(_ElementValueRoundTrip):
    id = 'C05.sub_element_roundtrip'
    prop_cls = 'SubElementProperty'
    writer = 'as_etree_node'
    doc = ('SubElementProperty (data-type valued members, e.g. MetricValue, CoreData, Type): a present value is serialised '
           'exactly once, into the node being written, under the tag of the property, and reading the node back yields an '
           'equal value (through the round trip of the value class - induction hypothesis); an absent optional value '
           'writes nothing and reads back as None; a missing mandatory value is refused; other children and the text of '
           'the node are untouched; reading does not change the node. Precondition: the node has no child of this '
           'property yet (the method appends; writing twice into one node is not what the library does)')


@register
class ContainerPropertyRoundTrip(_ElementValueRoundTrip):
    id = 'C05.container_property_roundtrip'
    prop_cls = 'ContainerProperty'
    writer = 'mk_node'
    doc = ('ContainerProperty (container valued members, e.g. the state inside a report part): same obligations as '
           'C05.sub_element_roundtrip; an existing child of the property is removed before the value is written')


@register
class SubElementListRead(FnCheck):
    id = 'C05.sub_element_list_read'
    prop = 'C05'
    opaque_ok = True
    target = f'{XS}:SubElementListProperty.get_py_value_from_node'
    doc = ('SubElementListProperty.get_py_value_from_node (the reader of every unbounded list of data-type elements, e.g. '
           'pm:Identification): the result has one entry per child element, in document order, and the j-th entry is read '
           'from the j-th element with the class that element ITSELF selects (value_class_from_node: its xsi:type) - '
           'lists that mix derived types come back with the classes they were written with')

    def setup(self, b):
        st = b.st
        self.nodes = z3.Const('child_nodes', SeqVal)
        j = z3.Int('j!cn')
        st.assume(z3.ForAll([j], z3.Implies(z3.And(0 <= j, j < z3.Length(self.nodes)), z3.And(
            Val.is_ref(self.nodes[j]), Val.oid(self.nodes[j]) > 0, Val.oid(self.nodes[j]) < 10 ** 9))))
        self.cls_of = z3.Function('value_class_from_node', Val, Val)
        self.from_node = z3.Function('from_node', Val, Val, Val)
        v = z3.Const('v!cls', Val)
        st.assume(z3.ForAll([v], Val.is_ref(self.cls_of(v)), patterns=[self.cls_of(v)]))      # a class object
        self.o = b.obj('self', cls=(XS, 'SubElementListProperty'), _sub_element_name=b.any('sub_element_name'),
                       value_class=b.obj('declared_value_class'))
        return self.o, [b.obj('instance'), b.obj('node')], {}

    def callees(self, ex):
        def findall(ex_, st, args, kwargs):
            r = st.alloc('list')
            st.set_list_seq(r, self.nodes)
            return r

        def cls_from(ex_, st, args, kwargs):
            return vany(self.cls_of(st.box(args[0])))

        def from_node(ex_, st, args, kwargs):
            return vany(self.from_node(st.ghost['c:recv'], st.box(args[0])))
        return {'*.findall': Pure(findall, name='node.findall(name) -> the child elements in document order'),
                '*.value_class_from_node': Pure(cls_from, name='value_class_from_node(node) (uninterpreted: class selected by the node)'),
                '*.from_node': Pure(from_node, name='<class>.from_node(node) (uninterpreted function of class and node)')}

    def hooks(self, ex):
        class H:
            tracked_names = ()

            def on_call(self, ex_, st, fv, keys, args, kwargs, node):
                if fv.t == 'method':
                    st.ghost['c:recv'] = st.box(fv.recv)
                return None
        return H()

    def _ok(self, seq, k):
        j = z3.Int('j!ob')
        return z3.And(z3.Length(seq) == k, z3.ForAll([j], z3.Implies(z3.And(0 <= j, j < k),
                      seq[j] == self.from_node(self.cls_of(self.nodes[j]), self.nodes[j]))))

    def loops(self, ex):
        def inv(ex_, st, env):
            lst = ex_.concrete_kind(st, st.locals['objects'], ('ref',))
            if lst.kind != 'ref' or env['_seq'] is None:
                return z3.BoolVal(False)
            return z3.And(self._ok(st.list_seq(lst), env['_k']), env['_seq'] == self.nodes)
        return {0: LoopSpec(inv=inv, havoc_heap=['L'])}

    def post(self, ex, st0, st, outcome, b):
        if outcome[0] == 'exc':
            ex.oblige(st, 'never_raises', z3.BoolVal(False), info={'exc': repr(outcome[1])})
            return
        r = ex.concrete_kind(st, outcome[1], ('ref',))
        ex.oblige(st, 'one_entry_per_element_read_with_the_class_of_that_element',
                  self._ok(st.list_seq(r), z3.Length(self.nodes)) if r.kind == 'ref' else z3.BoolVal(False))
