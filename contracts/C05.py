"""C05 - BICEPS/WS-* data types round-trip losslessly through schema-valid XML."""
from __future__ import annotations

import z3

from pyvc.api import (FnCheck, SeqCheck, ScanCheck, LoopSpec, Pure, Inline, register, Build, V, Val, SeqVal, IntS, RealS,
                      BoolS, StrS, NONE, Raise, Unsupported, fresh, vany, vint, vreal, vbool, vstr, vref, as_int,
                      unbox_as, truthy, field)
from pyvc import models

XS = 'sdc11073.xml_types.xml_structure'
TOXML = z3.Function('to_xml', Val, Val)
TOPY = z3.Function('to_py', Val, Val)


def element(b, name):
    """lxml element modelled as an object whose `attrib` is a dict (node.set / attrib.get / del attrib[k])."""
    st = b.st
    attrib = b.obj(f'{name}.attrib')
    st.assume(z3.Select(st.get_arr('C'), attrib.e) == b.ex.ctx.builtin_class_ids['dict'])
    st.assume(z3.Select(st.get_arr('DN'), attrib.e) >= 0)
    node = b.obj(name, cls='LxmlElement', attrib=attrib)
    b.distinct(node, attrib)
    return node, attrib


@register
class AttributeRoundTrip(SeqCheck):
    id = 'C05.attribute_roundtrip'
    prop = 'C05'
    targets_list = (f'{XS}:_AttributeBase.update_xml_value', f'{XS}:_AttributeBase.get_py_value_from_node')
    container_hints = {}
    doc = ('attribute properties (all _AttributeBase descriptors): writing the stored value v and reading it back gives '
           'v (given the converter lemma to_py(to_xml(v)) == v, C18); an absent optional value removes the attribute and '
           'reads back as None; every other attribute of the node is untouched; writing the re-read value again gives '
           'the same attribute map (stable re-serialisation); a missing mandatory value is refused')
    trusted = ('lxml: node.set(k, v) / node.attrib behave like a string map', 'converter lemma to_py(to_xml(v)) == v (C18)')

    def script(self, run, ex, st, b):
        from pyvc import models as m
        self.node, self.attrib = element(b, 'node')
        name = b.str('attribute_name')
        lvn = b.str('local_var_name')
        conv = b.obj('converter')
        self.optional = b.bool('is_optional')
        prop = b.obj('self', cls=(XS, '_AttributeBase'), _attribute_name=name, _local_var_name=lvn, _converter=conv,
                     _is_optional=self.optional)
        inst = b.obj('instance')
        v = b.any('stored_value', maybe_none=True)
        b.distinct(prop, inst, self.node, self.attrib, conv)
        # converter lemma (C18) for the stored value; xml values are strings, never None
        st.assume(z3.Implies(z3.Not(Val.is_none(v.e)), z3.And(TOPY(TOXML(v.e)) == v.e, Val.is_str(TOXML(v.e)),
                                                             z3.Not(Val.is_none(TOPY(TOXML(v.e)))))))
        self.v, self.name, self.prop, self.inst = v, name, prop, inst
        ex.ctx.callees.update({
            'getattr': Pure(lambda e, s, a, k: v, name='getattr(instance, local_var_name) -> stored value'),
            '*.to_xml': Pure(lambda e, s, a, k: vany(TOXML(s.box(a[0]))), name='converter.to_xml (C18)'),
            '*.to_py': Pure(lambda e, s, a, k: vany(TOPY(s.box(a[0]))), name='converter.to_py (C18)'),
            '*.set': Pure(self._set, name='lxml node.set(name, value)', trusted=True),
        })
        ex.ctx.container_hints['node.attrib'] = 'dict'
        ex.ctx.inline.add(f'{XS}:_XmlStructureBaseProperty.is_optional')
        outs = []
        key = Val.str(name.e)
        dk0, dv0 = z3.Select(st.get_arr('DK'), self.attrib.e), z3.Select(st.get_arr('DV'), self.attrib.e)
        for s1, r1 in run(st, self.targets_list[0], prop, [inst, self.node]):
            if isinstance(r1, Raise):
                ex.oblige(s1, 'write_refused_only_for_missing_mandatory_value', z3.And(
                    z3.BoolVal(r1.exc.cls == 'ValueError'), Val.is_none(v.e), z3.Not(self.optional.e)))
                ex.oblige(s1, 'refused_write_leaves_node_unchanged', z3.And(
                    z3.Select(s1.get_arr('DK'), self.attrib.e) == dk0, z3.Select(s1.get_arr('DV'), self.attrib.e) == dv0))
                continue
            dk1, dv1 = z3.Select(s1.get_arr('DK'), self.attrib.e), z3.Select(s1.get_arr('DV'), self.attrib.e)
            kq = z3.Const('kq', Val)
            ex.oblige(s1, 'other_attributes_untouched', z3.ForAll([kq], z3.Implies(kq != key, z3.And(
                z3.Select(dk1, kq) == z3.Select(dk0, kq), z3.Select(dv1, kq) == z3.Select(dv0, kq)))))
            ex.oblige(s1, 'attribute_present_iff_value_present', z3.Select(dk1, key) == z3.Not(Val.is_none(v.e)))
            for s2, r2 in run(s1, self.targets_list[1], prop, [inst, self.node]):
                if isinstance(r2, Raise):
                    ex.oblige(s2, 'read_never_raises', z3.BoolVal(False), info={'exc': repr(r2.exc)})
                    continue
                ex.oblige(s2, 'read_back_equals_written_value', s2.box(r2) == v.e)
                ex.oblige(s2, 'read_does_not_change_node', z3.And(
                    z3.Select(s2.get_arr('DK'), self.attrib.e) == dk1, z3.Select(s2.get_arr('DV'), self.attrib.e) == dv1))
                # write the re-read value again: same attribute map
                old_get = ex.ctx.callees['getattr']
                ex.ctx.callees['getattr'] = Pure(lambda e, s, a, k, _r=r2: _r, name='getattr -> re-read value')
                try:
                    for s3, r3 in run(s2, self.targets_list[0], prop, [inst, self.node]):
                        if isinstance(r3, Raise):
                            ex.oblige(s3, 'rewrite_never_raises', z3.BoolVal(False))
                            continue
                        ex.oblige(s3, 'rewrite_is_stable', z3.And(
                            z3.Select(s3.get_arr('DK'), self.attrib.e) == dk1,
                            z3.Select(z3.Select(s3.get_arr('DV'), self.attrib.e), key) == z3.Select(dv1, key)))
                        outs.append((s3, ('ret', r3)))
                finally:
                    ex.ctx.callees['getattr'] = old_get
        return outs

    def _set(self, ex_, st, args, kwargs):
        from pyvc import models as m
        m.dict_set(ex_, st, self.attrib, args[0], args[1])
        return NONE
