"""C06 - consumer MDIB never regresses under lost, duplicated or reordered reports."""
from __future__ import annotations

import z3

from pyvc.api import (FnCheck, LoopSpec, Pure, Inline, register, Build, V, Val, SeqVal, IntS, RealS, BoolS, StrS, NONE,
                      Raise, Unsupported, fresh, vany, vint, vreal, vbool, vstr, vref, as_int, unbox_as, truthy, field)
from pyvc.state import FRESH_BASE
from contracts.lib import is_lock

CM = 'sdc11073.mdib.consumermdib'
STATE_NAMES = ('initializing', 'initialized', 'invalid')


def mk_mdib(b: Build, name='self'):
    st = b.st
    f = {'mdib_version': b.int('mdib_version'), 'sequence_id': b.any('sequence_id'),
         'instance_id': b.any('instance_id', maybe_none=True), '_state': b.any('state')}
    st.assume(z3.And(Val.is_str(f['sequence_id'].e), z3.Or(Val.is_none(f['instance_id'].e), Val.is_int(f['instance_id'].e))))
    o = b.obj(name, cls=(CM, 'ConsumerMdib'), **f)
    return o, f


def state_const(ex, name):
    """The engine's representation of ConsumerMdibState.<name> (distinct opaque constants)."""
    mod = ex.repo.module(CM)
    outs = ex.class_attr(None, V('class', py=(CM, 'ConsumerMdibState')), name, None, None) if False else None
    v = ex.eval_constant(mod, ex.repo.class_attr(CM, 'ConsumerMdibState', name)[1],
                         f'{CM}:ConsumerMdibState.{name}', f'ConsumerMdibState.{name}', None)
    return Val.ref(v.e)


def mk_group(b: Build, name='group'):
    f = {'mdib_version': b.int(f'{name}.mdib_version'), 'sequence_id': b.any(f'{name}.sequence_id'),
         'instance_id': b.any(f'{name}.instance_id', maybe_none=True)}
    b.st.assume(z3.And(Val.is_str(f['sequence_id'].e), z3.Or(Val.is_none(f['instance_id'].e), Val.is_int(f['instance_id'].e))))
    return b.obj(name, **f), f


@register
class CanAcceptMdibVersion(FnCheck):
    id = 'C06.can_accept_mdib_version'
    prop = 'C06'
    target = f'{CM}:ConsumerMdib._can_accept_mdib_version'
    doc = '_can_accept_mdib_version(new) <=> check disabled OR new >= current MdibVersion (stale reports are refused); no side effect'

    def setup(self, b):
        self.o, self.f = mk_mdib(b)
        self.new = b.int('new_mdib_version')
        self.disabled = b.bool('check_disabled')
        return self.o, [self.new, b.str('log_prefix')], {}

    def hooks(self, ex):
        chk = self

        class H:
            tracked_names = ()

            @staticmethod
            def on_attr_read(ex_, st, o, attr, node):
                if attr == 'MDIB_VERSION_CHECK_DISABLED':
                    return [(st, vbool(chk.disabled.e))]
                return None
        return H

    def post(self, ex, st0, st, outcome, b):
        if outcome[0] == 'exc':
            ex.oblige(st, 'never_raises', z3.BoolVal(False), info={'exc': repr(outcome[1])})
            return
        ex.oblige(st, 'spec', truthy(outcome[1], st) == z3.Or(self.disabled.e, self.new.e >= self.f['mdib_version'].e))
        ex.oblige(st, 'no_side_effect', field(st, self.o, 'mdib_version') == field(st0, self.o, 'mdib_version'))


@register
class UsableStateVersion(FnCheck):
    id = 'C06.state_version_gate'
    prop = 'C06'
    target = f'{CM}:ConsumerMdib._has_new_state_usable_state_version'
    doc = '_has_new_state_usable_state_version(old, new) <=> new.StateVersion > old.StateVersion (equal or lower versions are refused)'

    def setup(self, b):
        self.o, _ = mk_mdib(b)
        self.ov, self.nv = b.int('old_version'), b.int('new_version')
        old = b.obj('old_state', StateVersion=self.ov, DescriptorHandle=b.str('h'))
        new = b.obj('new_state', StateVersion=self.nv)
        return self.o, [old, new, b.str('report_name')], {}

    def post(self, ex, st0, st, outcome, b):
        if outcome[0] == 'exc':
            ex.oblige(st, 'never_raises', z3.BoolVal(False), info={'exc': repr(outcome[1])})
            return
        ex.oblige(st, 'spec', truthy(outcome[1], st) == (self.nv.e > self.ov.e))


@register
class IdWatchdog(FnCheck):
    id = 'C06.id_watchdog'
    prop = 'C06'
    target = f'{CM}:ConsumerMdib._check_sequence_or_instance_id_changed'
    doc = ('sequence/instance id watchdog: equal ids change nothing; different ids in state initialized switch the MDIB '
           'to invalid (and trigger the changed-event); in the other states nothing changes; versions and ids of the '
           'MDIB are never touched here')

    def setup(self, b):
        self.o, self.f = mk_mdib(b)
        self.g, self.gf = mk_group(b)
        return self.o, [self.g], {}

    def callees(self, ex):
        def thread(ex_, st, args, kwargs):
            st.ghost['c:event_thread'] = True
            return st.alloc('Thread')
        return {'threading.Thread': Pure(thread, name='threading.Thread(target=_set_observable)'),
                '*.start': Pure(lambda e, s, a, k: NONE, name='Thread.start')}

    def post(self, ex, st0, st, outcome, b):
        if outcome[0] == 'exc':
            ex.oblige(st, 'never_raises', z3.BoolVal(False), info={'exc': repr(outcome[1])})
            return
        same = z3.And(self.gf['sequence_id'].e == self.f['sequence_id'].e, self.gf['instance_id'].e == self.f['instance_id'].e)
        INIT, INVALID = state_const(ex, 'initialized'), state_const(ex, 'invalid')
        s0, s1 = self.f['_state'].e, field(st, self.o, '_state')
        ex.oblige(st, 'same_ids_change_nothing', z3.Implies(same, s1 == s0))
        ex.oblige(st, 'changed_ids_invalidate_initialized_mdib', z3.Implies(z3.And(z3.Not(same), s0 == INIT), s1 == INVALID))
        ex.oblige(st, 'other_states_untouched', z3.Implies(s0 != INIT, s1 == s0))
        for fld in ('mdib_version', 'sequence_id', 'instance_id'):
            ex.oblige(st, f'frame.{fld}', field(st, self.o, fld) == field(st0, self.o, fld))
        ex.oblige(st, 'event_raised_iff_invalidated', z3.BoolVal(bool(st.ghost.get('c:event_thread'))) ==
                  z3.And(z3.Not(same), s0 == INIT))


@register
class PreCheck(FnCheck):
    id = 'C06.pre_check_report'
    prop = 'C06'
    target = f'{CM}:ConsumerMdib._pre_check_report_ok'
    container_hints = {'self._buffered_notifications': 'list'}
    doc = ('_pre_check_report_ok: in state invalid (also when this very report invalidates the MDIB) the report is '
           'refused and nothing is buffered; in state initializing it is appended to the buffer exactly once, under the '
           'buffer lock with the state re-checked inside, and refused for direct processing; only in state initialized '
           'it is accepted and not buffered => a report is buffered xor processed')

    def setup(self, b):
        st = b.st
        self.o, self.f = mk_mdib(b)
        self.buf = b.obj('buffer')
        st.assume(z3.Select(st.get_arr('C'), self.buf.e) == b.ex.ctx.builtin_class_ids['list'])
        b.set(self.o, '_buffered_notifications', self.buf)
        self.buf0 = z3.Select(st.get_arr('L'), self.buf.e)
        self.g, self.gf = mk_group(b)
        b.distinct(self.o, self.buf, self.g)
        # type invariant: the state is one of the three enum members
        st.assume(z3.Or(*[self.f['_state'].e == state_const(b.ex, n) for n in STATE_NAMES]))
        return self.o, [self.g, b.any('report'), b.any('handler')], {}

    def callees(self, ex):
        def watchdog(ex_, st, args, kwargs):
            # contract of _check_sequence_or_instance_id_changed (C06.id_watchdog)
            same = z3.And(self.gf['sequence_id'].e == self.f['sequence_id'].e,
                          self.gf['instance_id'].e == self.f['instance_id'].e)
            s0 = z3.Select(st.get_arr('f:_state'), self.o.e)
            new = z3.If(z3.And(z3.Not(same), s0 == state_const(ex_, 'initialized')), state_const(ex_, 'invalid'), s0)
            st.set_arr('f:_state', z3.Store(st.get_arr('f:_state'), self.o.e, new))
            return NONE
        return {f'{CM}:ConsumerMdib._check_sequence_or_instance_id_changed': Pure(watchdog, name='id watchdog (C06.id_watchdog)'),
                f'{CM}:_BufferedData': Pure(lambda e, s, a, k: s.alloc('_BufferedData'), name='_BufferedData(...)')}

    def hooks(self, ex):
        chk = self

        class H:
            tracked_names = ('append',)

            @staticmethod
            def on_with_enter(ex_, st, key, cm, node):
                st.ghost['held'] = st.ghost.get('held', ()) + (key,)
                # another thread (reload_all) may have changed the state before the lock was acquired
                nv = fresh(Val, 'state_after_wait')
                st.assume(z3.Or(*[nv == state_const(ex_, n) for n in STATE_NAMES]))
                st.ghost['c:state_in_lock'] = nv
                st.set_arr('f:_state', z3.Store(st.get_arr('f:_state'), chk.o.e, nv))

            @staticmethod
            def on_with_exit(ex_, st, key, cm, node, sig):
                st.ghost['held'] = st.ghost.get('held', ())[:-1]
        return H

    def post(self, ex, st0, st, outcome, b):
        if outcome[0] == 'exc':
            ex.oblige(st, 'never_raises', z3.BoolVal(False), info={'exc': repr(outcome[1])})
            return
        INIT, INVALID, INITIALIZING = (state_const(ex, n) for n in ('initialized', 'invalid', 'initializing'))
        same = z3.And(self.gf['sequence_id'].e == self.f['sequence_id'].e, self.gf['instance_id'].e == self.f['instance_id'].e)
        s0 = self.f['_state'].e
        eff = z3.If(z3.And(z3.Not(same), s0 == INIT), INVALID, s0)     # state after the watchdog
        ok = truthy(outcome[1], st)
        buf1 = z3.Select(st.get_arr('L'), self.buf.e)
        appended = z3.Length(buf1) == z3.Length(self.buf0) + 1
        unchanged = buf1 == self.buf0
        ex.oblige(st, 'buffer_grows_by_at_most_one', z3.Or(appended, unchanged))
        ex.oblige(st, 'invalid_refuses_and_buffers_nothing', z3.Implies(eff == INVALID, z3.And(z3.Not(ok), unchanged)))
        ex.oblige(st, 'changed_ids_stop_updates', z3.Implies(z3.And(z3.Not(same), s0 == INIT), z3.Not(ok)))
        ex.oblige(st, 'accepted_implies_not_buffered', z3.Implies(ok, unchanged))
        ex.oblige(st, 'refused_in_initializing_means_buffered', z3.Implies(z3.And(eff == INITIALIZING, z3.Not(ok)), appended))
        inlock = st.ghost.get('c:state_in_lock')
        if inlock is not None:
            ex.oblige(st, 'buffered_only_if_still_initializing_inside_lock', z3.Implies(appended, inlock == INITIALIZING))
            ex.oblige(st, 'initialized_meanwhile_is_processed_directly', z3.Implies(inlock != INITIALIZING, z3.And(ok, unchanged)))
        else:
            ex.oblige(st, 'no_buffering_outside_lock', unchanged)
        ex.oblige(st, 'initialized_accepts', z3.Implies(eff == INIT, z3.And(ok, unchanged)))


@register
class UpdateVersionGroup(FnCheck):
    id = 'C06.update_version_group'
    prop = 'C06'
    target = f'{CM}:ConsumerMdib._update_from_mdib_version_group'
    doc = 'after _update_from_mdib_version_group(g) the MDIB carries exactly g.mdib_version, g.sequence_id, g.instance_id'

    def setup(self, b):
        self.o, self.f = mk_mdib(b)
        self.g, self.gf = mk_group(b)
        return self.o, [self.g], {}

    def post(self, ex, st0, st, outcome, b):
        if outcome[0] == 'exc':
            ex.oblige(st, 'never_raises', z3.BoolVal(False))
            return
        ex.oblige(st, 'version_group_copied', z3.And(
            field(st, self.o, 'mdib_version') == Val.int(self.gf['mdib_version'].e),
            field(st, self.o, 'sequence_id') == self.gf['sequence_id'].e,
            field(st, self.o, 'instance_id') == self.gf['instance_id'].e))
        ex.oblige(st, 'state_untouched', field(st, self.o, '_state') == field(st0, self.o, '_state'))


REPORT_KINDS = {
    'metric': ('process_incoming_metric_states_report', '_process_incoming_metric_states_report', 'metrics_by_handle', '_update_from_states_report'),
    'alert': ('process_incoming_alert_states_report', '_process_incoming_alert_states_report', 'alert_by_handle', '_update_from_states_report'),
    'operational': ('process_incoming_operational_states_report', '_process_incoming_operational_states_report', 'operation_by_handle', '_update_from_states_report'),
    'context': ('process_incoming_context_states_report', '_process_incoming_context_states_report', 'context_by_handle', '_update_from_context_states_report'),
    'component': ('process_incoming_component_states_report', '_process_incoming_component_states_report', 'component_by_handle', '_update_from_states_report'),
    'waveform': ('process_incoming_waveform_states', '_process_incoming_waveform_states', None, None),
    'description': ('process_incoming_description_modifications', '_process_incoming_description_modifications', None, None),
}


def _mk_public(kind):
    pub, priv, obs, upd = REPORT_KINDS[kind]

    class Public(FnCheck):
        id = f'C06.entry.{kind}'
        prop = 'C06'
        opaque_ok = True
        target = f'{CM}:ConsumerMdib.{pub}'
        doc = (f'{pub}: a report refused by the pre-check (invalid MDIB, changed ids, buffered while initialising) reaches '
               f'no update code at all; an accepted report is processed exactly once, inside mdib_lock, by {priv} with '
               'the same version group and report')

        def setup(self, b):
            self.o, self.f = mk_mdib(b)
            self.g, _ = mk_group(b)
            self.report = b.any('report')
            self.ok = b.bool('pre_check_ok')
            return self.o, [self.g, self.report], {}

        def callees(self, ex):
            def pre(ex_, st, args, kwargs):
                st.ghost['c:pre_args'] = (st.box(args[0]), st.box(args[1]), args[2])
                return vbool(self.ok.e)

            def proc(ex_, st, args, kwargs):
                st.ghost['processed'] = st.ghost.get('processed', ()) + ((st.box(args[0]), st.box(args[1]), held_mdib(st)),)
                return [(st.fork(), Raise(ex_.mk_exc('*', priv))), (st, NONE)]
            return {f'{CM}:ConsumerMdib._pre_check_report_ok': Pure(pre, name='_pre_check_report_ok (C06.pre_check_report)'),
                    f'{CM}:ConsumerMdib.{priv}': Pure(proc, name=f'{priv} (C06.gate.{kind})')}

        def hooks(self, ex):
            class H:
                tracked_names = ()

                @staticmethod
                def on_with_enter(ex_, st, key, cm, node):
                    st.ghost['locks'] = st.ghost.get('locks', ()) + (key,)

                @staticmethod
                def on_with_exit(ex_, st, key, cm, node, sig):
                    st.ghost['locks'] = st.ghost.get('locks', ())[:-1]
            return H

        def post(self, ex, st0, st, outcome, b):
            processed = st.ghost.get('processed', ())
            if outcome[0] == 'exc':
                ex.oblige(st, 'only_processing_errors_escape', z3.BoolVal(priv in outcome[1].origin), info={'exc': repr(outcome[1])})
            ex.oblige(st, 'processed_iff_pre_check_ok', z3.BoolVal(len(processed) == 1) == self.ok.e)
            ex.oblige(st, 'processed_at_most_once', z3.BoolVal(len(processed) <= 1))
            pa = st.ghost.get('c:pre_args')
            ex.oblige(st, 'pre_check_consulted_with_this_report', z3.BoolVal(pa is not None) if pa is None else z3.And(
                pa[0] == Val.ref(self.g.e), pa[1] == self.report.e,
                z3.BoolVal(pa[2].kind == 'func' and getattr(pa[2].py, 'qual', '').endswith('.' + priv))))
            if processed:
                ex.oblige(st, 'processed_under_mdib_lock_with_same_arguments', z3.And(
                    processed[0][0] == Val.ref(self.g.e), processed[0][1] == self.report.e, z3.BoolVal(processed[0][2])))
    Public.__name__ = f'Public_{kind}'
    return Public


def held_mdib(st):
    return any(is_lock(k, 'mdib_lock') for k in st.ghost.get('locks', ()))


for _k in REPORT_KINDS:
    register(_mk_public(_k))


def _mk_gate(kind):
    pub, priv, obs, upd = REPORT_KINDS[kind]

    class Gate(FnCheck):
        id = f'C06.gate.{kind}'
        prop = 'C06'
        opaque_ok = True
        target = f'{CM}:ConsumerMdib.{priv}'
        doc = (f'{priv}: when the MdibVersion gate refuses the report (stale), neither the version group nor any table is '
               f'touched and the observable {obs} is set to an empty dict; otherwise the version group is taken over '
               f'before {upd} runs and the observable receives exactly its result')

        def setup(self, b):
            self.o, self.f = mk_mdib(b)
            self.g, self.gf = mk_group(b)
            self.report = b.any('report')
            self.accept = b.bool('gate_accepts')
            return self.o, [self.g, self.report], {}

        def callees(self, ex):
            def gate(ex_, st, args, kwargs):
                st.ghost['c:gate_arg'] = st.box(args[0])
                return vbool(self.accept.e)

            def upd_group(ex_, st, args, kwargs):
                st.ghost['order'] = st.ghost.get('order', ()) + ('group',)
                st.ghost['c:group_arg'] = st.box(args[0])
                return NONE

            def update(ex_, st, args, kwargs):
                st.ghost['order'] = st.ghost.get('order', ()) + ('update',)
                d = st.new_dict()
                st.ghost['c:update_result'] = d
                st.ghost['c:update_report'] = st.box(args[-1])
                return [(st.fork(), Raise(ex_.mk_exc('*', upd))), (st, d)]
            return {f'{CM}:ConsumerMdib._can_accept_mdib_version': Pure(gate, name='MdibVersion gate (C06.can_accept_mdib_version)'),
                    f'{CM}:ConsumerMdib._update_from_mdib_version_group': Pure(upd_group, name='C06.update_version_group'),
                    f'{CM}:ConsumerMdib.{upd}': Pure(update, name=f'{upd} (C06.update_states)')}

        def hooks(self, ex):
            chk = self

            class H:
                tracked_names = (obs,)

                @staticmethod
                def on_attr_write(ex_, st, o, attr, val, node):
                    if attr == obs:
                        st.ghost['observable'] = st.ghost.get('observable', ()) + (val,)
                        return [(st, None)]
                    return None
            return H

        def post(self, ex, st0, st, outcome, b):
            order = st.ghost.get('order', ())
            obsv = st.ghost.get('observable', ())
            if outcome[0] == 'exc':
                ex.oblige(st, 'only_update_errors_escape', z3.BoolVal(upd in outcome[1].origin), info={'exc': repr(outcome[1])})
            ex.oblige(st, 'gate_uses_report_version', st.ghost['c:gate_arg'] == Val.int(self.gf['mdib_version'].e)
                      if 'c:gate_arg' in st.ghost else z3.BoolVal(False))
            ex.oblige(st, 'stale_report_touches_nothing', z3.Implies(z3.Not(self.accept.e), z3.BoolVal(order == ())))
            ex.oblige(st, 'accepted_report_updates_group_then_states', z3.Implies(self.accept.e, z3.BoolVal(order == ('group', 'update'))))
            ex.oblige(st, 'observable_set_exactly_once', z3.BoolVal(len(obsv) == 1))
            if len(obsv) == 1 and outcome[0] == 'ret':
                v = obsv[0]
                if 'c:update_result' in st.ghost:
                    ex.oblige(st, 'observable_is_update_result', st.box(v) == Val.ref(st.ghost['c:update_result'].e))
                    ex.oblige(st, 'update_ran_on_this_report', z3.And(st.ghost['c:update_report'] == self.report.e,
                                                                    st.ghost['c:group_arg'] == Val.ref(self.g.e)))
                else:
                    vv = ex.concrete_kind(st, v, ('ref',))
                    ex.oblige(st, 'stale_report_announces_no_change', z3.Select(st.get_arr('DN'), vv.e) == 0
                              if vv.kind == 'ref' else z3.BoolVal(False))
    Gate.__name__ = f'Gate_{kind}'
    return Gate


for _k in ('metric', 'alert', 'operational', 'context', 'component'):
    register(_mk_gate(_k))


def oid_of(ex, st, v):
    v = ex.concrete_kind(st, v, ('ref',))
    return v.e if v.kind == 'ref' else Val.oid(v.e)


A_VB = z3.ArraySort(Val, BoolS)
A_VI = z3.ArraySort(Val, IntS)


class _UpdateStates(FnCheck):
    """Abstract table: handle -> stored StateVersion. Ghost: changed handles, pending (not re-indexed) in-place update."""
    prop = 'C06'
    key_field = 'DescriptorHandle'
    feasibility_timeout_ms = 500

    def setup(self, b):
        st = b.st
        self.o, self.f = mk_mdib(b)
        self.has0 = z3.Const('tbl_has0', A_VB)
        self.ver0 = z3.Const('tbl_ver0', A_VI)
        st.ghost['tbl_has'] = self.has0
        st.ghost['tbl_ver'] = self.ver0
        st.ghost['changed'] = z3.K(Val, z3.BoolVal(False))
        st.ghost['dirty'] = z3.IntVal(0)
        st.ghost['dirty_key'] = Val.none
        parts = b.obj('report_parts')
        st.assume(z3.Select(st.get_arr('C'), parts.e) == b.ex.ctx.builtin_class_ids['list'])
        self.report = b.obj('report', ReportPart=parts)
        return self.o, self.args(b), {}

    def args(self, b):
        return [b.str('report_type'), self.report]

    def callees(self, ex):
        kf = self.key_field

        def get_one(ex_, st, args, kwargs):
            h = st.box(args[0])
            ex_.oblige(st, 'lookup_only_on_consistent_index', st.ghost['dirty'] == 0)
            an = kwargs.get('allow_none')
            ex_.oblige(st, 'lookup_tolerates_unknown_handle', truthy(an, st) if an is not None else z3.BoolVal(False))
            old = st.alloc('StoredState')
            st.write_field(old, kf, vany(h))
            st.write_field(old, 'StateVersion', vint(z3.Select(st.ghost['tbl_ver'], h)))
            st.write_field(old, '__stored__', vbool(True))
            r = vany(z3.If(z3.Select(st.ghost['tbl_has'], h), Val.ref(old.e), Val.none), maybe_none=True)
            return r

        def usable(ex_, st, args, kwargs):
            o, n = args[0], args[1]
            ov = Val.i(z3.Select(st.get_arr('f:StateVersion'), oid_of(ex_, st, o)))
            nv = Val.i(z3.Select(st.get_arr('f:StateVersion'), oid_of(ex_, st, n)))
            st.ghost['c:gate'] = st.ghost.get('c:gate', ()) + ((st.box(o), st.box(n)),)
            return vbool(nv > ov)

        def update_from_other(ex_, st, args, kwargs):
            pass
        return {'*.get_one': Pure(get_one, name='unique index get_one(handle, allow_none=True) (C11)'),
                f'{CM}:ConsumerMdib._has_new_state_usable_state_version': Pure(usable, name='StateVersion gate (C06.state_version_gate)'),
                'sdc11073.mdib.mdibbase:MdibBase._set_descriptor_container_reference': Pure(lambda e, s, a, k: NONE, name='_set_descriptor_container_reference')}

    def hooks(self, ex):
        chk = self
        kf = self.key_field

        class H:
            tracked_names = ('update_from_other_container', 'update_object', 'add_object')

            @staticmethod
            def on_call(ex_, st, fv, keys, args, kwargs, node):
                if fv.t != 'method':
                    return None
                if fv.name == 'update_from_other_container':
                    old_e, new_e = oid_of(ex_, st, fv.recv), oid_of(ex_, st, args[0])
                    h = z3.Select(st.get_arr('f:' + kf), old_e)
                    ov = z3.Select(st.ghost['tbl_ver'], h)
                    nv = Val.i(z3.Select(st.get_arr('f:StateVersion'), new_e))
                    ex_.oblige(st, 'update_only_with_strictly_newer_state_version', nv > ov)
                    ex_.oblige(st, 'update_only_with_state_of_same_handle',
                               z3.Select(st.get_arr('f:' + kf), new_e) == h)
                    ex_.oblige(st, 'updated_object_is_the_stored_one', z3.And(
                        z3.Select(st.ghost['tbl_has'], h), z3.Select(st.get_arr('f:__stored__'), old_e) == Val.bool(True)))
                    ex_.oblige(st, 'no_pending_unindexed_update', st.ghost['dirty'] == 0)
                    st.ghost['tbl_ver'] = z3.Store(st.ghost['tbl_ver'], h, nv)
                    st.ghost['dirty'] = z3.IntVal(1)
                    st.ghost['dirty_key'] = h
                    return [(st, NONE)]
                if fv.name == 'update_object':
                    x_e = oid_of(ex_, st, args[0])
                    h = z3.Select(st.get_arr('f:' + kf), x_e)
                    ex_.oblige(st, 'reindexed_object_is_the_updated_one', z3.And(st.ghost['dirty'] == 1, st.ghost['dirty_key'] == h))
                    st.ghost['dirty'] = z3.IntVal(0)
                    st.ghost['changed'] = z3.Store(st.ghost['changed'], h, True)
                    return [(st, NONE)]
                if fv.name in ('add_object', 'add_object_no_lock'):
                    x_e = oid_of(ex_, st, args[0])
                    h = z3.Select(st.get_arr('f:' + kf), x_e)
                    ex_.oblige(st, 'added_only_if_handle_unknown', z3.Not(z3.Select(st.ghost['tbl_has'], h)))
                    st.ghost['tbl_has'] = z3.Store(st.ghost['tbl_has'], h, True)
                    st.ghost['tbl_ver'] = z3.Store(st.ghost['tbl_ver'], h, Val.i(z3.Select(st.get_arr('f:StateVersion'), x_e)))
                    st.ghost['changed'] = z3.Store(st.ghost['changed'], h, True)
                    return [(st, NONE)]
                return None
        return H

    def inv(self, ex_, st, env):
        res = st.locals.get('states_by_handle')
        if res is None:
            raise Unsupported('result dict local `states_by_handle` not found (renamed?)')
        k = z3.Const('k!inv', Val)
        dom = z3.Select(st.get_arr('DK'), res.e)
        return {
            'index_consistent': st.ghost['dirty'] == 0,
            'notification_keys_are_the_changed_handles': z3.ForAll([k], z3.Select(dom, k) == z3.Select(st.ghost['changed'], k)),
            'stored_versions_never_decrease': z3.ForAll([k], z3.Implies(z3.Select(self.has0, k), z3.And(
                z3.Select(st.ghost['tbl_has'], k), z3.Select(st.ghost['tbl_ver'], k) >= z3.Select(self.ver0, k)))),
            'changed_handles_are_stored': z3.ForAll([k], z3.Implies(z3.Select(st.ghost['changed'], k), z3.Select(st.ghost['tbl_has'], k))),
            'unchanged_handles_keep_their_state': z3.ForAll([k], z3.Implies(z3.Not(z3.Select(st.ghost['changed'], k)), z3.And(
                z3.Select(st.ghost['tbl_has'], k) == z3.Select(self.has0, k),
                z3.Select(st.ghost['tbl_ver'], k) == z3.Select(self.ver0, k))))}

    def loops(self, ex):
        hv = ['DK', 'DV', 'DN']
        return {0: LoopSpec(inv=self.inv, havoc_heap=hv), 1: LoopSpec(inv=self.inv, havoc_heap=hv)}

    def post(self, ex, st0, st, outcome, b):
        if outcome[0] == 'exc':
            ex.oblige(st, 'never_raises', z3.BoolVal(False), info={'exc': repr(outcome[1])})
            return
        r = ex.concrete_kind(st, outcome[1], ('ref',))
        k = z3.Const('k!post', Val)
        dom = z3.Select(st.get_arr('DK'), r.e)
        ex.oblige(st, 'notification_keys_are_exactly_the_changed_handles',
                  z3.ForAll([k], z3.Select(dom, k) == z3.Select(st.ghost['changed'], k)))
        ex.oblige(st, 'index_consistent_on_return', st.ghost['dirty'] == 0)
        ex.oblige(st, 'state_versions_never_decrease', z3.ForAll([k], z3.Implies(z3.Select(self.has0, k), z3.And(
            z3.Select(st.ghost['tbl_has'], k), z3.Select(st.ghost['tbl_ver'], k) >= z3.Select(self.ver0, k)))))
        ex.oblige(st, 'unchanged_handles_keep_their_version', z3.ForAll([k], z3.Implies(
            z3.Not(z3.Select(st.ghost['changed'], k)),
            z3.And(z3.Select(st.ghost['tbl_has'], k) == z3.Select(self.has0, k),
                   z3.Select(st.ghost['tbl_ver'], k) == z3.Select(self.ver0, k)))))


@register
class UpdateFromStatesReport(_UpdateStates):
    id = 'C06.update_states'
    target = f'{CM}:ConsumerMdib._update_from_states_report'
    doc = ('_update_from_states_report (any report, any table): a stored state is overwritten only by a report state of '
           'the same descriptor handle with a strictly higher StateVersion and is re-indexed before the next lookup; '
           'unknown handles are added; stored versions never decrease, untouched handles keep their state; the '
           'returned dict (the change notification) has exactly the changed handles as keys')


@register
class UpdateFromContextStatesReport(_UpdateStates):
    id = 'C06.update_context_states'
    key_field = 'Handle'
    target = f'{CM}:ConsumerMdib._update_from_context_states_report'
    doc = 'same obligations as C06.update_states for context states, keyed by the context state Handle'

    def args(self, b):
        return [self.report]


@register
class ReloadAll(FnCheck):
    id = 'C06.reload_all'
    prop = 'C06'
    opaque_ok = True
    target = f'{CM}:ConsumerMdib.reload_all'
    container_hints = {'self._buffered_notifications': 'list'}
    field_types = {'mdib_version': 'int', 'sequence_id': 'str'}
    doc = ('reload_all: the MDIB switches to initializing (reports are buffered from then on) before the tables are cleared, '
           'everything happens inside mdib_lock; the version group is taken from the GetMdib response; each buffered '
           'report is replayed exactly when it carries the loaded sequence id and an MdibVersion above the loaded one '
           '(decision proved per buffered report, in buffer order), with its own version group and data; the buffer is '
           'emptied and the state becomes initialized inside the buffer lock, so no report is lost or applied twice')

    def setup(self, b):
        st = b.st
        self.o, self.f = mk_mdib(b)
        self.buf = b.obj('buffer')
        st.assume(z3.Select(st.get_arr('C'), self.buf.e) == b.ex.ctx.builtin_class_ids['list'])
        b.set(self.o, '_buffered_notifications', self.buf)
        self.resp_group, self.rgf = mk_group(b, 'loaded')
        self.resp = b.obj('response', mdib_version_group=self.resp_group)
        b.distinct(self.o, self.buf, self.resp, self.resp_group)
        st.ghost['steps'] = ()
        return self.o, [], {}

    def callees(self, ex):
        def step(name, result=None, raises=()):
            def fn(ex_, st, args, kwargs):
                st.ghost['steps'] = st.ghost['steps'] + ((name, locks(st)),)
                return result(st) if result else NONE
            return Pure(fn, name=name, raises=raises)

        def handler(ex_, st, args, kwargs):
            st.ghost['called'] = st.ghost.get('called', ()) + ((st.box(args[0]), st.box(args[1]), locks(st)),)
            return [(st.fork(), Raise(ex_.mk_exc('*', 'buffered handler'))), (st, NONE)]
        return {
            'self.descriptions.clear': step('clear_descriptions'), f'sdc11073.mdib.mdibbase:MdibBase.clear_states': step('clear_states'),
            '*.client': Pure(lambda e, s, a, k: s.alloc('GetServiceClient'), name='sdc_client.client("Get")'),
            '*.get_mdib': step('get_mdib', result=lambda st: self.resp, raises=('*',)),
            f'{CM}:ConsumerMdib.add_description_containers': step('add_descriptions'),
            'sdc11073.mdib.mdibbase:MdibBase.add_description_containers': step('add_descriptions'),
            'sdc11073.mdib.mdibbase:MdibBase.add_state_containers': step('add_states'),
            f'{CM}:ConsumerMdib._retrieve_context_states': step('retrieve_context_states', raises=('*',)),
            'buffered_report.handler': Pure(handler, name='buffered report handler (C06.gate.*)'),
        }

    def hooks(self, ex):
        chk = self

        class H:
            tracked_names = ('_state', 'handler')

            @staticmethod
            def on_with_enter(ex_, st, key, cm, node):
                st.ghost['locks'] = st.ghost.get('locks', ()) + (key,)

            @staticmethod
            def on_with_exit(ex_, st, key, cm, node, sig):
                st.ghost['locks'] = st.ghost.get('locks', ())[:-1]

            @staticmethod
            def on_attr_write(ex_, st, o, attr, val, node):
                if attr == '_state':
                    st.ghost['steps'] = st.ghost['steps'] + (('state:=' + (val.path or '?').split('.')[-1], locks(st)),)
                return None

            @staticmethod
            def on_loop_havoc(ex_, st, node):
                st.ghost['called'] = ()
        return H

    def loops(self, ex):
        def body_contract(ex_, st, env):
            # per buffered report: replayed  <=>  same sequence id as loaded AND newer than the loaded MdibVersion
            if env['_phase'] != 'preserve':
                return z3.BoolVal(True)
            e = env['_seq'][env['_k'] - 1]
            g = z3.Select(st.get_arr('f:mdib_version_group'), Val.oid(e))
            seq_ok = Val.s(z3.Select(st.get_arr('f:sequence_id'), Val.oid(g))) == Val.s(z3.Select(st.get_arr('f:sequence_id'), self.o.e))
            newer = Val.i(z3.Select(st.get_arr('f:mdib_version'), Val.oid(g))) > Val.i(z3.Select(st.get_arr('f:mdib_version'), self.o.e))
            called = st.ghost.get('called', ())
            if len(called) > 1:
                return z3.BoolVal(False)
            if len(called) == 1:
                data = z3.Select(st.get_arr('f:data'), Val.oid(e))
                return z3.And(seq_ok, newer, called[0][0] == g, called[0][1] == data,
                              z3.BoolVal(any(is_lock(k, 'mdib_lock') for k in called[0][2])))
            return z3.Not(z3.And(seq_ok, newer))
        return {0: LoopSpec(inv=body_contract, havoc_heap=[])}

    def post(self, ex, st0, st, outcome, b):
        steps = st.ghost['steps']
        names = [n for n, _ in steps]
        if outcome[0] == 'exc':
            ex.oblige(st, 'only_remote_calls_or_handlers_raise', z3.BoolVal(any(
                k in outcome[1].origin for k in ('get_mdib', 'retrieve_context_states', 'buffered handler'))),
                info={'exc': repr(outcome[1])})
            return
        ex.oblige(st, 'all_steps_inside_mdib_lock', z3.BoolVal(all(any(is_lock(k, 'mdib_lock') for k in lk) for _, lk in steps)))
        ex.oblige(st, 'buffering_starts_before_tables_are_cleared', z3.BoolVal(
            'state:=initializing' in names and names.index('state:=initializing') < names.index('clear_descriptions')
            and names.index('state:=initializing') < names.index('get_mdib')))
        ex.oblige(st, 'tables_rebuilt_from_response', z3.BoolVal(
            names.index('clear_descriptions') < names.index('get_mdib') < names.index('add_descriptions') < names.index('add_states')
            and names.index('clear_states') < names.index('get_mdib')))
        ex.oblige(st, 'initialized_last_and_inside_buffer_lock', z3.BoolVal(
            names[-1] == 'state:=initialized' and any(k.endswith('_buffered_notifications_lock') for k in steps[-1][1])))
        ex.oblige(st, 'buffer_emptied', z3.Length(z3.Select(st.get_arr('L'), self.buf.e)) == 0)
        ex.oblige(st, 'version_group_loaded_from_response', z3.And(
            Val.i(field(st, self.o, 'mdib_version')) == self.rgf['mdib_version'].e,
            Val.s(field(st, self.o, 'sequence_id')) == Val.s(self.rgf['sequence_id'].e),
            field(st, self.o, 'instance_id') == self.rgf['instance_id'].e))


def locks(st):
    return st.ghost.get('locks', ())



# ---------------------------------------------------------------------------------------------------------------
# the observers that feed received notifications into the consumer MDIB: the buffering decision (buffered xor processed,
# C06.pre_check_report) is taken inside process_incoming_*; an observer that filters before that call loses reports
CX = 'sdc11073.mdib.consumermdibxtra'
_OBSERVERS = {
    '_on_episodic_metric_report': 'process_incoming_metric_states_report',
    '_on_episodic_alert_report': 'process_incoming_alert_states_report',
    '_on_operational_state_report': 'process_incoming_operational_states_report',
    '_on_waveform_report': 'process_incoming_waveform_states',
    '_on_episodic_context_report': 'process_incoming_context_states_report',
    '_on_episodic_component_report': 'process_incoming_component_states_report',
    '_on_description_modification_report': 'process_incoming_description_modifications',
}


def _mk_observer(fn_name, proc_name):
    class Observer(FnCheck):
        id = f'C06.observer.{fn_name}'
        prop = 'C06'
        tag = 'S'
        opaque_ok = True
        target = f'{CX}:ConsumerMdibMethods.{fn_name}'
        stable_fields = ('mdib_version_group', '_mdib')
        doc = (f'{fn_name}: every received notification is handed to ConsumerMdib.{proc_name} exactly once, with its own '
               'MdibVersionGroup and before anything that depends on the state of the MDIB - in particular also while '
               'the MDIB is not initialized yet (that call buffers the report for the replay after GetMdib); the '
               'observer itself never drops a report')

        def setup(self, b):
            self.group = b.obj('mdib_version_group')
            self.msg = b.obj('received_message_data', mdib_version_group=self.group)
            self.mdib = b.obj('mdib')
            self.o = b.obj('self', cls=(CX, 'ConsumerMdibMethods'), _mdib=self.mdib)
            self.init = b.bool('mdib_is_initialized')
            b.distinct(self.o, self.mdib, self.msg, self.group)
            b.st.ghost['proc'] = ()
            b.st.ghost['c:init_reads'] = 0
            return self.o, [self.msg], {}

        def callees(self, ex):
            def proc(ex_, st, args, kwargs):
                st.ghost['proc'] = st.ghost['proc'] + ((st.box(args[0]) if args else None, st.ghost['c:init_reads']),)
                return [(st.fork(), Raise(ex_.mk_exc('*', proc_name))), (st, vany(fresh(Val, 'accepted'), maybe_none=True))]
            d = {f'*.{p}': Pure(proc, name=f'ConsumerMdib.{p} (C06 public entry points)') for p in set(_OBSERVERS.values())}
            d['*.from_node'] = Pure(lambda e, s, a, k: s.alloc('Report'), name='report class from_node (C05)')
            return d

        def hooks(self, ex):
            chk = self

            class H:
                tracked_names = ('is_initialized',) + tuple(set(_OBSERVERS.values()))

                @staticmethod
                def on_attr_read(ex_, st, o, attr, node):
                    if attr == 'is_initialized':
                        st.ghost['c:init_reads'] = st.ghost['c:init_reads'] + 1
                        return [(st, vbool(chk.init.e))]
                    return None
            return H

        def post(self, ex, st0, st, outcome, b):
            calls = st.ghost['proc']
            if outcome[0] == 'exc':
                return
            ex.oblige(st, 'report_is_handed_to_the_mdib_exactly_once', z3.BoolVal(len(calls) == 1), info={'calls': len(calls)})
            if len(calls) == 1:
                ex.oblige(st, 'with_its_own_version_group', calls[0][0] == Val.ref(self.group.e) if calls[0][0] is not None else z3.BoolVal(False))
                ex.oblige(st, 'before_any_look_at_the_initialisation_state', z3.BoolVal(calls[0][1] == 0))
    Observer.__name__ = 'Observer_' + fn_name
    return Observer


for _f, _p in _OBSERVERS.items():
    register(_mk_observer(_f, _p))
