"""C20 - query services return exactly the selected states and texts."""
from __future__ import annotations

import z3

from pyvc.api import (FnCheck, LoopSpec, Pure, Inline, register, Build, V, Val, SeqVal, IntS, RealS, BoolS, StrS, NONE,
                      Raise, Unsupported, fresh, vany, vint, vreal, vbool, vstr, vref, as_int, unbox_as, truthy, field)
from pyvc.state import FRESH_BASE

LS = 'sdc11073.provider.porttypes.localizationservice'
TW = z3.Function('tw2i', Val, IntS)     # _tw2i: text width -> rank (C20.tw2i_table checks the table natively)


class _HelperFilter(FnCheck):
    prop = 'C20'
    field_types = {'n_o_l': 'int'}

    def setup(self, b):
        st = b.st
        self.lst = b.obj('localized_texts')
        st.assume(z3.Select(st.get_arr('C'), self.lst.e) == b.ex.ctx.builtin_class_ids['list'])
        self.seq = z3.Select(st.get_arr('L'), self.lst.e)
        j = z3.Int('j!lt')
        st.assume(z3.ForAll([j], z3.Implies(z3.And(0 <= j, j < z3.Length(self.seq)), z3.And(
            Val.is_ref(self.seq[j]), Val.oid(self.seq[j]) > 0, Val.oid(self.seq[j]) < FRESH_BASE))))
        self.bound = b.int('bound')
        return None, [self.lst, self.bound], {}

    def callees(self, ex):
        return {'*.sort': Pure(self._sort, name='list.sort(key=...): permutes the list (membership unchanged)', trusted=True),
                f'{LS}:_tw2i': Pure(lambda e, s, a, k: vint(TW(s.box(a[0]))), name='_tw2i (total on the enum values + None)')}

    def _sort(self, ex_, st, args, kwargs):
        # permutation: same multiset; modelled as "same membership, same length"
        recv = st.ghost.get('c:sorted')
        return NONE

    def hooks(self, ex):
        chk = self

        class H:
            tracked_names = ('sort',)

            @staticmethod
            def on_call(ex_, st, fv, keys, args, kwargs, node):
                if fv.t == 'method' and fv.name == 'sort':
                    # a permutation of the same elements; the obligations below are about membership only, so the
                    # (unknown) new order is not represented
                    ex_.ctx.assumptions.add('list.sort permutes the list: membership unchanged, order not modelled')
                    return [(st, NONE)]
                return None
        return H

    def measure(self, st, v):
        raise NotImplementedError

    def post(self, ex, st0, st, outcome, b):
        if outcome[0] == 'exc':
            ex.oblige(st, 'never_raises', z3.BoolVal(False), info={'exc': repr(outcome[1])})
            return
        r = ex.concrete_kind(st, outcome[1], ('ref',))
        res = st.list_seq(r)
        x = z3.Const('x!res', Val)
        j = z3.Int('j!in')
        member_in = lambda v: z3.Exists([j], z3.And(0 <= j, j < z3.Length(self.seq), self.seq[j] == v))   # noqa: E731
        i = z3.Int('i!res')
        ex.oblige(st, 'result_only_contains_given_texts_within_bound', z3.ForAll([i], z3.Implies(
            z3.And(0 <= i, i < z3.Length(res)), z3.And(member_in(res[i]), self.measure(st0, res[i]) <= self.bound.e))))
        ex.oblige(st, 'every_text_within_bound_is_kept', z3.ForAll([j], z3.Implies(
            z3.And(0 <= j, j < z3.Length(self.seq), self.measure(st0, self.seq[j]) <= self.bound.e),
            z3.Exists([i], z3.And(0 <= i, i < z3.Length(res), res[i] == self.seq[j])))))
        ex.oblige(st, 'input_list_untouched', z3.Select(st.get_arr('L'), self.lst.e) == self.seq)


@register
class NumberOfLinesFilter(_HelperFilter):
    id = 'C20.n_o_l_filter'
    target = f'{LS}:_n_o_l_filter'
    doc = '_n_o_l_filter(texts, n): exactly the given texts with n_o_l <= n (order changed by sort only)'

    def measure(self, st, v):
        return Val.i(z3.Select(st.get_arr('f:n_o_l'), Val.oid(v)))


@register
class TextWidthFilter(_HelperFilter):
    id = 'C20.text_width_filter'
    target = f'{LS}:_text_width_filter'
    doc = '_text_width_filter(texts, w): exactly the given texts whose width rank _tw2i(TextWidth) <= w'

    def measure(self, st, v):
        return TW(z3.Select(st.get_arr('f:TextWidth'), Val.oid(v)))
