"""C20 - query services return exactly the selected states and texts."""
from __future__ import annotations

import z3

from pyvc.api import (FnCheck, LoopSpec, Pure, Inline, register, Build, V, Val, SeqVal, IntS, RealS, BoolS, StrS, NONE,
                      Raise, Unsupported, fresh, vany, vint, vreal, vbool, vstr, vref, as_int, unbox_as, truthy, field)
from pyvc.state import FRESH_BASE

LS = 'sdc11073.provider.porttypes.localizationservice'
TW = z3.Function('tw2i', Val, IntS)     # _tw2i: text width -> rank (C20.tw2i_table checks the table natively)


class _HelperFilter(FnCheck):
    prop = 'C20'
    field_types = {'n_o_l': 'int'}

    def setup(self, b):
        st = b.st
        self.lst = b.obj('localized_texts')
        st.assume(z3.Select(st.get_arr('C'), self.lst.e) == b.ex.ctx.builtin_class_ids['list'])
        self.seq = z3.Select(st.get_arr('L'), self.lst.e)
        j = z3.Int('j!lt')
        st.assume(z3.ForAll([j], z3.Implies(z3.And(0 <= j, j < z3.Length(self.seq)), z3.And(
            Val.is_ref(self.seq[j]), Val.oid(self.seq[j]) > 0, Val.oid(self.seq[j]) < FRESH_BASE))))
        self.bound = b.int('bound')
        return None, [self.lst, self.bound], {}

    def callees(self, ex):
        return {'*.sort': Pure(self._sort, name='list.sort(key=...): permutes the list (membership unchanged)', trusted=True),
                f'{LS}:_tw2i': Pure(lambda e, s, a, k: vint(TW(s.box(a[0]))), name='_tw2i (total on the enum values + None)')}

    def _sort(self, ex_, st, args, kwargs):
        # permutation: same multiset; modelled as "same membership, same length"
        recv = st.ghost.get('c:sorted')
        return NONE

    def hooks(self, ex):
        chk = self

        class H:
            tracked_names = ('sort',)

            @staticmethod
            def on_call(ex_, st, fv, keys, args, kwargs, node):
                if fv.t == 'method' and fv.name == 'sort':
                    # a permutation of the same elements; the obligations below are about membership only, so the
                    # (unknown) new order is not represented
                    ex_.ctx.assumptions.add('list.sort permutes the list: membership unchanged, order not modelled')
                    return [(st, NONE)]
                return None
        return H

    def measure(self, st, v):
        raise NotImplementedError

    def post(self, ex, st0, st, outcome, b):
        if outcome[0] == 'exc':
            ex.oblige(st, 'never_raises', z3.BoolVal(False), info={'exc': repr(outcome[1])})
            return
        r = ex.concrete_kind(st, outcome[1], ('ref',))
        res = st.list_seq(r)
        x = z3.Const('x!res', Val)
        j = z3.Int('j!in')
        member_in = lambda v: z3.Exists([j], z3.And(0 <= j, j < z3.Length(self.seq), self.seq[j] == v))   # noqa: E731
        i = z3.Int('i!res')
        ex.oblige(st, 'result_only_contains_given_texts_within_bound', z3.ForAll([i], z3.Implies(
            z3.And(0 <= i, i < z3.Length(res)), z3.And(member_in(res[i]), self.measure(st0, res[i]) <= self.bound.e))))
        ex.oblige(st, 'every_text_within_bound_is_kept', z3.ForAll([j], z3.Implies(
            z3.And(0 <= j, j < z3.Length(self.seq), self.measure(st0, self.seq[j]) <= self.bound.e),
            z3.Exists([i], z3.And(0 <= i, i < z3.Length(res), res[i] == self.seq[j])))))
        ex.oblige(st, 'input_list_untouched', z3.Select(st.get_arr('L'), self.lst.e) == self.seq)


@register
class NumberOfLinesFilter(_HelperFilter):
    id = 'C20.n_o_l_filter'
    target = f'{LS}:_n_o_l_filter'
    doc = '_n_o_l_filter(texts, n): exactly the given texts with n_o_l <= n (order changed by sort only)'

    def measure(self, st, v):
        return Val.i(z3.Select(st.get_arr('f:n_o_l'), Val.oid(v)))


@register
class TextWidthFilter(_HelperFilter):
    id = 'C20.text_width_filter'
    target = f'{LS}:_text_width_filter'
    doc = '_text_width_filter(texts, w): exactly the given texts whose width rank _tw2i(TextWidth) <= w'

    def measure(self, st, v):
        return TW(z3.Select(st.get_arr('f:TextWidth'), Val.oid(v)))


@register
class TextWidthRank(FnCheck):
    id = 'C20.tw2i'
    prop = 'C20'
    target = f'{LS}:_tw2i'
    replay_fn = 'C20:tw2i'
    doc = ('_tw2i (the rank every TextWidth comparison of the text filter uses): xs < s < m < l < xl < xxl are ranked '
           '0..5 and a text WITHOUT TextWidth gets a rank above every width a request can name - it never satisfies a '
           'TextWidth constraint (BICEPS: matching = width less than or equal to the requested one)')

    WIDTHS = ('xs', 's', 'm', 'l', 'xl', 'xxl')

    def setup(self, b):
        self.w = b.any('text_width', maybe_none=True)
        b.st.assume(z3.Or(Val.is_none(self.w.e), *[self.w.e == Val.str(z3.StringVal(x)) for x in self.WIDTHS]))
        return None, [self.w], {}

    def post(self, ex, st0, st, outcome, b):
        if outcome[0] == 'exc':
            ex.oblige(st, 'never_raises', z3.BoolVal(False), info={'exc': repr(outcome[1])})
            return
        r = ex.concrete_kind(st, outcome[1], ('int',))
        if r.kind != 'int':
            ex.oblige(st, 'rank_is_an_integer', z3.BoolVal(False))
            return
        for n, x in enumerate(self.WIDTHS):
            ex.oblige(st, f'rank_of_{x}', z3.Implies(self.w.e == Val.str(z3.StringVal(x)), r.e == n))
        ex.oblige(st, 'missing_width_ranks_above_every_requestable_width', z3.Implies(Val.is_none(self.w.e), r.e > len(self.WIDTHS) - 1))


# ---------------------------------------------------------------------------------------------------------------
# handle resolution of GetMdState / GetContextStates against the BICEPS selection rules
GS = 'sdc11073.provider.porttypes.getserviceimpl'
CS_ = 'sdc11073.provider.porttypes.contextserviceimpl'


def mem(seq, x):
    """x occurs in the sequence."""
    return z3.Contains(seq, z3.Unit(x))


def no_duplicates():
    """ND(s) <=> no value occurs twice in s - defined inductively over s ++ [y] (the only way the code grows lists)."""
    nd = z3.Function('no_duplicates', SeqVal, BoolS)
    s, y = z3.Const('s!nd', SeqVal), z3.Const('y!nd', Val)
    axioms = [nd(z3.Empty(SeqVal)),
              z3.ForAll([s, y], nd(z3.Concat(s, z3.Unit(y))) == z3.And(nd(s), z3.Not(mem(s, y))),
                        patterns=[nd(z3.Concat(s, z3.Unit(y)))])]
    return nd, axioms


class _Tables:
    """Abstract MDIB tables as the handlers see them: the object lists and the index lookups they call, related by the
    table invariant of C11 (an index lookup returns exactly what a scan of the objects returns) and by BICEPS handle
    uniqueness (C10: context-state handles are unique and distinct from descriptor handles)."""

    def declare_tables(self, b, with_states=True):
        st = b.st
        ids = b.ex.ctx.builtin_class_ids
        self.F_handle = st.get_arr('f:Handle')
        self.F_dh = st.get_arr('f:DescriptorHandle')
        self.S = z3.Const('state_objects', SeqVal)
        self.CS = z3.Const('context_state_objects', SeqVal)
        self.has_ch = z3.Function('ctx_handle_known', Val, BoolS)      # unique index context_states.handle
        self.ch = z3.Function('ctx_by_handle', Val, Val)
        self.sdh = z3.Function('states_by_descriptor_handle', Val, SeqVal)
        self.cdh = z3.Function('ctx_by_descriptor_handle', Val, SeqVal)
        x, y, h = z3.Const('x!t', Val), z3.Const('y!t', Val), z3.Const('h!t', Val)
        isobj = lambda v: z3.And(Val.is_ref(v), Val.oid(v) > 0, Val.oid(v) < FRESH_BASE)   # noqa: E731
        for seq in ((self.S, self.CS) if with_states else (self.CS,)):
            st.assume(z3.ForAll([x], z3.Implies(mem(seq, x), isobj(x))))
        # C11: lookups agree with a scan
        st.assume(z3.ForAll([h], z3.Implies(self.has_ch(h), z3.And(mem(self.CS, self.ch(h)), self.hd(self.ch(h)) == h))))
        st.assume(z3.ForAll([x], z3.Implies(mem(self.CS, x), z3.And(self.has_ch(self.hd(x)), self.ch(self.hd(x)) == x))))
        st.assume(z3.ForAll([h, x], mem(self.cdh(h), x) == z3.And(mem(self.CS, x), self.dh(x) == h),
                            patterns=[mem(self.cdh(h), x), z3.MultiPattern(mem(self.CS, x), self.cdh(h))]))
        if with_states:
            st.assume(z3.ForAll([h, x], mem(self.sdh(h), x) == z3.And(mem(self.S, x), self.dh(x) == h),
                                patterns=[mem(self.sdh(h), x), z3.MultiPattern(mem(self.S, x), self.sdh(h))]))
            # a state is either a context state or not
            st.assume(z3.ForAll([x], z3.Not(z3.And(mem(self.S, x), mem(self.CS, x)))))
        # BICEPS: a context-state handle is no descriptor handle
        owner = z3.Or(mem(self.S, x), mem(self.CS, x)) if with_states else mem(self.CS, x)
        st.assume(z3.ForAll([x, y], z3.Implies(z3.And(owner, mem(self.CS, y)), self.dh(x) != self.hd(y))))
        s_list, cs_list = b.obj('states.objects'), b.obj('context_states.objects')
        for lst, seq in ((s_list, self.S), (cs_list, self.CS)):
            st.assume(z3.Select(st.get_arr('C'), lst.e) == ids['list'])
            st.assume(z3.Select(st.get_arr('L'), lst.e) == seq)
        self.s_list, self.cs_list = s_list, cs_list
        states_tab = b.obj('states_table', objects=s_list)
        ctx_tab = b.obj('context_states_table', objects=cs_list)
        self.mdib = b.obj('mdib', states=states_tab, context_states=ctx_tab)
        # the requested handle list (strings)
        self.req = z3.Const('requested_handles', SeqVal)
        self.req_list = b.obj('HandleRef')
        st.assume(z3.Select(st.get_arr('C'), self.req_list.e) == ids['list'])
        st.assume(z3.Select(st.get_arr('L'), self.req_list.e) == self.req)
        j = z3.Int('j!req')
        st.assume(z3.ForAll([j], z3.Implies(z3.And(0 <= j, j < z3.Length(self.req)), Val.is_str(self.req[j]))))
        self.request = b.obj('parsed_request', HandleRef=self.req_list)
        b.distinct(s_list, cs_list, self.req_list, states_tab, ctx_tab, self.mdib, self.request)

    def hd(self, x):
        return z3.Select(self.F_handle, Val.oid(x))

    def dh(self, x):
        return z3.Select(self.F_dh, Val.oid(x))

    def selection(self, match):
        """sel(k, x): x is selected by one of the first k requested handles (the union the BICEPS rules prescribe)."""
        sel = z3.Function('selected_by_first', IntS, Val, BoolS)
        k, x = z3.Int('k!sel'), z3.Const('x!sel', Val)
        ax = [z3.ForAll([x], z3.Not(sel(0, x))),
              z3.ForAll([k, x], z3.Implies(k >= 0, sel(k + 1, x) == z3.Or(sel(k, x), match(x, self.req[k]))),
                        patterns=[sel(k + 1, x)])]
        return sel, ax

    def lookup_summaries(self, prefix):
        def get_one_ctx(ex_, st, args, kwargs):
            h = st.box(args[0])
            allow_none = kwargs.get('allow_none')
            miss = st.fork()
            miss.assume(z3.Not(self.has_ch(h)))
            st.assume(self.has_ch(h))
            hit = (st, vany(self.ch(h)))
            if allow_none is not None and z3.is_true(z3.simplify(truthy(allow_none, st))):
                return [(miss, NONE), hit]
            return [(miss, Raise(ex_.mk_exc('KeyError', 'get_one'))), hit]

        def mk_get(fn, none_if_missing):
            def get(ex_, st, args, kwargs):
                h = st.box(args[0])
                r = st.alloc('list')
                st.set_list_seq(r, fn(h))
                # a non-empty sequence has a member (its first element)
                st.assume(z3.Implies(z3.Length(fn(h)) > 0, mem(fn(h), fn(h)[0])))
                if len(args) < 2 and none_if_missing:
                    # .get(key) without default: None when the key is unknown (no entry = no member, C11)
                    e = z3.If(z3.Length(fn(h)) > 0, Val.ref(r.e), Val.none)
                    return vany(e, maybe_none=True)
                return r
            return get
        return {
            f'{prefix}.context_states.handle.get_one':
                Pure(get_one_ctx, name='context_states.handle.get_one: unique index lookup (C11 invariant)'),
            f'{prefix}.states.descriptor_handle.get':
                Pure(mk_get(self.sdh, True), name='states.descriptor_handle.get: index lookup == scan (C11 invariant)'),
            f'{prefix}.context_states.descriptor_handle.get':
                Pure(mk_get(self.cdh, True), name='context_states.descriptor_handle.get: index lookup == scan (C11 invariant)'),
        }


@register
class GetMdStateSelection(FnCheck, _Tables):
    id = 'C20.get_md_state_selection'
    prop = 'C20'
    target = f'{GS}:GetService._on_get_md_state'
    doc = ('GetMdState: the states put into the response are exactly those selected by the requested handle list - '
           'empty list: all states (plus all context states when the device includes them); otherwise the union over '
           'the requested handles of {context state with that handle} and {states whose descriptor has that handle}; '
           'unknown handles contribute nothing; every state occurs at most once (also for repeated / overlapping handles)')
    trusted = ('table lookups return what a scan returns (C11) - assumed as callee contracts here',
               'no_duplicates is defined inductively over append')
    feasibility_timeout_ms = 40
    feasibility_ematch_only = True

    def setup(self, b):
        st = b.st
        self.declare_tables(b)
        self.ctx_in = b.bool('contextstates_in_getmdib')
        dev = b.obj('sdc_device', contextstates_in_getmdib=self.ctx_in)
        slf = b.obj('self', cls=(GS, 'GetService'), _mdib=self.mdib, _sdc_device=dev)
        b.distinct(slf, dev, self.mdib)

        def match(x, h):
            in_s = z3.And(mem(self.S, x), self.dh(x) == h)
            in_cs = z3.And(mem(self.CS, x), z3.Or(self.hd(x) == h, self.dh(x) == h))
            return z3.If(self.ctx_in.e, z3.Or(in_s, in_cs), in_s)
        self.match = match
        self.sel, ax = self.selection(match)
        self.nd, ax2 = no_duplicates()
        for a in ax + ax2:
            st.assume(a)
        return slf, [b.obj('request_data')], {}

    def callees(self, ex):
        def from_node(ex_, st, args, kwargs):
            return self.request

        def response(ex_, st, args, kwargs):
            r = st.alloc('GetMdStateResponse')
            md = st.alloc('MdState')
            st.write_field(md, 'State', st.new_list([]))
            st.write_field(r, 'MdState', md)
            return r

        def reply(ex_, st, args, kwargs):
            st.ghost['c:response'] = args[1]
            return st.alloc('CreatedMessage')
        d = {'*.from_node': Pure(from_node, name='GetMdState.from_node -> parsed request (HandleRef: list of str; C05)'),
             '*.GetMdStateResponse': Pure(response, name='GetMdStateResponse(): empty MdState.State list'),
             '*.set_mdib_version_group': Pure(lambda e, s, a, k: NONE, name='response.set_mdib_version_group (C07)'),
             '*.mk_reply_soap_message': Pure(reply, name='msg_factory.mk_reply_soap_message(request, response)')}
        d.update(self.lookup_summaries('self._mdib'))
        return d

    def _isobj(self, x):
        return z3.And(Val.is_ref(x), Val.oid(x) > 0, Val.oid(x) < FRESH_BASE)

    def loops(self, ex):
        ids = ex.ctx.builtin_class_ids

        def frame(st):
            L, C = st.get_arr('L'), st.get_arr('C')
            return z3.And(z3.Select(L, self.s_list.e) == self.S, z3.Select(L, self.cs_list.e) == self.CS,
                          z3.Select(L, self.req_list.e) == self.req)

        def collect_inv(ex_, st, env):
            sc = ex_.concrete_kind(st, st.locals['state_containers'], ('ref',))
            L = st.list_seq(sc)
            x = z3.Const('x!inv', Val)
            return {'collected_are_the_selected': z3.ForAll([x], mem(L, x) == self.sel(env['_k'], x)),
                    'collected_are_objects': z3.ForAll([x], z3.Implies(mem(L, x), self._isobj(x))),
                    'tables_untouched': frame(st)}

        def dedupe_inv(ex_, st, env):
            uniq = ex_.concrete_kind(st, st.locals['unique_state_containers'], ('ref',))
            seen = ex_.concrete_kind(st, st.locals['seen_ids'], ('ref',))
            src = ex_.concrete_kind(st, st.locals['state_containers'], ('ref',))
            U = st.list_seq(uniq)
            seen_set = z3.Select(st.get_arr('S'), seen.e)
            x = z3.Const('x!dd', Val)
            return {'unique_list_holds_the_consumed_prefix': z3.ForAll([x], mem(U, x) == mem(env['_prefix'], x)),
                    'seen_ids_are_the_ids_of_the_unique_list':
                        z3.ForAll([x], z3.Implies(self._isobj(x), z3.Select(seen_set, Val.int(Val.oid(x))) == mem(U, x))),
                    'unique_list_has_no_duplicates': self.nd(U),
                    'source_list_untouched': z3.And(st.list_seq(src) == env['_seq'], frame(st)),
                    'containers': z3.And(z3.Select(st.get_arr('C'), seen.e) == ids['set'],
                                         z3.Select(st.get_arr('C'), uniq.e) == ids['list'])}
        hv = ['L', 'S', 'SN']
        return {0: LoopSpec(inv=collect_inv, havoc_heap=hv), 1: LoopSpec(inv=collect_inv, havoc_heap=hv),
                2: LoopSpec(inv=dedupe_inv, havoc_heap=hv, prefix=True)}

    def post(self, ex, st0, st, outcome, b):
        if outcome[0] == 'exc':
            ex.oblige(st, 'never_raises', z3.BoolVal(False), info={'exc': repr(outcome[1])})
            return
        resp = st.ghost.get('c:response')
        if resp is None:
            ex.oblige(st, 'response_is_built', z3.BoolVal(False))
            return
        resp = ex.concrete_kind(st, resp, ('ref',))
        md = ex.concrete_kind(st, st.read_field(resp, 'MdState'), ('ref',))
        lst = ex.concrete_kind(st, st.read_field(md, 'State'), ('ref',))
        R = st.list_seq(lst)
        x = z3.Const('x!post', Val)
        n = z3.Length(self.req)
        everything = z3.Or(mem(self.S, x), z3.And(self.ctx_in.e, mem(self.CS, x)))
        ex.oblige(st, 'response_states_are_exactly_the_selected_states',
                  z3.ForAll([x], mem(R, x) == z3.If(n == 0, everything, self.sel(n, x))))
        ex.oblige(st, 'every_state_at_most_once', self.nd(R))
        ex.oblige(st, 'tables_untouched', z3.And(st.list_seq(self.s_list) == self.S, st.list_seq(self.cs_list) == self.CS))


@register
class GetContextStatesSelection(FnCheck, _Tables):
    id = 'C20.get_context_states_selection'
    prop = 'C20'
    target = f'{CS_}:ContextService._on_get_context_states'
    doc = ('GetContextStates: the context states put into the response are exactly those selected by the requested '
           'handle list - empty list: all context states; otherwise the union over the requested handles of {the '
           'context state with that handle}, {the context states of the descriptor with that handle} and, for the '
           'handle of an MDS descriptor, {the context states whose source MDS is that MDS}; unknown handles contribute '
           'nothing; every state occurs at most once (the response list is the value list of a mapping keyed by the '
           "states' own, unique handles)")
    trusted = ('table lookups return what a scan returns (C11) - assumed as callee contracts here',
               'state.source_mds is a pure attribute', 'QName equality is value equality of opaque names')
    feasibility_timeout_ms = 40
    feasibility_ematch_only = True
    seq_membership_facts = True

    def setup(self, b):
        st = b.st
        self.declare_tables(b, with_states=False)
        self.F_src = st.get_arr('f:source_mds')
        self.F_nodetype = st.get_arr('f:NODETYPE')
        self.has_d = z3.Function('descriptor_handle_known', Val, BoolS)     # unique index descriptions.handle
        self.desc = z3.Function('descriptor_by_handle', Val, Val)
        self.mds_qname = b.any('pm:MdsDescriptor')
        st.assume(Val.is_ref(self.mds_qname.e))       # a QName object (not a number: == is value equality of names)
        h, x = z3.Const('h!d', Val), z3.Const('x!d', Val)
        cid_descr = b.ex.ctx.class_id('DescriptorContainer')
        st.assume(z3.ForAll([h], z3.Implies(self.has_d(h), z3.And(
            Val.is_ref(self.desc(h)), Val.oid(self.desc(h)) > 0, Val.oid(self.desc(h)) < FRESH_BASE,
            z3.Select(st.get_arr('C'), Val.oid(self.desc(h))) == cid_descr, self.hd(self.desc(h)) == h))))
        # BICEPS structure: a handle is not both a context-state handle and a descriptor handle; a descriptor that owns
        # context states is a context descriptor, not an MDS
        st.assume(z3.ForAll([h], z3.Not(z3.And(self.has_d(h), self.has_ch(h)))))
        st.assume(z3.ForAll([x], z3.Implies(mem(self.CS, x), z3.Not(self.is_mds(self.dh(x))))))
        # context states are plain objects (truthy), keyed by string handles
        cid_state = b.ex.ctx.class_id('ContextStateContainer')
        st.assume(z3.ForAll([x], z3.Implies(mem(self.CS, x), z3.And(
            z3.Select(st.get_arr('C'), Val.oid(x)) == cid_state, Val.is_str(self.hd(x))))))
        # C11: the table holds every object once
        i, j = z3.Int('i!cs'), z3.Int('j!cs')
        st.assume(z3.ForAll([i, j], z3.Implies(z3.And(0 <= i, i < j, j < z3.Length(self.CS)), self.CS[i] != self.CS[j])))
        pm_names = b.obj('pm_names', MdsDescriptor=self.mds_qname)
        dm = b.obj('data_model', pm_names=pm_names)
        defs = b.obj('sdc_definitions', data_model=dm)
        descr_tab = b.obj('descriptions_table')
        b.set(self.mdib, 'descriptions', descr_tab)
        slf = b.obj('self', cls=(CS_, 'ContextService'), _mdib=self.mdib, _sdc_definitions=defs)
        b.distinct(slf, defs, dm, pm_names, descr_tab, self.mdib)

        def match(x, hh):
            return z3.And(mem(self.CS, x), z3.Or(self.hd(x) == hh, self.dh(x) == hh,
                                                 z3.And(self.is_mds(hh), self.src(x) == hh)))
        self.match = match
        self.sel, ax = self.selection(match)
        for a in ax:
            st.assume(a)
        return slf, [b.obj('request_data')], {}

    def src(self, x):
        return z3.Select(self.F_src, Val.oid(x))

    def is_mds(self, h):
        return z3.And(self.has_d(h), z3.Select(self.F_nodetype, Val.oid(self.desc(h))) == self.mds_qname.e)

    def callees(self, ex):
        def from_node(ex_, st, args, kwargs):
            return self.request

        def response(ex_, st, args, kwargs):
            r = st.alloc('GetContextStatesResponse')
            st.write_field(r, 'ContextState', st.new_list([]))
            return r

        def reply(ex_, st, args, kwargs):
            st.ghost['c:response'] = args[1]
            return st.alloc('CreatedMessage')

        def get_one_descr(ex_, st, args, kwargs):
            h = st.box(args[0])
            allow_none = kwargs.get('allow_none')
            miss = st.fork()
            miss.assume(z3.Not(self.has_d(h)))
            st.assume(self.has_d(h))
            hit = (st, vany(self.desc(h)))
            if allow_none is not None and z3.is_true(z3.simplify(truthy(allow_none, st))):
                return [(miss, NONE), hit]
            return [(miss, Raise(ex_.mk_exc('KeyError', 'get_one'))), hit]
        d = {'*.from_node': Pure(from_node, name='GetContextStates.from_node -> parsed request (HandleRef: list of str; C05)'),
             '*.GetContextStatesResponse': Pure(response, name='GetContextStatesResponse(): empty ContextState list'),
             '*.set_mdib_version_group': Pure(lambda e, s, a, k: NONE, name='response.set_mdib_version_group (C07)'),
             '*.mk_reply_soap_message': Pure(reply, name='msg_factory.mk_reply_soap_message(request, response)'),
             'self._mdib.descriptions.handle.get_one':
                 Pure(get_one_descr, name='descriptions.handle.get_one: unique index lookup (C11 invariant)')}
        d.update(self.lookup_summaries('self._mdib'))
        return d

    def _in_d(self, st, d, x):
        dk, dv = z3.Select(st.get_arr('DK'), d), z3.Select(st.get_arr('DV'), d)
        return z3.And(z3.Select(dk, self.hd(x)), z3.Select(dv, self.hd(x)) == x)

    def _wf(self, st, d):
        dk, dv = z3.Select(st.get_arr('DK'), d), z3.Select(st.get_arr('DV'), d)
        key = z3.Const('key!wf', Val)
        return z3.ForAll([key], z3.Implies(z3.Select(dk, key), z3.And(mem(self.CS, z3.Select(dv, key)),
                                                                     self.hd(z3.Select(dv, key)) == key)))

    def loops(self, ex):
        ids = ex.ctx.builtin_class_ids

        def frame(st):
            L = st.get_arr('L')
            return z3.And(z3.Select(L, self.cs_list.e) == self.CS, z3.Select(L, self.req_list.e) == self.req)

        def lookup_of(ex_, st):
            return ex_.concrete_kind(st, st.locals['context_state_containers_lookup'], ('ref',))

        def outer_inv(ex_, st, env):
            d = lookup_of(ex_, st)
            x = z3.Const('x!oi', Val)
            return {'lookup_holds_exactly_the_selected': z3.ForAll([x], z3.Implies(mem(self.CS, x),
                                                                              self._in_d(st, d.e, x) == self.sel(env['_k'], x))),
                    'lookup_maps_handles_to_their_context_states': self._wf(st, d.e),
                    'selected_are_context_states': z3.ForAll([x], z3.Implies(self.sel(env['_k'], x), mem(self.CS, x))),
                    'tables_untouched': frame(st),
                    'lookup_is_a_dict': z3.And(z3.Select(st.get_arr('C'), d.e) == ids['dict'],
                                               z3.Select(st.get_arr('DN'), d.e) >= 0)}

        def inner_inv(ex_, st, env):
            d = lookup_of(ex_, st)
            outer_k = st.ghost.get('c:k0')
            if outer_k is None:
                raise Unsupported('inner loop reached without the outer loop head')
            x = z3.Const('x!ii', Val)
            tmp = env['_seq']
            handle = st.box(st.locals['handle'])
            return {'lookup_holds_selected_plus_consumed': z3.ForAll([x], z3.Implies(mem(self.CS, x), self._in_d(st, d.e, x) == z3.Or(
                        self.sel(outer_k, x), mem(env['_prefix'], x)))),
                    'lookup_maps_handles_to_their_context_states': self._wf(st, d.e),
                    'selected_are_context_states': z3.ForAll([x], z3.Implies(self.sel(outer_k, x), mem(self.CS, x))),
                    'tables_untouched': frame(st),
                    'lookup_is_a_dict': z3.And(z3.Select(st.get_arr('C'), d.e) == ids['dict'],
                                               z3.Select(st.get_arr('DN'), d.e) >= 0),
                    'iterated_states_are_the_matches_of_this_handle':
                        z3.And(handle == self.req[outer_k], outer_k >= 0, outer_k < z3.Length(self.req),
                               z3.ForAll([x], mem(tmp, x) == self.match(x, handle)))}
        hv = ['DK', 'DV', 'DN', 'L']
        return {0: LoopSpec(inv=outer_inv, havoc_heap=hv), 1: LoopSpec(inv=inner_inv, havoc_heap=hv, prefix=True)}

    def post(self, ex, st0, st, outcome, b):
        if outcome[0] == 'exc':
            ex.oblige(st, 'never_raises', z3.BoolVal(False), info={'exc': repr(outcome[1])})
            return
        resp = st.ghost.get('c:response')
        if resp is None:
            ex.oblige(st, 'response_is_built', z3.BoolVal(False))
            return
        resp = ex.concrete_kind(st, resp, ('ref',))
        lst = ex.concrete_kind(st, st.read_field(resp, 'ContextState'), ('ref',))
        R = st.list_seq(lst)
        x = z3.Const('x!post', Val)
        n = z3.Length(self.req)
        ex.oblige(st, 'response_states_are_exactly_the_selected_context_states',
                  z3.ForAll([x], mem(R, x) == z3.If(n == 0, mem(self.CS, x), self.sel(n, x))))
        i, j = z3.Int('i!nd'), z3.Int('j!nd')
        ex.oblige(st, 'every_state_at_most_once',
                  z3.ForAll([i, j], z3.Implies(z3.And(0 <= i, i < j, j < z3.Length(R)), R[i] != R[j])))
        ex.oblige(st, 'tables_untouched', st.list_seq(self.cs_list) == self.CS)


# ---------------------------------------------------------------------------------------------------------------
# the localization handlers are pass-throughs: what the storage selects (filter pipeline: bounded check + helper proofs)
# is exactly what the response carries, and the storage is asked with exactly the constraints of the request
class _LocalizationHandler(FnCheck):
    prop = 'C20'
    opaque_ok = True
    tag = 'S'
    stable_fields = ('Ref', 'Version', 'Lang', 'TextWidth', 'NumberOfLines', 'localization_storage')

    def setup(self, b):
        st = b.st
        ids = b.ex.ctx.builtin_class_ids
        self.params = {n: b.obj('request.' + n) for n in ('Ref', 'Version', 'Lang', 'TextWidth', 'NumberOfLines')}
        for n in ('Ref', 'Lang'):
            st.assume(z3.Select(st.get_arr('C'), self.params[n].e) == ids['list'])
        self.lang_seq = z3.Select(st.get_arr('L'), self.params['Lang'].e)
        self.request = b.obj('parsed_request', **self.params)
        self.result = z3.Const('storage_result', SeqVal)
        self.storage = b.obj('localization_storage')
        dev = b.obj('sdc_device', localization_storage=self.storage)
        self.o = b.obj('self', cls=(LS, 'LocalizationService'), _sdc_device=dev)
        b.distinct(self.o, dev, self.storage, self.request, *self.params.values())
        st.ghost['calls'] = ()
        return self.o, [b.obj('request_data')], {}

    inline = (f'{LS}:LocalizationService.localization_storage', 'sdc11073.provider.porttypes.porttypebase:DPWSPortTypeBase.localization_storage')

    def callees(self, ex):
        def from_node(ex_, st, args, kwargs):
            return self.request

        def query(name):
            def fn(ex_, st, args, kwargs):
                st.ghost['calls'] = st.ghost['calls'] + ((name, tuple(st.box(a) for a in args),
                                                         st.list_seq(ex_.concrete_kind(st, args[2], ('ref',))) if len(args) > 2 else None),)
                r = st.alloc('list')
                st.set_list_seq(r, self.result)
                return r
            return fn

        def response(attr):
            def fn(ex_, st, args, kwargs):
                r = st.alloc('Response')
                st.write_field(r, attr, st.new_list([]))
                return r
            return fn

        def reply(ex_, st, args, kwargs):
            st.ghost['c:response'] = args[1]
            return st.alloc('CreatedMessage')
        return {'*.from_node': Pure(from_node, name='request class from_node (C05)'),
                '*.filter_localized_texts': Pure(query('filter_localized_texts'), name='LocalizationStorage.filter_localized_texts ([B] C20.text_filter)'),
                '*.get_supported_languages': Pure(query('get_supported_languages'), name='LocalizationStorage.get_supported_languages'),
                '*.GetLocalizedTextResponse': Pure(response('Text'), name='GetLocalizedTextResponse()'),
                '*.GetSupportedLanguagesResponse': Pure(response('Lang'), name='GetSupportedLanguagesResponse()'),
                '*.set_mdib_version_group': Pure(lambda e, s, a, k: NONE, name='response.set_mdib_version_group'),
                '*.mk_reply_soap_message': Pure(reply, name='msg_factory.mk_reply_soap_message')}

    def response_list(self, ex, st, attr):
        resp = st.ghost.get('c:response')
        if resp is None:
            return None
        resp = ex.concrete_kind(st, resp, ('ref',))
        lst = ex.concrete_kind(st, st.read_field(resp, attr), ('ref',))
        return st.list_seq(lst)


@register
class GetLocalizedTextPassThrough(_LocalizationHandler):
    id = 'C20.get_localized_text_handler'
    target = f'{LS}:LocalizationService._on_get_localized_text'
    doc = ('_on_get_localized_text: the storage is asked exactly once, with exactly the Ref, Version, Lang, TextWidth and '
           'NumberOfLines constraints of the request (unchanged - in particular the language list is not filtered '
           'beforehand: an unknown language selects nothing), and the response carries exactly the texts it returned')

    def post(self, ex, st0, st, outcome, b):
        if outcome[0] == 'exc':
            return
        calls = [c for c in st.ghost['calls'] if c[0] == 'filter_localized_texts']
        ex.oblige(st, 'storage_asked_exactly_once', z3.BoolVal(len(calls) == 1))
        if len(calls) == 1:
            args = calls[0][1]
            names = ('Ref', 'Version', 'Lang', 'TextWidth', 'NumberOfLines')
            same_obj = z3.And(*[args[i] == Val.ref(self.params[n].e) for i, n in enumerate(names)]) if len(args) == 5 else z3.BoolVal(False)
            ex.oblige(st, 'with_exactly_the_constraints_of_the_request', same_obj)
            ex.oblige(st, 'language_list_unchanged', calls[0][2] == self.lang_seq if calls[0][2] is not None else z3.BoolVal(False))
        R = self.response_list(ex, st, 'Text')
        ex.oblige(st, 'response_carries_exactly_the_selected_texts', R == self.result if R is not None else z3.BoolVal(False))


@register
class GetSupportedLanguagesPassThrough(_LocalizationHandler):
    id = 'C20.get_supported_languages_handler'
    target = f'{LS}:LocalizationService._on_get_supported_languages'
    doc = '_on_get_supported_languages: the response lists exactly what LocalizationStorage.get_supported_languages returns'

    def post(self, ex, st0, st, outcome, b):
        if outcome[0] == 'exc':
            return
        calls = [c for c in st.ghost['calls'] if c[0] == 'get_supported_languages']
        ex.oblige(st, 'storage_asked_exactly_once', z3.BoolVal(len(calls) == 1))
        R = self.response_list(ex, st, 'Lang')
        ex.oblige(st, 'response_lists_exactly_the_stored_languages', R == self.result if R is not None else z3.BoolVal(False))


# ---------------------------------------------------------------------------------------------------------------
# LocalizationStorage: languages and the flat text list
@register
class SupportedLanguages(FnCheck):
    id = 'C20.supported_languages'
    prop = 'C20'
    target = f'{LS}:LocalizationStorage.get_supported_languages'
    field_types = {'Lang': 'str'}
    doc = ('get_supported_languages(): the returned list holds exactly the languages of the stored texts (the texts '
           '_flat_list() yields: C20.flat_list) - every listed language belongs to a stored text, the language of every '
           'stored text is listed, and no language is listed twice')
    feasibility_ematch_only = True
    feasibility_timeout_ms = 100

    def setup(self, b):
        st = b.st
        self.F = z3.Const('all_stored_texts', SeqVal)
        j = z3.Int('j!F')
        st.assume(z3.ForAll([j], z3.Implies(z3.And(0 <= j, j < z3.Length(self.F)), z3.And(
            Val.is_ref(self.F[j]), Val.oid(self.F[j]) > 0, Val.oid(self.F[j]) < FRESH_BASE))))
        self.F_lang = st.get_arr('f:Lang')
        st.assume(z3.ForAll([j], z3.Implies(z3.And(0 <= j, j < z3.Length(self.F)), Val.is_str(self.lang(self.F[j])))))
        self.o = b.obj('self', cls=(LS, 'LocalizationStorage'))
        # sel(k, v): v is the language of one of the first k stored texts
        self.sel = z3.Function('language_of_first', IntS, Val, BoolS)
        k, v = z3.Int('k!l'), z3.Const('v!l', Val)
        st.assume(z3.ForAll([v], z3.Not(self.sel(0, v))))
        st.assume(z3.ForAll([k, v], z3.Implies(k >= 0, self.sel(k + 1, v) == z3.Or(self.sel(k, v), v == self.lang(self.F[k]))),
                            patterns=[self.sel(k + 1, v)]))
        return self.o, [], {}

    def lang(self, t):
        return z3.Select(self.F_lang, Val.oid(t))

    def callees(self, ex):
        def flat(ex_, st, args, kwargs):
            r = st.alloc('list')
            st.set_list_seq(r, self.F)
            return r
        return {f'{LS}:LocalizationStorage._flat_list': Pure(flat, name='_flat_list(): all stored texts (C20.flat_list)')}

    def loops(self, ex):
        def inv(ex_, st, env):
            res = ex_.concrete_kind(st, st.locals['result'], ('ref',))
            members = z3.Select(st.get_arr('S'), res.e)
            v = z3.Const('v!inv', Val)
            return {'set_holds_the_languages_of_the_consumed_texts': z3.ForAll([v], z3.Select(members, v) == self.sel(env['_k'], v)),
                    'is_a_set': z3.And(z3.Select(st.get_arr('C'), res.e) == ex_.ctx.builtin_class_ids['set'],
                                       z3.Select(st.get_arr('SN'), res.e) >= 0)}
        return {0: LoopSpec(inv=inv, havoc_heap=['S', 'SN'])}

    def post(self, ex, st0, st, outcome, b):
        if outcome[0] == 'exc':
            ex.oblige(st, 'never_raises', z3.BoolVal(False), info={'exc': repr(outcome[1])})
            return
        r = ex.concrete_kind(st, outcome[1], ('ref',))
        ex.oblige(st, 'result_is_a_list_object', z3.BoolVal(r.kind == 'ref'))
        if r.kind != 'ref':
            # the result is a value the contract cannot relate to the stored texts (e.g. a cached field)
            for nm in ('every_listed_language_is_the_language_of_a_stored_text', 'the_language_of_every_stored_text_is_listed',
                       'no_language_is_listed_twice'):
                ex.oblige(st, nm, z3.BoolVal(False))
            return
        R = st.list_seq(r)
        n = z3.Length(self.F)
        i, j, v = z3.Int('i!p'), z3.Int('j!p'), z3.Const('v!p', Val)
        ex.oblige(st, 'every_listed_language_is_the_language_of_a_stored_text',
                  z3.ForAll([j], z3.Implies(z3.And(0 <= j, j < z3.Length(R)), self.sel(n, R[j]))))
        ex.oblige(st, 'the_language_of_every_stored_text_is_listed',
                  z3.ForAll([v], z3.Implies(self.sel(n, v), z3.Exists([j], z3.And(0 <= j, j < z3.Length(R), R[j] == v)))))
        ex.oblige(st, 'no_language_is_listed_twice',
                  z3.ForAll([i, j], z3.Implies(z3.And(0 <= i, i < j, j < z3.Length(R)), R[i] != R[j])))


@register
class FlatList(FnCheck):
    id = 'C20.flat_list'
    prop = 'C20'
    tag = 'S'
    target = f'{LS}:LocalizationStorage._flat_list'
    container_hints = {'self._localized_texts': 'dict'}
    feasibility_ematch_only = True
    feasibility_timeout_ms = 100
    doc = ('_flat_list(ref_list): without a reference list every key of the text store is visited, with one exactly the '
           'given references; each visited reference contributes exactly the list of texts stored under it (an unknown '
           'reference nothing), appended in order; the stored entries are not changed')

    def setup(self, b):
        st = b.st
        ids = b.ex.ctx.builtin_class_ids
        self.store = b.obj('_localized_texts')
        st.assume(z3.Select(st.get_arr('C'), self.store.e) == ids['dict'])
        st.assume(z3.Select(st.get_arr('DN'), self.store.e) >= 0)
        self.dk0, self.dv0 = z3.Select(st.get_arr('DK'), self.store.e), z3.Select(st.get_arr('DV'), self.store.e)
        k = z3.Const('k!s', Val)
        st.assume(z3.ForAll([k], z3.Implies(z3.Select(self.dk0, k), z3.And(
            Val.is_ref(z3.Select(self.dv0, k)), Val.oid(z3.Select(self.dv0, k)) > 0, Val.oid(z3.Select(self.dv0, k)) < FRESH_BASE,
            z3.Select(st.get_arr('C'), Val.oid(z3.Select(self.dv0, k))) == ids['list']))))
        self.L0 = st.get_arr('L')
        self.given = b.bool('ref_list_given')
        self.refs = b.obj('ref_list')
        st.assume(z3.Select(st.get_arr('C'), self.refs.e) == ids['list'])
        self.refs_seq = z3.Select(st.get_arr('L'), self.refs.e)
        self.o = b.obj('self', cls=(LS, 'LocalizationStorage'), _localized_texts=self.store)
        b.distinct(self.o, self.store, self.refs)
        b.ex.ctx.sym_defaultdicts = [(self.store.e, 'list')]
        arg = vany(z3.If(self.given.e, Val.ref(self.refs.e), Val.none), maybe_none=True, path='ref_list')
        return self.o, [arg], {}

    def loops(self, ex):
        def inv(ex_, st, env):
            kk = z3.Const('k!u', Val)
            dk1, dv1 = z3.Select(st.get_arr('DK'), self.store.e), z3.Select(st.get_arr('DV'), self.store.e)
            # (the store is a defaultdict: looking up an unknown reference adds an empty entry - existing entries stay)
            goals = {'stored_entries_untouched': z3.ForAll([kk], z3.Implies(z3.Select(self.dk0, kk), z3.And(
                z3.Select(dk1, kk), z3.Select(dv1, kk) == z3.Select(self.dv0, kk))))}
            if env['_phase'] == 'entry':
                seq = env['_seq']
                j, k = z3.Int('j!h'), z3.Const('k!h', Val)
                goals['visits_the_given_references_or_every_key'] = z3.If(
                    self.given.e, seq == self.refs_seq,
                    z3.And(z3.ForAll([j], z3.Implies(z3.And(0 <= j, j < z3.Length(seq)), z3.Select(self.dk0, seq[j]))),
                           z3.ForAll([k], z3.Implies(z3.Select(self.dk0, k),
                                                     z3.Exists([j], z3.And(0 <= j, j < z3.Length(seq), seq[j] == k))))))
            if env['_phase'] == 'preserve':
                texts = ex_.concrete_kind(st, st.locals['texts'], ('ref',))
                before = st.ghost['c:texts0']
                h = st.box(st.locals['handle'])
                stored = z3.Select(self.L0, Val.oid(z3.Select(self.dv0, h)))
                goals['reference_contributes_exactly_its_stored_texts'] = st.list_seq(texts) == z3.If(
                    z3.Select(self.dk0, h), z3.Concat(before, stored), before)
            return goals
        return {0: LoopSpec(inv=inv, havoc_heap=['L'])}

    def hooks(self, ex):
        chk = self

        class H:
            tracked_names = ()

            @staticmethod
            def on_loop_head(ex_, st, node):
                t = st.locals.get('texts')
                if t is not None:
                    t = ex_.concrete_kind(st, t, ('ref',))
                    st.ghost['c:texts0'] = st.list_seq(t)
                    # the stored lists are not the result list: they keep their content (frame of the arbitrary iteration)
                    k = z3.Const('k!f', Val)
                    st.assume(z3.ForAll([k], z3.Implies(z3.Select(chk.dk0, k),
                                                        z3.Select(st.get_arr('L'), Val.oid(z3.Select(chk.dv0, k)))
                                                        == z3.Select(chk.L0, Val.oid(z3.Select(chk.dv0, k))))))
        return H

    def post(self, ex, st0, st, outcome, b):
        if outcome[0] == 'exc':
            ex.oblige(st, 'never_raises', z3.BoolVal(False), info={'exc': repr(outcome[1])})


import ast as _ast   # noqa: E402
from pyvc.api import ScanCheck   # noqa: E402


@register
class NumberOfLinesIsRecomputed(ScanCheck):
    id = 'C20.number_of_lines_is_computed_from_the_current_text'
    prop = 'C20'
    doc = ('the line count a NumberOfLines constraint is compared with (member n_o_l, read by _n_o_l_filter) is computed '
           'for every candidate text of every request from the text it has NOW: _calc_number_of_lines is a function of '
           'its string argument alone (one parameter, no attribute of it is read, no other name than builtins), '
           'filter_localized_texts assigns text.n_o_l = _calc_number_of_lines(text.text) unconditionally for each text '
           'of the candidate list before any filter reads it, and n_o_l is assigned nowhere else')

    def scan(self, repo):
        import builtins
        mod = repo.module(LS)
        fn = mod.functions.get('_calc_number_of_lines') if hasattr(mod, 'functions') else None
        if fn is None:
            fn = next((n for n in mod.tree.body if isinstance(n, _ast.FunctionDef) and n.name == '_calc_number_of_lines'), None)
        out = []
        ok = fn is not None and len(fn.args.args) == 1 and not fn.args.kwonlyargs and fn.args.vararg is None
        if ok:
            p = fn.args.args[0].arg
            attrs = [_ast.unparse(a) for a in _ast.walk(fn) if isinstance(a, _ast.Attribute) and isinstance(a.value, _ast.Name)
                     and a.value.id == p and a.attr not in ('split', 'splitlines', 'count')]
            names = {x.id for x in _ast.walk(fn) if isinstance(x, _ast.Name) and isinstance(x.ctx, _ast.Load)}
            foreign = sorted(x for x in names if x != p and not hasattr(builtins, x))
            stores = [_ast.unparse(t) for s in _ast.walk(fn) if isinstance(s, (_ast.Assign, _ast.AugAssign, _ast.AnnAssign))
                      for t in (s.targets if isinstance(s, _ast.Assign) else [s.target]) if isinstance(t, (_ast.Attribute, _ast.Subscript))]
            ok = not attrs and not foreign and not stores
        out.append(('line_count_is_a_function_of_the_string', bool(ok), {}))
        # assignments of n_o_l in the module
        sites = []
        for n in _ast.walk(mod.tree):
            if isinstance(n, (_ast.Assign, _ast.AugAssign, _ast.AnnAssign)):
                for t in (n.targets if isinstance(n, _ast.Assign) else [n.target]):
                    if isinstance(t, _ast.Attribute) and t.attr == 'n_o_l':
                        sites.append((_ast.unparse(t), _ast.unparse(n.value) if n.value is not None else ''))
            if isinstance(n, _ast.Call) and _ast.unparse(n.func) == 'setattr' and len(n.args) >= 2 and 'n_o_l' in _ast.unparse(n.args[1]):
                sites.append(('setattr', _ast.unparse(n)))
        # that assignment is an unconditional top-level statement of a loop over the candidate list in
        # filter_localized_texts: <v>.n_o_l = _calc_number_of_lines(<v>.text) for the loop variable <v>
        flt = mod.classes['LocalizationStorage']
        f = next((m for m in flt.body if isinstance(m, _ast.FunctionDef) and m.name == 'filter_localized_texts'), None)
        loop_ok, shaped = False, []
        if f is not None:
            for n in _ast.walk(f):
                if isinstance(n, _ast.For) and isinstance(n.target, _ast.Name) and isinstance(n.iter, _ast.Name):
                    v = n.target.id
                    for stmt in n.body:
                        if isinstance(stmt, _ast.Assign) and len(stmt.targets) == 1 \
                                and _ast.unparse(stmt.targets[0]) == f'{v}.n_o_l' \
                                and _ast.unparse(stmt.value) == f'_calc_number_of_lines({v}.text)':
                            loop_ok = True
                            shaped.append((_ast.unparse(stmt.targets[0]), _ast.unparse(stmt.value)))
        out.append(('one_assignment_from_the_current_text', len(sites) == 1 and sites == shaped, {'sites': str(sites)}))
        out.append(('computed_for_every_candidate_of_the_request', loop_ok, {}))
        return out


@register
class CalcNumberOfLines(FnCheck):
    id = 'C20.calc_number_of_lines'
    prop = 'C20'
    target = f'{LS}:_calc_number_of_lines'
    doc = '_calc_number_of_lines(text) == number of newline-separated segments of text (len(text.split("\\n")))'

    def setup(self, b):
        self.t = b.str('text')
        return None, [self.t], {}

    def post(self, ex, st0, st, outcome, b):
        if outcome[0] == 'exc':
            ex.oblige(st, 'never_raises', z3.BoolVal(False), info={'exc': repr(outcome[1])})
            return
        r = ex.concrete_kind(st, outcome[1], ('int',))
        from pyvc import models as _m
        split = _m.uf('str_split', StrS, StrS, SeqVal)
        ex.oblige(st, 'is_the_number_of_newline_separated_segments',
                  (r.e == z3.Length(split(self.t.e, z3.StringVal('\n')))) if r.kind == 'int' else z3.BoolVal(False))
