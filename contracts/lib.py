"""Shared helpers and trusted (assumed) contracts on library functions."""
from __future__ import annotations

import ast

import z3

from pyvc.api import (Pure, Havoc, Summary, V, Val, IntS, RealS, BoolS, StrS, SeqVal, NONE, Raise, Unsupported, fresh,
                      vany, vbool, vint, vreal, vstr, vbytes, vref, vtuple, truthy, as_int, as_real, unbox_as)


def rand_int_closed(name='random.randint'):
    def fn(ex, st, args, kwargs):
        a, b = as_int(ex, st, args[0]), as_int(ex, st, args[1])
        r = fresh(IntS, 'randint')
        st.assume(z3.And(a <= r, r <= b))
        st.ghost.setdefault('c:draws', ())
        st.ghost['c:draws'] = st.ghost['c:draws'] + ((name, r),)
        return vint(r)
    return Pure(fn, name=f'{name}(a,b) in [a,b]', trusted=True)


def rand_range(name='random.randrange'):
    def fn(ex, st, args, kwargs):
        a, b = as_int(ex, st, args[0]), as_int(ex, st, args[1])
        r = fresh(IntS, 'randrange')
        st.assume(z3.And(a <= r, r < b))
        st.ghost.setdefault('c:draws', ())
        st.ghost['c:draws'] = st.ghost['c:draws'] + ((name, r),)
        return vint(r)
    return Pure(fn, name=f'{name}(a,b) in [a,b)', trusted=True)


def const_bool(ghost_key):
    """Callee returning one fixed symbolic boolean per execution (e.g. Event.is_set())."""
    def fn(ex, st, args, kwargs):
        b = st.ghost.get('c:' + ghost_key)
        if b is None:
            b = fresh(BoolS, ghost_key)
            st.ghost['c:' + ghost_key] = b
        return vbool(b)
    return Pure(fn, name=ghost_key)


def dataclass_ctor(repo, modname, dotted, trusted_note=None):
    """Constructor summary of a (possibly nested) dataclass; field order is read from the real source."""
    mod = repo.module(modname)
    parts = dotted.split('.')
    cdef = mod.classes[parts[0]]
    for p in parts[1:]:
        cdef = [n for n in cdef.body if isinstance(n, ast.ClassDef) and n.name == p][0]
    fields = [n.target.id for n in cdef.body if isinstance(n, ast.AnnAssign) and isinstance(n.target, ast.Name)]

    def fn(ex, st, args, kwargs):
        o = st.alloc(dotted)
        vals = dict(zip(fields, args))
        vals.update(kwargs)
        if set(vals) != set(fields):
            raise Unsupported(f'dataclass {dotted}: fields {fields} vs given {list(vals)}')
        for f, v in vals.items():
            st.write_field(o, f, v)
        return o
    return Pure(fn, name=f'dataclass {dotted}')


class EscapeHooks:
    """Structural exception-escape analysis: every call of unknown code may raise; calls are classified by name.

    ghost 'calls' = tuple of callee names in call order (python-level; functions analysed have no loops around
    the tracked calls, otherwise the check must use a LoopSpec)."""

    def __init__(self, io_names=(), pure_names=(), no_raise=(), tracked=(), havoc_heap=True):
        self.io_names = set(io_names)      # socket / stream I/O: exceptions from these are connection errors
        self.no_raise = set(no_raise)      # callees with a proved / trusted `raises = {}` contract
        self.tracked_names = set(tracked) | self.io_names
        self.havoc = havoc_heap

    def _outcomes(self, ex, st, name, node, args=()):
        for a in args:
            st.escape(a)
        short = name.split('.')[-1].split(':')[-1]
        st.ghost['calls'] = st.ghost.get('calls', ()) + (short,)
        if self.havoc:
            st.havoc_heap()
        outs = []
        if short not in self.no_raise:
            origin = ('io:' if short in self.io_names else 'call:') + short + f' line {getattr(node, "lineno", "?")}'
            e = st.fork()
            e.ghost['calls'] = e.ghost['calls'][:-1] + (short + '!',)   # '!' = this call raised
            outs.append((e, Raise(ex.mk_exc('*', origin))))
        outs.append((st, vany(fresh(Val, 'ret_' + short))))
        return outs

    def on_call(self, ex, st, fv, keys, args, kwargs, node):
        if fv.t in ('builtin', 'lambda'):
            return None
        if fv.t == 'method' and fv.recv.kind in ('str', 'bytes', 'tuple'):
            return None
        if fv.t == 'method' and fv.recv.kind == 'ref' and fv.recv.cls in ('list', 'dict', 'set', 'tuple'):
            return None
        if fv.t == 'repo' and fv.qual in ex.ctx.inline:
            return None
        name = keys[0] if keys else getattr(fv, 'name', 'call')
        recv = [fv.recv] if fv.t == 'method' else ([fv.self_v] if getattr(fv, 'self_v', None) is not None else [])
        return self._outcomes(ex, st, name, node, recv + list(args) + list(kwargs.values()))

    def on_call_value(self, ex, st, f, args, kwargs, node):
        return self._outcomes(ex, st, f.path or 'value', node, list(args) + list(kwargs.values()))


def is_lock(key: str, name: str) -> bool:
    """`with <key>:` enters the lock member `name` of an object: the access path of the context manager must be an
    attribute path ending in that member (self.mdib_lock, self._mdib.mdib_lock, mdib.mdib_lock; a local alias of such a
    value keeps its path). A bare local variable that merely carries the name (e.g. `mdib_lock = nullcontext()`) is not
    the lock."""
    return key.endswith('.' + name)
