"""Shared helpers and trusted (assumed) contracts on library functions."""
from __future__ import annotations

import ast

import z3

from pyvc.api import (Pure, Havoc, Summary, V, Val, IntS, RealS, BoolS, StrS, SeqVal, NONE, Raise, Unsupported, fresh,
                      vany, vbool, vint, vreal, vstr, vbytes, vref, vtuple, truthy, as_int, as_real, unbox_as)


def rand_int_closed(name='random.randint'):
    def fn(ex, st, args, kwargs):
        a, b = as_int(ex, st, args[0]), as_int(ex, st, args[1])
        r = fresh(IntS, 'randint')
        st.assume(z3.And(a <= r, r <= b))
        st.ghost.setdefault('c:draws', ())
        st.ghost['c:draws'] = st.ghost['c:draws'] + ((name, r),)
        return vint(r)
    return Pure(fn, name=f'{name}(a,b) in [a,b]', trusted=True)


def rand_range(name='random.randrange'):
    def fn(ex, st, args, kwargs):
        a, b = as_int(ex, st, args[0]), as_int(ex, st, args[1])
        r = fresh(IntS, 'randrange')
        st.assume(z3.And(a <= r, r < b))
        st.ghost.setdefault('c:draws', ())
        st.ghost['c:draws'] = st.ghost['c:draws'] + ((name, r),)
        return vint(r)
    return Pure(fn, name=f'{name}(a,b) in [a,b)', trusted=True)


def const_bool(ghost_key):
    """Callee returning one fixed symbolic boolean per execution (e.g. Event.is_set())."""
    def fn(ex, st, args, kwargs):
        b = st.ghost.get('c:' + ghost_key)
        if b is None:
            b = fresh(BoolS, ghost_key)
            st.ghost['c:' + ghost_key] = b
        return vbool(b)
    return Pure(fn, name=ghost_key)


def dataclass_ctor(repo, modname, dotted, trusted_note=None):
    """Constructor summary of a (possibly nested) dataclass; field order is read from the real source."""
    mod = repo.module(modname)
    parts = dotted.split('.')
    cdef = mod.classes[parts[0]]
    for p in parts[1:]:
        cdef = [n for n in cdef.body if isinstance(n, ast.ClassDef) and n.name == p][0]
    fields = [n.target.id for n in cdef.body if isinstance(n, ast.AnnAssign) and isinstance(n.target, ast.Name)]

    def fn(ex, st, args, kwargs):
        o = st.alloc(dotted)
        vals = dict(zip(fields, args))
        vals.update(kwargs)
        if set(vals) != set(fields):
            raise Unsupported(f'dataclass {dotted}: fields {fields} vs given {list(vals)}')
        for f, v in vals.items():
            st.write_field(o, f, v)
        return o
    return Pure(fn, name=f'dataclass {dotted}')
