"""C04 - reports are complete, truthful and delivered in version order."""
from __future__ import annotations

import z3

from pyvc.api import (FnCheck, SeqCheck, ScanCheck, LemmaCheck, LoopSpec, Pure, Inline, register, Build, V, Val, SeqVal,
                      IntS, BoolS, NONE, Raise, Unsupported, fresh, vany, vint, vbool, vref, vtuple, as_int, unbox_as)

PI = 'sdc11073.provider.providerimpl'
SE = 'sdc11073.provider.porttypes.stateeventserviceimpl'

KINDS = (('metric_updates', 'send_episodic_metric_report', 'store_metric_states'),
         ('alert_updates', 'send_episodic_alert_report', 'store_alert_states'),
         ('comp_updates', 'send_episodic_component_state_report', 'store_component_states'),
         ('ctxt_updates', 'send_episodic_context_report', 'store_context_states'),
         ('op_updates', 'send_episodic_operational_state_report', 'store_operational_states'),
         ('rt_updates', 'send_realtime_samples_report', None))


def _mk_list(b, name, seq):
    st = b.st
    o = b.obj(name)
    st.assume(z3.Select(st.get_arr('C'), o.e) == b.ex.ctx.builtin_class_ids['list'])
    st.assume(z3.Select(st.get_arr('L'), o.e) == seq)
    return o


@register
class VersionGroupProperty(FnCheck):
    id = 'C04.mdib_version_group'
    prop = 'C04'
    target = 'sdc11073.mdib.mdibbase:MdibBase.mdib_version_group'
    doc = ('MdibBase.mdib_version_group returns a new MdibVersionGroup holding exactly the current mdib_version, '
           'sequence_id and instance_id of the MDIB, and changes nothing')

    def setup(self, b):
        self.v, self.s, self.i = b.int('mdib_version'), b.str('sequence_id'), b.any('instance_id', maybe_none=True)
        self.o = b.obj('self', cls=('sdc11073.mdib.mdibbase', 'MdibBase'), mdib_version=self.v, sequence_id=self.s,
                       instance_id=self.i)
        return self.o, [], {}

    def callees(self, ex):
        from contracts.lib import dataclass_ctor
        c = dataclass_ctor(ex.repo, 'sdc11073.mdib.mdibbase', 'MdibVersionGroup')
        return {'sdc11073.mdib.mdibbase:MdibVersionGroup': c, 'MdibVersionGroup': c}

    def post(self, ex, st0, st, outcome, b):
        if outcome[0] == 'exc':
            ex.oblige(st, 'never_raises', z3.BoolVal(False), info={'exc': repr(outcome[1])})
            return
        r = st.box(outcome[1])
        o = Val.oid(r)
        ex.oblige(st, 'returns_new_group_with_current_values', z3.And(
            Val.is_ref(r), o >= 10 ** 9,
            z3.Select(st.get_arr('f:mdib_version'), o) == Val.int(self.v.e),
            z3.Select(st.get_arr('f:sequence_id'), o) == Val.str(self.s.e),
            z3.Select(st.get_arr('f:instance_id'), o) == self.i.e))
        for f in ('mdib_version', 'sequence_id', 'instance_id'):
            ex.oblige(st, f'mdib_{f}_unchanged', z3.Select(st.get_arr('f:' + f), self.o.e) == z3.Select(st0.get_arr('f:' + f), self.o.e))


@register
class SendEpisodicReports(FnCheck):
    id = 'C04.send_episodic_reports'
    prop = 'C04'
    target = f'{PI}:SdcProvider._send_episodic_reports'
    doc = ('_send_episodic_reports(result): for each state kind, the port type\'s send function is called exactly once '
           'iff the committed transaction changed states of that kind, with exactly the list of the transaction result '
           'and the version group read from the MDIB in this critical section; the description modification report '
           'goes first and gets exactly (updated, created, deleted, all_states()); the same lists are handed to the '
           'periodic store labelled with that very mdib_version; nothing else is sent')

    def setup(self, b):
        st = b.st
        self.lists = {}
        fields = {}
        for attr, _, _ in KINDS:
            seq = z3.Const(f'{attr}_seq', SeqVal)
            self.lists[attr] = (_mk_list(b, attr, seq), seq)
            fields[attr] = self.lists[attr][0]
        for attr in ('descr_updated', 'descr_created', 'descr_deleted', 'all_states_result'):
            self.lists[attr] = (_mk_list(b, attr, z3.Const(f'{attr}_seq', SeqVal)), None)
        self.has_descr = b.bool('has_descriptor_updates')
        self.tr = b.obj('transaction_result', has_descriptor_updates=self.has_descr,
                        descr_updated=self.lists['descr_updated'][0], descr_created=self.lists['descr_created'][0],
                        descr_deleted=self.lists['descr_deleted'][0], **fields)
        self.version = b.int('mdib_version')
        self.seq_id = b.str('sequence_id')
        self.inst_id = b.any('instance_id', maybe_none=True)
        mdib = b.obj('mdib', cls=('sdc11073.mdib.providermdib', 'ProviderMdib'), mdib_version=self.version,
                     sequence_id=self.seq_id, instance_id=self.inst_id)
        self.svc = {n: b.obj(n) for n in ('description_event_service', 'state_event_service', 'context_service',
                                          'waveform_service')}
        hosted = b.obj('hosted_services', **self.svc)
        self.prh = b.obj('periodic_reports_handler')
        self.o = b.obj('self', cls=(PI, 'SdcProvider'), _mdib=mdib, hosted_services=hosted,
                       _periodic_reports_handler=self.prh)
        b.distinct(self.tr, mdib, hosted, self.prh, self.o, *self.svc.values(),
                   *[v[0] for v in self.lists.values()])
        st.ghost['log'] = ()
        return self.o, [self.tr], {}

    field_types = {'mdib_version': 'int'}

    def is_commit_group(self, st, val):
        """val is a MdibVersionGroup whose three members are the MDIB's values of this critical section."""
        o = Val.oid(val)
        return z3.And(Val.is_ref(val),
                      z3.Select(st.get_arr('f:mdib_version'), o) == Val.int(self.version.e),
                      z3.Select(st.get_arr('f:sequence_id'), o) == Val.str(self.seq_id.e),
                      z3.Select(st.get_arr('f:instance_id'), o) == self.inst_id.e)

    def callees(self, ex):
        def logger(name):
            def fn(ex_, st, args, kwargs):
                recv = st.ghost.get('c:recv')
                st.ghost['log'] += ((name, tuple(st.box(a) for a in args), recv),)
                return NONE
            return Pure(fn, name=name)
        out = {'*.all_states': Pure(lambda e, st, a, k: self.lists['all_states_result'][0], name='TransactionResult.all_states()'),
               '*.send_descriptor_updates': logger('send_descriptor_updates')}
        for _, send, store in KINDS:
            out['*.' + send] = logger(send)
            if store:
                out['*.' + store] = logger(store)
        return out

    def hooks(self, ex):
        chk = self

        class H:
            tracked_names = ('mdib_version_group',)

            def on_attr_read(self, ex_, st, o, attr, node):
                if attr == 'mdib_version_group':
                    # contract of the property MdibBase.mdib_version_group (C04.mdib_version_group)
                    g = st.alloc('MdibVersionGroup')
                    for f in ('mdib_version', 'sequence_id', 'instance_id'):
                        st.arr['f:' + f] = z3.Store(st.get_arr('f:' + f), g.e, z3.Select(st.get_arr('f:' + f), o.e))
                    st.ghost['n_group_reads'] = st.ghost.get('n_group_reads', 0) + 1
                    return [(st, g)]
                return None

            def on_call(self, ex_, st, fv, keys, args, kwargs, node):
                if fv.t == 'method':
                    st.ghost['c:recv'] = st.box(fv.recv)
                return None
        return H()

    def post(self, ex, st0, st, outcome, b):
        if outcome[0] == 'exc':
            ex.oblige(st, 'never_raises_itself', z3.BoolVal(False), info={'exc': repr(outcome[1])})
            return
        log = st.ghost['log']
        names = [n for n, _, _ in log]

        def ref(name):
            return Val.ref(self.lists[name][0].e)
        # description first
        want_descr = self.has_descr.e
        n_descr = names.count('send_descriptor_updates')
        ex.oblige(st, 'description_report_iff_descriptor_updates',
                  z3.And(z3.Implies(want_descr, z3.BoolVal(n_descr == 1)), z3.Implies(z3.Not(want_descr), z3.BoolVal(n_descr == 0))))
        if n_descr:
            ex.oblige(st, 'description_report_goes_first', z3.BoolVal(names[0] == 'send_descriptor_updates'))
            a = log[names.index('send_descriptor_updates')][1]
            ex.oblige(st, 'description_report_content', z3.And(
                a[0] == ref('descr_updated'), a[1] == ref('descr_created'), a[2] == ref('descr_deleted'),
                a[3] == ref('all_states_result'), self.is_commit_group(st, a[4])) if len(a) == 5 else z3.BoolVal(False))
            ex.oblige(st, 'description_report_by_description_service', log[names.index('send_descriptor_updates')][2]
                      == Val.ref(self.svc['description_event_service'].e))
        service_of = {'send_episodic_context_report': 'context_service', 'send_realtime_samples_report': 'waveform_service'}
        for attr, send, store in KINDS:
            lst, seq = self.lists[attr]
            nonempty = z3.Length(seq) > 0
            n_send = names.count(send)
            ex.oblige(st, f'{attr}.report_iff_states_changed', z3.And(
                z3.Implies(nonempty, z3.BoolVal(n_send == 1)), z3.Implies(z3.Not(nonempty), z3.BoolVal(n_send == 0))))
            if n_send:
                name, a, recv = log[names.index(send)]
                ex.oblige(st, f'{attr}.report_carries_exactly_the_committed_list_and_version',
                          z3.And(a[0] == Val.ref(lst.e), self.is_commit_group(st, a[1])) if len(a) == 2 else z3.BoolVal(False))
                ex.oblige(st, f'{attr}.sent_by_its_port_type',
                          recv == Val.ref(self.svc[service_of.get(send, 'state_event_service')].e))
            if store:
                n_store = names.count(store)
                ex.oblige(st, f'{attr}.periodic_store_iff_states_changed', z3.And(
                    z3.Implies(nonempty, z3.BoolVal(n_store == 1)), z3.Implies(z3.Not(nonempty), z3.BoolVal(n_store == 0))))
                if n_store:
                    name, a, recv = log[names.index(store)]
                    ex.oblige(st, f'{attr}.periodic_store_labelled_with_commit_version', z3.And(
                        Val.is_int(a[0]), Val.i(a[0]) == self.version.e, a[1] == Val.ref(lst.e),
                        recv == Val.ref(self.prh.e)) if len(a) == 2 else z3.BoolVal(False))
        known = {'send_descriptor_updates'} | {s for _, s, _ in KINDS} | {s for _, _, s in KINDS if s}
        ex.oblige(st, 'nothing_else_is_sent', z3.BoolVal(all(n in known for n in names)))
        # the transaction result itself is not modified
        for attr, _, _ in KINDS:
            lst, seq = self.lists[attr]
            ex.oblige(st, f'{attr}.result_list_unchanged', st.list_seq(lst) == seq)


# ---------------------------------------------------------------------------------------------------------------
# grouping of states by source MDS
class GroupSpec:
    """Spec function filt(key, i) = the states among the first i whose source_mds equals key, in order."""

    def declare(self, b, n_name='states'):
        st = b.st
        self.S = z3.Const(f'{n_name}_seq', SeqVal)
        self.states = _mk_list(b, n_name, self.S)
        self.F0 = st.get_arr('f:source_mds')
        j = z3.Int('j!el')
        st.assume(z3.ForAll([j], z3.Implies(z3.And(0 <= j, j < z3.Length(self.S)), z3.And(
            Val.is_ref(self.S[j]), Val.oid(self.S[j]) > 0, Val.oid(self.S[j]) < 10 ** 9))))
        self.filt = z3.RecFunction(fresh_name_('filt'), Val, IntS, SeqVal)
        key, i = z3.Const('key!f', Val), z3.Int('i!f')
        z3.RecAddDefinition(self.filt, [key, i], z3.If(
            i <= 0, z3.Empty(SeqVal),
            z3.If(self.src(self.S[i - 1]) == key, z3.Concat(self.filt(key, i - 1), z3.Unit(self.S[i - 1])),
                  self.filt(key, i - 1))))

    def src(self, x):
        return z3.Select(self.F0, Val.oid(x))

    def grouped(self, ex, st, d, k, in_loop):
        """dict d holds exactly the groups of the first k states."""
        ids = ex.ctx.builtin_class_ids
        dk, dv = z3.Select(st.get_arr('DK'), d), z3.Select(st.get_arr('DV'), d)
        L, C, A = st.get_arr('L'), st.get_arr('C'), st.get_arr('A')
        key, k2 = z3.Const('key!g', Val), z3.Const('key2!g', Val)
        lst = Val.oid(z3.Select(dv, key))
        parts = {
            'keys_are_the_occurring_source_mds': z3.ForAll([key], z3.Select(dk, key) == (z3.Length(self.filt(key, k)) > 0)),
            'groups_are_loop_allocated_lists': z3.ForAll([key], z3.Implies(z3.Select(dk, key), z3.And(
                Val.is_ref(z3.Select(dv, key)), lst >= 2 * 10 ** 9, z3.Select(A, lst), z3.Select(C, lst) == ids['list']))),
            'group_content': z3.ForAll([key], z3.Implies(z3.Select(dk, key), z3.Select(L, lst) == self.filt(key, k))),
            'groups_pairwise_distinct': z3.ForAll([key, k2], z3.Implies(z3.And(z3.Select(dk, key), z3.Select(dk, k2), key != k2),
                                                                        z3.Select(dv, key) != z3.Select(dv, k2))),
            'size_nonneg': z3.Select(st.get_arr('DN'), d) >= 0,
        }
        if in_loop:
            parts['frame'] = z3.And(z3.Select(L, self.states.e) == self.S, z3.Select(C, self.states.e) == ids['list'],
                                    z3.Select(C, d) == ids['dict'])
        return parts


_FN = [0]


def fresh_name_(p):
    _FN[0] += 1
    return f'{p}!{_FN[0]}'


@register
class SeparateBySourceMds(FnCheck, GroupSpec):
    id = 'C04.separate_states_by_source_mds'
    prop = 'C04'
    target = f'{SE}:_separate_states_by_source_mds'
    doc = ('_separate_states_by_source_mds(states) returns a mapping whose keys are exactly the source MDS handles that '
           'occur, each mapped to exactly the states of that MDS in their original order (every state in exactly one '
           'group); ValueError iff some state has no source MDS; the input list is not modified')

    def setup(self, b):
        self.declare(b)
        return None, [self.states], {}

    def loops(self, ex):
        def inv(ex_, st, env):
            d = st.locals['lookup']
            return self.grouped(ex_, st, d.e, env['_k'], True)
        return {0: LoopSpec(inv=inv, havoc_heap=['L', 'DK', 'DV', 'DN', 'C', 'A'])}

    def post(self, ex, st0, st, outcome, b):
        n = z3.Length(self.S)
        none_group = self.filt(Val.none, n)
        if outcome[0] == 'exc':
            ex.oblige(st, 'only_value_error', z3.BoolVal(outcome[1].cls == 'ValueError'), info={'exc': repr(outcome[1])})
            ex.oblige(st, 'error_only_for_states_without_source_mds', z3.Length(none_group) > 0)
            return
        r = ex.concrete_kind(st, outcome[1], ('ref',))
        g = self.grouped(ex, st, r.e, n, False)
        ex.oblige(st, 'keys_are_exactly_the_occurring_source_mds', g['keys_are_the_occurring_source_mds'])
        ex.oblige(st, 'each_group_holds_exactly_its_states_in_order', g['group_content'])
        ex.oblige(st, 'groups_are_separate_lists', z3.And(g['groups_are_loop_allocated_lists'], g['groups_pairwise_distinct']))
        ex.oblige(st, 'no_group_without_source_mds', z3.Length(none_group) == 0)
        ex.oblige(st, 'input_list_unchanged', st.list_seq(self.states) == self.S)


GROUP = z3.Function('group_of', Val, SeqVal)   # the groups returned by _separate_states_by_source_mds (= filt(key, n))
LOOP_BASE = 2 * 10 ** 9


class _FillBase(FnCheck):
    prop = 'C04'

    def sep_summary(self):
        """Callee contract of _separate_states_by_source_mds (C04.separate_states_by_source_mds): the result maps
        exactly the keys with a non-empty group to a separate new list holding that group; GROUP abstracts filt."""
        def fn(ex_, st, args, kwargs):
            a = ex_.concrete_kind(st, args[0], ('ref',))
            ids = ex_.ctx.builtin_class_ids
            d = st.new_dict()
            st.escape(d)
            for arr in ('DK', 'DV', 'DN'):
                st.arr[arr] = z3.Store(st.get_arr(arr), d.e, z3.Select(fresh(st.get_arr(arr).sort(), 'sep'), d.e))
            # The group lists are new objects with oids >= LOOP_BASE. No object of the pre-state or of this execution so
            # far lives there (this summary is only used outside loops), so their content is described by constraining
            # the current arrays at those oids instead of havocking the heap.
            if st.sym_alloc:
                raise Unsupported('separate summary inside a loop body')
            dk, dv = z3.Select(st.get_arr('DK'), d.e), z3.Select(st.get_arr('DV'), d.e)
            key, k2 = z3.Const('key!s', Val), z3.Const('key2!s', Val)
            lst = Val.oid(z3.Select(dv, key))
            st.assume(z3.ForAll([key], z3.Select(dk, key) == (z3.Length(GROUP(key)) > 0)))
            st.assume(z3.ForAll([key], z3.Implies(z3.Select(dk, key), z3.And(
                Val.is_ref(z3.Select(dv, key)), lst >= LOOP_BASE, z3.Select(st.get_arr('A'), lst),
                z3.Select(st.get_arr('C'), lst) == ids['list'], z3.Select(st.get_arr('L'), lst) == GROUP(key)))))
            st.assume(z3.ForAll([key, k2], z3.Implies(z3.And(z3.Select(dk, key), z3.Select(dk, k2), key != k2),
                                                      z3.Select(dv, key) != z3.Select(dv, k2))))
            st.assume(z3.Select(st.get_arr('DN'), d.e) >= 0)
            st.assume(z3.Length(GROUP(Val.none)) == 0)
            st.ghost['c:sep_arg'] = a.e
            st.ghost['c:groups'] = d.e
            e = st.fork()
            return [(e, Raise(ex_.mk_exc('ValueError', 'states without source mds'))), (st, d)]
        return Pure(fn, name='_separate_states_by_source_mds (C04.separate_states_by_source_mds)')

    def part_summary(self):
        def fn(ex_, st, args, kwargs):
            p = st.alloc('ReportPart')
            vl = st.new_list()
            st.write_field(p, 'values_list', vl)
            st.write_field(p, 'SourceMds', NONE)
            n = st.ghost['n_parts']
            st.ghost['parts'] = z3.Store(st.ghost['parts'], n, p.e)
            st.ghost['n_parts'] = n + 1
            return p
        return Pure(fn, name='report.add_report_part() appends and returns a new, empty part ([F] C04.report_part_api)')

    def part_clauses(self, st, j, key):
        p = z3.Select(st.ghost['parts'], j)
        vl = z3.Select(st.get_arr('f:values_list'), p)
        return {'part_is_new': z3.And(p >= LOOP_BASE, z3.Select(st.get_arr('A'), p)),
                'part_source_mds': z3.Select(st.get_arr('f:SourceMds'), p) == key,
                'part_list_is_new': z3.And(Val.is_ref(vl), Val.oid(vl) >= LOOP_BASE, z3.Select(st.get_arr('A'), Val.oid(vl)),
                                           z3.Select(st.get_arr('C'), Val.oid(vl)) == self._list_id),
                'part_states': z3.Select(st.get_arr('L'), Val.oid(vl)) == GROUP(key)}

    def part_ok(self, st, j, key):
        return z3.And(*self.part_clauses(st, j, key).values())

    def group_at(self, st, d, key):
        dk, dv = z3.Select(st.get_arr('DK'), d), z3.Select(st.get_arr('DV'), d)
        li = Val.oid(z3.Select(dv, key))
        return z3.And(z3.Select(dk, key), Val.is_ref(z3.Select(dv, key)), z3.Select(st.get_arr('C'), li) == self._list_id,
                      z3.Select(st.get_arr('A'), li), li >= LOOP_BASE, z3.Select(st.get_arr('L'), li) == GROUP(key))


@register
class FillEpisodicReportBody(_FillBase):
    id = 'C04.fill_episodic_report_body'
    target = f'{SE}:fill_episodic_report_body'
    doc = ('fill_episodic_report_body(report, states): one report part per group returned by '
           '_separate_states_by_source_mds(states) - i.e. per source MDS that occurs - labelled with that MDS and '
           'holding exactly the states of that group in order; every group has its part, there are as many parts as '
           'groups; a state without source MDS => ValueError and no part')

    def setup(self, b):
        st = b.st
        self.S = z3.Const('states_seq', SeqVal)
        self.states = _mk_list(b, 'states', self.S)
        self.report = b.obj('report')
        st.ghost['n_parts'] = z3.IntVal(0)
        st.ghost['parts'] = z3.Const('parts0', z3.ArraySort(IntS, IntS))
        return None, [self.report, self.states], {}

    def callees(self, ex):
        return {f'{SE}:_separate_states_by_source_mds': self.sep_summary(), '*.add_report_part': self.part_summary()}

    def loops(self, ex):
        self._list_id = ex.ctx.builtin_class_ids['list']

        def inv(ex_, st, env):
            k, seq, n_it = env['_k'], env['_seq'], env['_n']
            d = st.ghost['c:groups']
            j = z3.Int('j!fe')
            out = {nm: z3.ForAll([j], z3.Implies(z3.And(0 <= j, j < k), c))
                   for nm, c in self.part_clauses(st, j, seq[j]).items()}
            out['one_part_per_group_so_far'] = st.ghost['n_parts'] == k
            out['groups_untouched'] = z3.ForAll([j], z3.Implies(z3.And(0 <= j, j < n_it), self.group_at(st, d, seq[j])))
            out['input_unchanged'] = z3.And(z3.Select(st.get_arr('L'), self.states.e) == self.S,
                                            z3.Select(st.get_arr('C'), self.states.e) == self._list_id)
            return out
        return {0: LoopSpec(inv=inv, havoc_heap=['L', 'C', 'A', 'f:SourceMds', 'f:values_list'])}

    def post(self, ex, st0, st, outcome, b):
        if outcome[0] == 'exc':
            ex.oblige(st, 'only_the_missing_source_mds_error', z3.BoolVal(outcome[1].cls == 'ValueError'), info={'exc': repr(outcome[1])})
            ex.oblige(st, 'no_part_before_the_error', st.ghost['n_parts'] == 0)
            return
        if 'c:groups' not in st.ghost:
            ex.oblige(st, 'states_are_grouped_by_source_mds', z3.BoolVal(False))
            return
        ex.oblige(st, 'grouping_applied_to_the_given_states', st.ghost['c:sep_arg'] == self.states.e)
        d = st.ghost['c:groups']
        np_ = st.ghost['n_parts']
        ex.oblige(st, 'as_many_parts_as_source_mds', np_ == z3.Select(st.get_arr('DN'), d))
        key = z3.Const('key!pp', Val)
        j = z3.Int('j!pp')
        ex.oblige(st, 'every_source_mds_has_its_part', z3.ForAll([key], z3.Implies(
            z3.Length(GROUP(key)) > 0, z3.Exists([j], z3.And(0 <= j, j < np_, self.part_ok(st, j, key))))))
        ex.oblige(st, 'every_part_holds_a_group', z3.ForAll([j], z3.Implies(z3.And(0 <= j, j < np_), z3.Exists([key], z3.And(
            z3.Length(GROUP(key)) > 0, self.part_ok(st, j, key))))))
        ex.oblige(st, 'input_list_unchanged', st.list_seq(self.states) == self.S)


# ---------------------------------------------------------------------------------------------------------------
# the port type functions that build and send one report
class _SendReport(FnCheck):
    prop = 'C04'
    report_cls = None       # attribute of data_model.msg_types the function must instantiate
    fill = 'fill_episodic_report_body'
    as_node = False         # True: the function serialises the report itself (context service)

    def setup(self, b):
        st = b.st
        self.states = _mk_list(b, 'states', z3.Const('states_seq', SeqVal))
        self.mvg = b.obj('mdib_version_group')
        self.mgr = b.obj('subscriptions_manager')
        hosting = b.obj('hosting_service', subscriptions_manager=self.mgr)
        self.o = b.obj('self', cls=self.cls, hosting_service=hosting)
        st.ghost['log'] = ()
        return self.o, [self.states, self.mvg], {}

    def callees(self, ex):
        def log(name, ret=None):
            def fn(ex_, st, args, kwargs):
                st.ghost['log'] += ((name, tuple(st.box(a) for a in args), st.ghost.get('c:recv')),)
                return ret(ex_, st) if ret else NONE
            return Pure(fn, name=name)
        out = {'*.set_mdib_version_group': log('set_mdib_version_group (C04.set_mdib_version_group)'),
               '*.send_to_subscribers': log('send_to_subscribers (C08.send_to_subscribers)'),
               '*.as_etree_node': log('as_etree_node', ret=lambda e, st: st.alloc('Element')),
               '*.partial_map': Pure(lambda e, st, a, k: st.alloc('nsmap'), name='ns_helper.partial_map')}
        def mk_report(cls_name):
            def fn(ex_, st, args, kwargs):
                # data_model.msg_types.<ReportClass>(): a new report of that class; its action is a class constant
                r = st.alloc('Report')
                act = st.alloc('Action')
                st.write_field(act, 'value', vany(ex_.ctx.opaque_const('action-of:' + cls_name)))
                st.write_field(r, 'action', act)
                st.write_field(r, 'State', st.new_list())
                st.ghost['created'] = st.ghost.get('created', ()) + (('msg_types.' + cls_name, r.e),)
                return r
            return Pure(fn, name=f'msg_types.{cls_name}() (new report)')
        for c in ('EpisodicMetricReport', 'EpisodicAlertReport', 'EpisodicOperationalStateReport', 'EpisodicComponentReport',
                  'EpisodicContextReport', 'WaveformStream', 'PeriodicMetricReport', 'PeriodicAlertReport',
                  'PeriodicOperationalStateReport', 'PeriodicComponentReport', 'PeriodicContextReport',
                  'DescriptionModificationReport', 'OperationInvokedReport', 'SystemErrorReport'):
            out['*.' + c] = mk_report(c)
        for f in ('fill_episodic_report_body', 'fill_periodic_report_body'):
            mod = self.target.split(':')[0]
            out[f'{SE}:{f}'] = log(f + ' (C04.' + f + ')')
            out[f] = out[f'{SE}:{f}']
        return out

    def hooks(self, ex):
        chk = self

        class H:
            tracked_names = ()

            def on_call(self, ex_, st, fv, keys, args, kwargs, node):
                if fv.t == 'method':
                    st.ghost['c:recv'] = st.box(fv.recv)
                return None

        return H()

    def post(self, ex, st0, st, outcome, b):
        if outcome[0] == 'exc':
            ex.oblige(st, 'never_raises_itself', z3.BoolVal(False), info={'exc': repr(outcome[1])})
            return
        created = st.ghost.get('created', ())
        ex.oblige(st, 'creates_exactly_one_report_of_its_own_type', z3.BoolVal(
            len(created) == 1 and created[0][0].endswith('msg_types.' + self.report_cls)),
            info={'created': str([c[0] for c in created])})
        if len(created) != 1:
            return
        rep = Val.ref(created[0][1])
        log = st.ghost['log']
        names = [n.split(' ')[0] for n, _, _ in log]
        n_send = names.count('send_to_subscribers')
        ex.oblige(st, 'sent_exactly_once', z3.BoolVal(n_send == 1))
        ex.oblige(st, 'version_group_set_exactly_once', z3.BoolVal(names.count('set_mdib_version_group') == 1))
        if n_send != 1 or names.count('set_mdib_version_group') != 1:
            return
        i_send = names.index('send_to_subscribers')
        i_set = names.index('set_mdib_version_group')
        _, a_set, recv_set = log[i_set]
        ex.oblige(st, 'report_labelled_with_the_given_version_group', z3.And(recv_set == rep, a_set[0] == Val.ref(self.mvg.e)))
        _, a_send, recv_send = log[i_send]
        ex.oblige(st, 'sent_through_the_subscription_manager_of_the_service', recv_send == Val.ref(self.mgr.e))
        action = ex.ctx.opaque_const('action-of:' + self.report_cls)
        ex.oblige(st, 'sent_with_the_action_of_the_report_and_the_given_version_group',
                  z3.And(a_send[1] == action, a_send[2] == Val.ref(self.mvg.e)) if len(a_send) == 3 else z3.BoolVal(False))
        if self.fill:
            n_fill = names.count(self.fill)
            ex.oblige(st, 'body_filled_exactly_once_from_the_given_states', z3.BoolVal(
                n_fill == 1 and sum(1 for n in names if n.startswith('fill_')) == 1))
            if n_fill == 1:
                i_fill = names.index(self.fill)
                _, a_fill, _ = log[i_fill]
                ex.oblige(st, 'body_filled_into_the_sent_report', z3.And(a_fill[0] == rep, a_fill[1] == Val.ref(self.states.e)))
                ex.oblige(st, 'filled_and_labelled_before_sending', z3.BoolVal(i_fill < i_send and i_set < i_send))
        else:
            lst = z3.Select(st.get_arr('f:State'), created[0][1])
            ex.oblige(st, 'stream_holds_exactly_the_given_states', z3.Select(st.get_arr('L'), Val.oid(lst)) == st.list_seq(self.states))
            ex.oblige(st, 'labelled_before_sending', z3.BoolVal(i_set < i_send))
        if self.as_node:
            n_node = names.count('as_etree_node')
            ex.oblige(st, 'serialised_once_after_fill_and_label', z3.BoolVal(
                n_node == 1 and names.index('as_etree_node') > max(i_set, names.index(self.fill) if self.fill in names else -1)
                and names.index('as_etree_node') < i_send))
            if n_node == 1:
                ex.oblige(st, 'the_serialised_report_is_what_is_sent', log[names.index('as_etree_node')][2] == rep)
        else:
            ex.oblige(st, 'the_report_is_what_is_sent', a_send[0] == rep)
        ex.oblige(st, 'given_states_unchanged', st.list_seq(self.states) == st0.list_seq(self.states))


def _mk_send(idn, modname, clsname, fn, report_cls, fill='fill_episodic_report_body', as_node=False):
    ns = {'id': f'C04.{idn}', 'target': f'{modname}:{clsname}.{fn}', 'cls': (modname, clsname), 'report_cls': report_cls,
          'fill': fill, 'as_node': as_node,
          'doc': f'{clsname}.{fn}(states, versions): builds one {report_cls}, labels it with the given version group, '
                 f'fills it from exactly the given states and hands it exactly once to send_to_subscribers of the '
                 f'service\'s subscription manager with the action of {report_cls} and the given version group'}
    return register(type('Send_' + idn, (_SendReport,), ns))


CS = 'sdc11073.provider.porttypes.contextserviceimpl'
WS = 'sdc11073.provider.porttypes.waveformserviceimpl'
_mk_send('send_episodic_metric_report', SE, 'StateEventService', 'send_episodic_metric_report', 'EpisodicMetricReport')
_mk_send('send_episodic_alert_report', SE, 'StateEventService', 'send_episodic_alert_report', 'EpisodicAlertReport')
_mk_send('send_episodic_operational_state_report', SE, 'StateEventService', 'send_episodic_operational_state_report',
         'EpisodicOperationalStateReport')
_mk_send('send_episodic_component_state_report', SE, 'StateEventService', 'send_episodic_component_state_report',
         'EpisodicComponentReport')
_mk_send('send_episodic_context_report', CS, 'ContextService', 'send_episodic_context_report', 'EpisodicContextReport',
         as_node=True)
_mk_send('send_realtime_samples_report', WS, 'WaveformService', 'send_realtime_samples_report', 'WaveformStream', fill=None)
# the periodic counterparts: same protocol, body filled by fill_periodic_report_body from the retained entries
for _fn, _cls in (('send_periodic_metric_report', 'PeriodicMetricReport'), ('send_periodic_alert_report', 'PeriodicAlertReport'),
                  ('send_periodic_operational_state_report', 'PeriodicOperationalStateReport'),
                  ('send_periodic_component_state_report', 'PeriodicComponentReport')):
    _mk_send(_fn, SE, 'StateEventService', _fn, _cls, fill='fill_periodic_report_body')


# ---------------------------------------------------------------------------------------------------------------
# delivery order: everything between the commit and the return of the subscriber's HTTP exchange runs on the
# committing thread inside the critical section proved by C02.transaction_manager
import ast

SYNC_CHAIN = (
    (PI, 'SdcProvider', '_send_episodic_reports'), (PI, 'SdcProvider', '_send_rt_notifications'),
    (SE, 'StateEventService', 'send_episodic_metric_report'), (SE, 'StateEventService', 'send_episodic_alert_report'),
    (SE, 'StateEventService', 'send_episodic_operational_state_report'),
    (SE, 'StateEventService', 'send_episodic_component_state_report'),
    (SE, None, 'fill_episodic_report_body'), (SE, None, '_separate_states_by_source_mds'),
    (CS, 'ContextService', 'send_episodic_context_report'), (WS, 'WaveformService', 'send_realtime_samples_report'),
    ('sdc11073.provider.porttypes.descriptioneventserviceimpl', 'DescriptionEventService', 'send_descriptor_updates'),
    ('sdc11073.provider.porttypes.descriptioneventserviceimpl', 'DescriptionEventService', 'mk_description_modification_report_body'),
    ('sdc11073.provider.subscriptionmgr_base', 'SubscriptionsManagerBase', 'send_to_subscribers'),
    ('sdc11073.provider.subscriptionmgr_base', 'SubscriptionsManagerBase', '_send_notification_report'),
    ('sdc11073.provider.subscriptionmgr', 'BicepsSubscription', 'send_notification_report'),
    ('sdc11073.provider.subscriptionmgr_async', 'BicepsSubscriptionAsync', 'async_send_notification_report'),
    ('sdc11073.provider.subscriptionmgr_async', 'BICEPSSubscriptionsManagerBaseAsync', 'send_to_subscribers'),
    ('sdc11073.provider.subscriptionmgr_async', 'BICEPSSubscriptionsManagerBaseAsync', '_async_send_notification_report'),
    ('sdc11073.provider.subscriptionmgr_async', 'BICEPSSubscriptionsManagerBaseAsync', '_coro_send_to_subscribers'),
)
HANDOFF = {'Thread', 'Timer', 'submit', 'create_task', 'ensure_future', 'call_soon', 'call_soon_threadsafe', 'call_later',
           'run_in_executor', 'put', 'put_nowait', 'start_new_thread', 'apply_async', 'map_async', 'start'}


@register
class NoAsyncHandoff(ScanCheck):
    id = 'C04.send_chain_is_synchronous'
    prop = 'C04'
    doc = ('[F] every function between the commit (assignment of the transaction observable inside both MDIB locks, '
           'C02.transaction_manager) and the subscriber\'s HTTP exchange runs on the committing thread: none of them '
           'starts a thread / task / timer or queues work; the asynchronous manager blocks on the result of the '
           'coroutine it schedules (run_coro = run_coroutine_threadsafe(...).result()); the observable binding calls '
           'its listeners inline. Together with mutual exclusion of the transaction lock and strictly increasing '
           'versions per commit (C02.version_increments) each subscriber receives the reports in version order.')
    trusted = ('threading locks are mutually exclusive', 'asyncio.run_coroutine_threadsafe(...).result() returns after the coroutine finished',
               'asyncio.gather preserves no order among subscribers (irrelevant: one report per subscriber per call)')

    def scan(self, repo):
        out = []
        for modname, cls, fn in SYNC_CHAIN:
            try:
                mod = repo.module(modname)
                if cls is None:
                    fdef = mod.functions[fn]
                else:
                    fdef = None
                    for m2, cdef in repo.mro(modname, cls):
                        for n in cdef.body:
                            if isinstance(n, (ast.FunctionDef, ast.AsyncFunctionDef)) and n.name == fn:
                                fdef = n
                                break
                        if fdef is not None:
                            break
            except Exception as ex:  # noqa: BLE001
                out.append((f'{cls or "module"}.{fn}.present', False, {'error': repr(ex)}))
                continue
            if fdef is None:
                out.append((f'{cls or "module"}.{fn}.present', False, {}))
                continue
            bad = []
            for n in ast.walk(fdef):
                if isinstance(n, ast.Call):
                    name = n.func.attr if isinstance(n.func, ast.Attribute) else (n.func.id if isinstance(n.func, ast.Name) else '')
                    if name in HANDOFF:
                        bad.append(ast.unparse(n)[:80])
            out.append((f'{cls or "module"}.{fn}.no_thread_task_or_queue_handoff', not bad, {'sites': str(bad)}))
        # run_coro blocks on the result
        mod = repo.module('sdc11073.provider.subscriptionmgr_async')
        ok = False
        for cdef in mod.classes.values():
            for n in cdef.body:
                if isinstance(n, ast.FunctionDef) and n.name == 'run_coro':
                    rets = [ast.unparse(r.value) for r in ast.walk(n) if isinstance(r, ast.Return) and r.value is not None]
                    ok = any(r.startswith('asyncio.run_coroutine_threadsafe(') and r.endswith('.result()') for r in rets) \
                        and all(r == 'None' or r.endswith('.result()') for r in rets)
        out.append(('run_coro_blocks_until_the_coroutine_finished', ok, {}))
        # the async send_to_subscribers consumes the result of run_coro in the same call
        fdef = [n for n in mod.classes['BICEPSSubscriptionsManagerBaseAsync'].body
                if isinstance(n, ast.FunctionDef) and n.name == 'send_to_subscribers'][0]
        calls = [ast.unparse(n) for n in ast.walk(fdef) if isinstance(n, ast.Call) and isinstance(n.func, ast.Attribute) and n.func.attr == 'run_coro']
        out.append(('async_manager_waits_for_all_subscribers', len(calls) == 1 and '_coro_send_to_subscribers' in calls[0], {'calls': str(calls)}))
        # observables call listeners inline
        op = repo.module('sdc11073.observableproperties')
        bad = []
        for n in ast.walk(op.tree):
            if isinstance(n, ast.Call):
                name = n.func.attr if isinstance(n.func, ast.Attribute) else (n.func.id if isinstance(n.func, ast.Name) else '')
                if name in HANDOFF - {'start'}:
                    bad.append(ast.unparse(n)[:80])
        out.append(('observable_listeners_are_called_inline', not bad, {'sites': str(bad)}))
        # the provider binds _send_episodic_reports to the transaction observable (and nothing else sends state reports)
        pim = repo.module(PI)
        binds = [ast.unparse(n) for n in ast.walk(pim.tree) if isinstance(n, ast.Call) and ast.unparse(n.func).endswith('properties.bind')]
        out.append(('reports_are_triggered_by_the_transaction_observable',
                    any('transaction=self._send_episodic_reports' in b for b in binds), {'binds': str(binds)}))
        return out


@register
class SetVersionGroup(FnCheck):
    id = 'C04.set_mdib_version_group'
    prop = 'C04'
    target = 'sdc11073.xml_types.msg_types:AbstractReport.set_mdib_version_group'
    doc = 'report.set_mdib_version_group(g) stores exactly g.mdib_version, g.sequence_id, g.instance_id in the report'

    def setup(self, b):
        self.v, self.s, self.i = b.any('mdib_version'), b.any('sequence_id'), b.any('instance_id', maybe_none=True)
        self.g = b.obj('group', mdib_version=self.v, sequence_id=self.s, instance_id=self.i)
        self.o = b.obj('self')
        b.distinct(self.g, self.o)
        return self.o, [self.g], {}

    def post(self, ex, st0, st, outcome, b):
        if outcome[0] == 'exc':
            ex.oblige(st, 'never_raises', z3.BoolVal(False), info={'exc': repr(outcome[1])})
            return
        f = lambda n: z3.Select(st.get_arr('f:' + n), self.o.e)  # noqa: E731
        ex.oblige(st, 'report_carries_the_group', z3.And(f('MdibVersion') == self.v.e, f('SequenceId') == self.s.e,
                                                         f('InstanceId') == self.i.e))
        for n in ('mdib_version', 'sequence_id', 'instance_id'):
            ex.oblige(st, f'group_{n}_unchanged', z3.Select(st.get_arr('f:' + n), self.g.e) == z3.Select(st0.get_arr('f:' + n), self.g.e))


@register
class SerializeValidates(FnCheck):
    id = 'C04.serialize_message_validates_first'
    prop = 'C04'
    tag = 'S'
    opaque_ok = True
    target = 'sdc11073.pysoap.msgfactory:MessageFactory.serialize_message'
    doc = ('serialize_message(message, validate=True): the envelope with its headers and, when present, the payload '
           'element are passed to _validate_node before any byte is written; a validation error propagates and no bytes '
           'are returned; the payload element appended to the body is the validated one')
    trusted = ('lxml XMLSchema.assertValid decides schema validity (validate_node)',)

    def setup(self, b):
        self.validate = b.bool('validate')
        self.has_payload = b.bool('has_payload')
        self.payload = b.obj('payload_element')
        pv = vany(z3.If(self.has_payload.e, Val.ref(self.payload.e), Val.none), maybe_none=True, path='payload')
        self.pmsg = b.obj('p_msg', payload_element=pv)
        self.msg = b.obj('message', p_msg=self.pmsg)
        self.o = b.obj('self', cls=('sdc11073.pysoap.msgfactory', 'MessageFactory'))
        b.st.ghost['log'] = ()
        return self.o, [self.msg], {'validate': self.validate}

    optional_fields = ('payload_element',)

    def callees(self, ex):
        def val(ex_, st, args, kwargs):
            st.ghost['log'] += (('validate', st.box(args[0])),)
            e = st.fork()
            e.ghost['log'] = e.ghost['log'][:-1] + (('validate!', st.box(args[0])),)
            return [(e, Raise(ex_.mk_exc('etree.DocumentInvalid', '_validate_node'))), (st, NONE)]

        def write(ex_, st, args, kwargs):
            st.ghost['log'] += (('write', None),)
            return NONE

        def append(ex_, st, args, kwargs):
            st.ghost['log'] += (('append', st.box(args[0])),)
            return NONE
        return {'*._validate_node': Pure(val, name='_validate_node (raises on invalid)'),
                '*.write': Pure(write, name='ElementTree.write'), '*.append': Pure(append, name='body.append')}

    def post(self, ex, st0, st, outcome, b):
        log = st.ghost['log']
        names = [n for n, _ in log]
        if 'validate!' in names:
            ex.oblige(st, 'validation_error_propagates_and_nothing_is_written',
                      z3.BoolVal(outcome[0] == 'exc' and 'write' not in names))
            return
        if outcome[0] != 'ret':
            return
        n_val = names.count('validate')
        w = names.index('write') if 'write' in names else None
        ex.oblige(st, 'bytes_are_written', z3.BoolVal(w is not None))
        if w is None:
            return
        before = [i for i, n in enumerate(names) if n == 'validate' and i < w]
        ex.oblige(st, 'envelope_validated_before_write', z3.Implies(self.validate.e, z3.BoolVal(len(before) >= 1)))
        appended = [(i, v) for i, (n, v) in enumerate(log) if n == 'append' and i < w]
        late = [i for i, (n, v) in enumerate(log) if n == 'append' and i > w]
        ex.oblige(st, 'nothing_is_added_after_serialisation', z3.BoolVal(not late))
        for k, (i, v) in enumerate(appended):
            ex.oblige(st, 'everything_put_into_the_body_was_validated_before', z3.Implies(self.validate.e, z3.Or(
                *[log[j][1] == v for j in before if j < i]) if [j for j in before if j < i] else z3.BoolVal(False)))


# ---------------------------------------------------------------------------------------------------------------
DE = 'sdc11073.provider.porttypes.descriptioneventserviceimpl'
PART_FIELDS = ('ModificationType', 'ParentDescriptor', 'SourceMds', 'Descriptor', 'State')


@register
class DescriptionReportBody(FnCheck):
    id = 'C04.description_modification_report_body'
    prop = 'C04'
    target = f'{DE}:DescriptionEventService.mk_description_modification_report_body'
    field_types = {'Handle': 'str', 'DescriptorHandle': 'str'}
    doc = ('mk_description_modification_report_body(versions, updated, created, deleted, states): the report is labelled '
           'with the given version group; the lists are walked in the order updated, created, deleted; every descriptor '
           '(arbitrary iteration) gets exactly one new part that carries the modification type of the list d came from, '
           'ParentDescriptor = d.parent_handle, SourceMds = d.source_mds, Descriptor = [d] and as states exactly the '
           'given states whose DescriptorHandle equals d.Handle (membership; order not modelled)')

    def setup(self, b):
        st = b.st
        self.lists = {}
        for n in ('updated', 'created', 'deleted', 'updated_states'):
            seq = z3.Const(n + '_seq', SeqVal)
            self.lists[n] = (_mk_list(b, n, seq), seq)
            j = z3.Int('j!' + n)
            st.assume(z3.ForAll([j], z3.Implies(z3.And(0 <= j, j < z3.Length(seq)), z3.And(
                Val.is_ref(seq[j]), Val.oid(seq[j]) > 0, Val.oid(seq[j]) < 10 ** 9))))
        self.mvg = b.obj('mdib_version_group')
        self.dmt = b.obj('DescriptionModificationType', UPDATE=b.any('UPDATE'), CREATE=b.any('CREATE'), DELETE=b.any('DELETE'))
        msg_types = b.obj('msg_types', DescriptionModificationType=self.dmt)
        dm = b.obj('data_model', msg_types=msg_types, ns_helper=b.obj('nsh'), msg_names=b.obj('msg_names'))
        sd = b.obj('sdc_definitions', data_model=dm)
        self.o = b.obj('self', cls=(DE, 'DescriptionEventService'), _sdc_definitions=sd)
        b.distinct(self.o, sd, dm, msg_types, self.dmt, self.mvg, *[v[0] for v in self.lists.values()])
        st.ghost['n_parts'] = z3.IntVal(0)
        st.ghost['parts'] = z3.Const('parts0', z3.ArraySort(IntS, IntS))
        st.ghost['log'] = ()
        self.F0 = {f: st.get_arr('f:' + f) for f in ('parent_handle', 'source_mds', 'Handle', 'DescriptorHandle')}
        return self.o, [self.mvg, self.lists['updated'][0], self.lists['created'][0], self.lists['deleted'][0],
                        self.lists['updated_states'][0]], {}

    def callees(self, ex):
        def mk_report(ex_, st, args, kwargs):
            r = st.alloc('Report')
            st.ghost['c:report'] = r.e
            return r

        def set_group(ex_, st, args, kwargs):
            st.ghost['log'] += (('set_group', st.ghost.get('c:recv'), st.box(args[0])),)
            return NONE

        def add_part(ex_, st, args, kwargs):
            p = st.alloc('ReportPart')
            st.write_field(p, 'Descriptor', st.new_list())
            st.write_field(p, 'State', st.new_list())
            for f in ('ModificationType', 'ParentDescriptor', 'SourceMds'):
                st.write_field(p, f, NONE)
            n = st.ghost['n_parts']
            st.ghost['parts'] = z3.Store(st.ghost['parts'], n, p.e)
            st.ghost['n_parts'] = n + 1
            return p

        def as_node(ex_, st, args, kwargs):
            st.ghost['log'] += (('as_etree_node', st.ghost.get('c:recv'), None),)
            return st.alloc('Element')
        return {'*.DescriptionModificationReport': Pure(mk_report, name='msg_types.DescriptionModificationReport()'),
                '*.set_mdib_version_group': Pure(set_group, name='C04.set_mdib_version_group'),
                '*.add_report_part': Pure(add_part, name='report.add_report_part() ([F] C04.report_part_api)'),
                '*.partial_map': Pure(lambda e, s, a, k: s.alloc('nsmap'), name='ns_helper.partial_map'),
                '*.as_etree_node': Pure(as_node, name='report.as_etree_node')}

    def hooks(self, ex):
        class H:
            tracked_names = ()

            def on_call(self, ex_, st, fv, keys, args, kwargs, node):
                if fv.t == 'method':
                    st.ghost['c:recv'] = st.box(fv.recv)
                return None

            @staticmethod
            def on_loop_havoc(ex_, st, node):
                st.ghost['c:head_parts'] = st.ghost['n_parts']
                st.ghost['writes'] = ()

            @staticmethod
            def on_attr_write(ex_, st, o, attr, val, node):
                st.ghost['writes'] = st.ghost.get('writes', ()) + ((st.box(o), attr),)
                return None
        return H()

    def loops(self, ex):
        ids = ex.ctx.builtin_class_ids

        def inv(ex_, st, env):
            if env['_phase'] == 'entry':
                # which list is walked with which modification type (outer loop over a literal tuple is unrolled)
                st.ghost['c:phases'] = st.ghost.get('c:phases', ()) + ((env['_seq'], st.box(st.locals['modification_type'])),)
                return z3.BoolVal(True)
            if env['_phase'] != 'preserve':
                return z3.BoolVal(True)
            ob = lambda n, f: ex_.oblige(st, 'part.' + n, f, kind='loop')   # noqa: E731
            d = env['_seq'][env['_k'] - 1]
            n0 = st.ghost['c:head_parts']
            ob('exactly_one_part_per_descriptor', st.ghost['n_parts'] == n0 + 1)
            p = z3.Select(st.ghost['parts'], n0)
            F = lambda n: z3.Select(st.get_arr('f:' + n), p)   # noqa: E731
            L = st.get_arr('L')
            ob('modification_type_of_the_list_being_walked', F('ModificationType') == st.box(st.locals['modification_type']))
            ob('parent_and_source_mds_of_the_descriptor', z3.And(
                F('ParentDescriptor') == z3.Select(self.F0['parent_handle'], Val.oid(d)),
                F('SourceMds') == z3.Select(self.F0['source_mds'], Val.oid(d))))
            ob('holds_exactly_its_descriptor', z3.Select(L, Val.oid(F('Descriptor'))) == z3.Unit(d))
            states = z3.Select(L, Val.oid(F('State')))
            us = self.lists['updated_states'][1]
            hd = Val.s(z3.Select(self.F0['Handle'], Val.oid(d)))
            dh = lambda x: Val.s(z3.Select(self.F0['DescriptorHandle'], Val.oid(x)))   # noqa: E731
            i, q = z3.Int('i!ps'), z3.Int('q!ps')
            flt = st.ghost.get('c:last_filter')
            if flt is None:
                ob('states_selected_by_a_filter_over_the_given_states', z3.BoolVal(False))
                return z3.BoolVal(True)
            src_of, pos_of = flt['src_of'], flt['pos_of']      # witnesses (skolem functions of the comprehension model)
            ob('part_states_are_the_selected_states', states == flt['result'])
            sel = flt['result']
            ob('states_belong_to_its_descriptor', z3.ForAll([q], z3.Implies(z3.And(0 <= q, q < z3.Length(sel)), z3.And(
                0 <= src_of(q), src_of(q) < z3.Length(us), sel[q] == us[src_of(q)], dh(us[src_of(q)]) == hd))))
            ob('has_every_state_of_its_descriptor', z3.ForAll([i], z3.Implies(z3.And(
                0 <= i, i < z3.Length(us), dh(us[i]) == hd),
                z3.And(0 <= pos_of(i), pos_of(i) < z3.Length(sel), sel[pos_of(i)] == us[i]))))
            # frame: the iteration writes members of its own new part only and leaves the argument lists alone
            ob('writes_only_its_own_part', z3.And(*[t == Val.ref(p) for t, _ in st.ghost.get('writes', ())])
               if st.ghost.get('writes') else z3.BoolVal(True))
            ob('argument_lists_untouched', z3.And(*[z3.Select(L, lst.e) == sq for lst, sq in self.lists.values()]))
            return z3.BoolVal(True)
        return {1: LoopSpec(inv=inv, havoc_heap=[])}

    def finish(self, ex, st0, outcomes, b):
        names = {o.name for o in ex.ctx.obligations}
        ex.oblige(st0, 'every_descriptor_gets_a_part', z3.BoolVal('part.holds_exactly_its_descriptor' in names))

    def post(self, ex, st0, st, outcome, b):
        if outcome[0] == 'exc':
            ex.oblige(st, 'never_raises_itself', z3.BoolVal(False), info={'exc': repr(outcome[1])})
            return
        dmt = lambda n: z3.Select(st0.get_arr('f:' + n), self.dmt.e)   # noqa: E731
        phases = st.ghost.get('c:phases', ())
        want = (('updated', dmt('UPDATE')), ('created', dmt('CREATE')), ('deleted', dmt('DELETE')))
        ex.oblige(st, 'lists_walked_in_order_updated_created_deleted_with_their_type', z3.And(*[
            z3.And(phases[k][0] == self.lists[want[k][0]][1], phases[k][1] == want[k][1]) for k in range(3)])
            if len(phases) == 3 else z3.BoolVal(False))
        log = st.ghost['log']
        names = [n for n, _, _ in log]
        rep = Val.ref(st.ghost['c:report']) if 'c:report' in st.ghost else None
        ex.oblige(st, 'report_labelled_with_the_given_version_group', z3.And(
            z3.BoolVal(names.count('set_group') == 1), log[names.index('set_group')][1] == rep,
            log[names.index('set_group')][2] == Val.ref(self.mvg.e)) if rep is not None and 'set_group' in names else z3.BoolVal(False))
        ex.oblige(st, 'the_filled_report_is_serialised_last', z3.And(
            z3.BoolVal(names.count('as_etree_node') == 1 and names[-1] == 'as_etree_node'), log[-1][1] == rep)
            if rep is not None and names else z3.BoolVal(False))


# ---------------------------------------------------------------------------------------------------------------
# periodic reports: the retained entries are taken out of the store and sent; writers append concurrently
PR = 'sdc11073.provider.periodicreports'


@register
class PeriodicSendLoopAtomicTake(ScanCheck):
    id = 'C04.periodic_send_loop_takes_entries_atomically'
    prop = 'C04'
    doc = ('_simple_periodic_reports_send_loop (syntactic, exhaustive over the statements of the function): every '
           'statement that removes entries from a periodic store (del x[:], clear, pop, remove, slice assignment) lies '
           'inside a `with self._periodic_reports_lock:` block that also contains the snapshot `tmp = x[:]` of the same '
           'store before it - so snapshot and clearing are one critical section and an entry appended by a writer '
           '(C03.periodic_store, under the same lock) during the send is never wiped unsent - and the snapshot is what '
           'the sender is called with, outside the lock')
    trusted = ('threading.Lock mutual exclusion',)

    def scan(self, repo):
        import ast as _a
        mod, cdef, fn = repo.find(f'{PR}:PeriodicReportsHandler._simple_periodic_reports_send_loop')
        out = []

        def is_lock_with(n):
            return isinstance(n, _a.With) and any(_a.unparse(i.context_expr).endswith('._periodic_reports_lock') for i in n.items)
        locked = [n for n in _a.walk(fn) if is_lock_with(n)]
        inside = {id(x) for w in locked for x in _a.walk(w)}

        def removal_target(n):
            if isinstance(n, _a.Delete):
                for t in n.targets:
                    if isinstance(t, _a.Subscript):
                        return _a.unparse(t.value)
            if isinstance(n, _a.Assign) and any(isinstance(t, _a.Subscript) and isinstance(t.slice, _a.Slice) for t in n.targets):
                return _a.unparse([t for t in n.targets if isinstance(t, _a.Subscript)][0].value)
            if isinstance(n, _a.Expr) and isinstance(n.value, _a.Call) and isinstance(n.value.func, _a.Attribute) \
                    and n.value.func.attr in ('clear', 'pop', 'remove', 'popleft'):
                return _a.unparse(n.value.func.value)
            return None
        k = 0
        for n in _a.walk(fn):
            tgt = removal_target(n)
            if tgt is None:
                continue
            k += 1
            ok = id(n) in inside
            snap = False
            if ok:
                w = [w for w in locked if id(n) in {id(x) for x in _a.walk(w)}][0]
                for m in _a.walk(w):
                    if isinstance(m, _a.Assign) and isinstance(m.value, _a.Subscript) and isinstance(m.value.slice, _a.Slice) \
                            and _a.unparse(m.value.value) == tgt and m.lineno < n.lineno:
                        snap = True
            out.append((f'removal.{k}.inside_the_lock_after_its_snapshot', ok and snap,
                        {'line': n.lineno, 'store': tgt, 'inside_lock': ok, 'snapshot_before_in_same_section': snap}))
        out.append(('store_is_emptied_somewhere', k >= 1, {'removals': k}))
        # the sender gets the snapshot and runs outside the lock
        sends = [n for n in _a.walk(fn) if isinstance(n, _a.Call) and isinstance(n.func, _a.Name) and n.func.id == 'send_func']
        out.append(('sender_called_with_the_snapshot_outside_the_lock',
                    len(sends) == 1 and id(sends[0]) not in inside and sends[0].args and _a.unparse(sends[0].args[0]) == 'tmp',
                    {'sends': len(sends)}))
        return out


# Reports carry the version counters of the commit: the copy of a parent descriptor that goes into the description
# modification report is taken AFTER its version was incremented (under contract in C02, re-checked here).
from contracts import C02 as _c02   # noqa: E402


@register
class ParentReportedWithCommittedVersion(_c02.IncrementParentVersion):
    id = 'C04.parent_descriptor_reported_with_committed_version'
    prop = 'C04'


@register
class CommitAndNotificationInOneCriticalSection(_c02.TransactionManager):
    id = 'C04.commit_and_notification_in_one_critical_section'
    prop = 'C04'
    doc = ('_transaction_manager (proved under C02, re-checked here because report order = commit order rests on it): the '
           'commit and every publication of its result - the `transaction` observable the episodic reports are sent from '
           'and the `rt_updates` observable of the waveform stream - happen while the transaction lock and mdib_lock are '
           'held, so no other writer can commit or deliver between a commit and its report')
