"""Abstract byte stream (rfile / BytesIO / http response): ghost `rem` = bytes not yet consumed."""
from __future__ import annotations

import z3

from pyvc.api import Pure, V, Val, IntS, StrS, NONE, fresh, vbytes, vint, as_int


def read_summary(exact=False):
    """stream.read(n): returns a prefix of the remaining bytes, 0 <= len <= n; makes progress unless at EOF.

    exact=True models BytesIO (returns min(n, remaining) bytes); exact=False a socket file (may return fewer)."""
    def fn(ex, st, args, kwargs):
        rem = st.ghost['rem']
        ln = z3.Length(rem)
        k = fresh(IntS, 'nread')
        st.assume(z3.And(k >= 0, k <= ln))
        if args and args[0].kind != 'none':
            n = as_int(ex, st, args[0])
            st.assume(z3.Implies(n >= 0, k <= n))
            st.assume(z3.Implies(z3.And(n != 0, ln >= 1), k >= 1))
            if exact:
                st.assume(z3.Implies(n >= 0, k == z3.If(n < ln, n, ln)))
            st.assume(z3.Implies(n < 0, k == ln))
        else:
            st.assume(k == ln)
        st.ghost['rem'] = z3.SubString(rem, k, ln - k)
        st.ghost['nreads'] = st.ghost.get('nreads', z3.IntVal(0)) + 1
        return vbytes(z3.SubString(rem, 0, k))
    return Pure(fn, name='stream.read(n): prefix of remaining bytes, progress unless EOF', trusted=True)
