"""C02 - MDIB version counters are monotonic, gap-free and referentially consistent."""
from __future__ import annotations

import ast

import z3

from pyvc.api import (FnCheck, SeqCheck, ScanCheck, LoopSpec, Pure, Inline, register, Build, V, Val, SeqVal, IntS, RealS, BoolS,
                      StrS, NONE, Raise, Unsupported, fresh, vany, vint, vreal, vbool, vstr, vref, as_int, unbox_as,
                      truthy, field)
from pyvc.state import FRESH_BASE
from contracts.lib import is_lock

TR = 'sdc11073.mdib.transactions'
PM = 'sdc11073.mdib.providermdib'
MB = 'sdc11073.mdib.mdibbase'
SC = 'sdc11073.mdib.statecontainers'
DC = 'sdc11073.mdib.descriptorcontainers'


def locks(st):
    return st.ghost.get('locks', ())


class LockLog:
    tracked_names = ()

    def on_with_enter(self, ex, st, key, cm, node):
        st.ghost['locks'] = st.ghost.get('locks', ()) + (key,)

    def on_with_exit(self, ex, st, key, cm, node, sig):
        st.ghost['locks'] = st.ghost.get('locks', ())[:-1]


def self_err_possible(chk):
    return True


@register
class TransactionManager(FnCheck):
    id = 'C02.transaction_manager'
    prop = 'C02'
    tag = 'S'
    opaque_ok = True
    allow_yield = True
    abstract_untracked_ifs = True
    inline = (f'{MB}:MdibBase.logger',)
    target = f'{PM}:ProviderMdib._transaction_manager'
    doc = ('_transaction_manager (context manager): the transaction object is created, the application body runs, '
           'and the commit (process_transaction + assignment of the result that triggers the reports) happens while the '
           'transaction lock AND mdib_lock are held without interruption => one writer at a time, commit and '
           'notification in one critical section. If the body or the pre-commit handler raises, or the transaction is '
           'flagged as error, process_transaction is never called and no result is published (abort = no effect); '
           'current_transaction is always reset')
    trusted = ('threading.Lock / RLock mutual exclusion', 'contextlib.contextmanager protocol: an exception of the '
               'with-body is raised at the yield')

    def setup(self, b):
        self.o = b.obj('self', cls=(PM, 'ProviderMdib'))
        self.err = b.bool('transaction_error_flag')
        self.tr = b.obj('transaction')
        b.st.ghost['steps'] = ()
        return self.o, [b.any('transaction_type'), b.bool('set_determination_time')], {}

    def callees(self, ex):
        def factory(ex_, st, args, kwargs):
            st.ghost['steps'] += (('create', locks(st)),)
            return self.tr

        def process(ex_, st, args, kwargs):
            st.ghost['steps'] += (('process', locks(st)),)
            r = st.alloc('TransactionResult')
            st.ghost['c:result'] = r
            return [(st.fork(), Raise(ex_.mk_exc('*', 'process_transaction'))), (st, r)]

        def pre(ex_, st, args, kwargs):
            st.ghost['steps'] += (('pre_commit', locks(st)),)
            return [(st.fork(), Raise(ex_.mk_exc('*', 'pre_commit_handler'))), (st, NONE)]

        def post(ex_, st, args, kwargs):
            st.ghost['steps'] += (('post_commit', locks(st)),)
            return [(st.fork(), Raise(ex_.mk_exc('*', 'post_commit_handler'))), (st, NONE)]
        return {'self._transaction_factory': Pure(factory, name='transaction factory (C02.tx_init)'),
                '*.process_transaction': Pure(process, name='process_transaction (C02.process_*), may raise'),
                'self.pre_commit_handler': Pure(pre, name='pre-commit handler (application code)'),
                'self.post_commit_handler': Pure(post, name='post-commit handler (application code)')}

    def hooks(self, ex):
        chk = self

        class H(LockLog):
            tracked_names = ('transaction', 'current_transaction', 'error', 'rt_updates')

            def on_yield(self, ex_, st, v, node):
                st.ghost['steps'] += (('body', locks(st)),)
                st.ghost['c:yielded'] = st.box(v)
                e = st.fork()
                e.ghost['steps'] += (('body-raised', locks(st)),)
                return [(e, Raise(ex_.mk_exc('*', 'with-body'))), (st, NONE)]

            def on_attr_read(self, ex_, st, o, attr, node):
                if attr == 'error':
                    return [(st, vbool(chk.err.e))]
                if attr in ('pre_commit_handler', 'post_commit_handler'):
                    return None
                return None

            def on_attr_write(self, ex_, st, o, attr, val, node):
                if attr == 'transaction':
                    st.ghost['steps'] += (('publish', locks(st)),)
                    st.ghost['c:published'] = st.box(val)
                    return [(st, None)]
                if attr == 'current_transaction':
                    st.ghost['steps'] += (('current:=' + ('None' if val.kind == 'none' else 'tr'), locks(st)),)
                if attr == 'rt_updates':
                    # a second observable the provider sends waveform reports from: publishing through it is a step of
                    # the same critical section
                    st.ghost['steps'] += (('publish_rt', locks(st)),)
                return None
        return H()

    def post(self, ex, st0, st, outcome, b):
        steps = st.ghost['steps']
        names = [n for n, _ in steps]
        both = lambda lk: any(is_lock(k, '_tr_lock') for k in lk) and any(is_lock(k, 'mdib_lock') for k in lk)  # noqa: E731
        if not names:
            # nothing happened at all (only possible when entering the locks fails): no transaction, no commit
            ex.oblige(st, 'transaction_is_created', z3.BoolVal(outcome[0] == 'exc'), info={'outcome': repr(outcome[1])})
            return
        ex.oblige(st, 'everything_inside_both_locks', z3.BoolVal(all(both(lk) for _, lk in steps)))
        ex.oblige(st, 'current_transaction_always_reset', z3.BoolVal(names[-1] == 'current:=None'))
        ex.oblige(st, 'body_runs_on_the_created_transaction', z3.BoolVal(
            names[:3] == ['create', 'current:=tr', 'body']) if 'body' in names else z3.BoolVal(False))
        aborted = 'body-raised' in names
        if aborted:
            ex.oblige(st, 'aborted_body_never_commits', z3.BoolVal('process' not in names and 'publish' not in names
                                                                   and 'pre_commit' not in names))
            ex.oblige(st, 'body_exception_propagates', z3.BoolVal(outcome[0] == 'exc' and outcome[1].origin == 'with-body'))
            return
        if outcome[0] == 'exc' and 'pre_commit_handler' in outcome[1].origin:
            ex.oblige(st, 'failed_pre_commit_never_commits', z3.BoolVal('process' not in names and 'publish' not in names))
            return
        if outcome[0] == 'exc' and 'process_transaction' in outcome[1].origin:
            ex.oblige(st, 'failed_commit_publishes_nothing', z3.BoolVal('publish' not in names))
            return
        ex.oblige(st, 'error_flag_skips_commit', z3.Implies(self.err.e, z3.BoolVal('process' not in names and 'publish' not in names)))
        ex.oblige(st, 'commit_exactly_once_then_publish', z3.Implies(z3.Not(self.err.e), z3.BoolVal(
            names.count('process') == 1 and names.count('publish') == 1 and names.index('process') < names.index('publish'))))
        if 'c:published' in st.ghost and 'c:result' in st.ghost:
            ex.oblige(st, 'published_result_is_commit_result', st.ghost['c:published'] == Val.ref(st.ghost['c:result'].e))
        if outcome[0] == 'exc':
            # after the commit only observers of the per-category observables and the post-commit handler (application
            # code) can raise; the tables are already updated then (known limitation, see C03)
            ex.oblige(st, 'exceptions_after_commit_come_after_publication', z3.BoolVal('publish' in names),
                      info={'exc': repr(outcome[1])})


def mk_mdib(b: Build):
    st = b.st
    ids = b.ex.ctx.builtin_class_ids
    mv = b.int('mdib.mdib_version')
    states_tbl = b.obj('states_table')
    ctx_tbl = b.obj('context_states_table')
    descr_tbl = b.obj('descriptions_table')
    mdib = b.obj('mdib', cls=(PM, 'ProviderMdib'), mdib_version=mv, states=states_tbl, context_states=ctx_tbl,
                 descriptions=descr_tbl)
    b.distinct(mdib, states_tbl, ctx_tbl, descr_tbl)
    return mdib, mv, states_tbl, ctx_tbl, descr_tbl


@register
class TxInit(FnCheck):
    id = 'C02.tx_init'
    prop = 'C02'
    target = f'{TR}:_TransactionBase.__init__'
    doc = ('a transaction is created with new_mdib_version == current MdibVersion + 1 (the version its commit will '
           'produce), seven empty update dictionaries and no error flag; the MDIB is not touched')

    def setup(self, b):
        self.mdib, self.mv, *_ = mk_mdib(b)
        self.o = b.obj('self', cls=(TR, '_TransactionBase'))
        return self.o, [self.mdib, b.any('logger')], {}

    def post(self, ex, st0, st, outcome, b):
        if outcome[0] == 'exc':
            ex.oblige(st, 'never_raises', z3.BoolVal(False), info={'exc': repr(outcome[1])})
            return
        ex.oblige(st, 'new_version_is_next', field(st, self.o, 'new_mdib_version') == Val.int(self.mv.e + 1))
        ex.oblige(st, 'mdib_version_untouched', field(st, self.mdib, 'mdib_version') == Val.int(self.mv.e))
        names = ('descriptor_updates', 'metric_state_updates', 'alert_state_updates', 'component_state_updates',
                 'context_state_updates', 'operational_state_updates', 'rt_sample_state_updates')
        dicts = [field(st, self.o, n) for n in names]
        ex.oblige(st, 'update_dicts_empty_and_distinct', z3.And(
            z3.Distinct(*dicts), *[z3.And(Val.is_ref(d), z3.Select(st.get_arr('DN'), Val.oid(d)) == 0) for d in dicts]))
        ex.oblige(st, 'no_error_flag', field(st, self.o, '_error') == Val.bool(False))


class _VersionIncrement(FnCheck):
    prop = 'C02'
    fld = 'StateVersion'

    def setup(self, b):
        self.v = b.int('version')
        self.o = b.obj('self', **{self.fld: self.v})
        return self.o, [], {}

    def post(self, ex, st0, st, outcome, b):
        if outcome[0] == 'exc':
            ex.oblige(st, 'never_raises', z3.BoolVal(False))
            return
        ex.oblige(st, 'plus_one', field(st, self.o, self.fld) == Val.int(self.v.e + 1))


@register
class IncrementStateVersion(_VersionIncrement):
    id = 'C02.increment_state_version'
    target = f'{SC}:AbstractStateContainer.increment_state_version'
    doc = 'increment_state_version: StateVersion += 1 exactly'


@register
class IncrementDescriptorVersion(_VersionIncrement):
    id = 'C02.increment_descriptor_version'
    fld = 'DescriptorVersion'
    target = f'{DC}:AbstractDescriptorContainer.increment_descriptor_version'
    doc = 'increment_descriptor_version: DescriptorVersion += 1 exactly'


@register
class UpdateDescriptorVersion(FnCheck):
    id = 'C02.update_descriptor_version'
    prop = 'C02'
    target = f'{SC}:AbstractStateContainer.update_descriptor_version'
    optional_fields = ('descriptor_container',)
    doc = 'update_descriptor_version: afterwards state.DescriptorVersion == descriptor.DescriptorVersion; no descriptor => ValueError, state unchanged'

    def setup(self, b):
        self.dv, self.sv = b.int('descriptor_version'), b.int('state_descriptor_version')
        d = b.obj('descriptor', DescriptorVersion=self.dv)
        self.has = b.bool('has_descriptor')
        self.o = b.obj('self', DescriptorVersion=self.sv,
                       descriptor_container=vany(z3.If(self.has.e, Val.ref(d.e), Val.none), maybe_none=True))
        b.distinct(d, self.o)
        return self.o, [], {}

    def post(self, ex, st0, st, outcome, b):
        if outcome[0] == 'exc':
            ex.oblige(st, 'raises_only_without_descriptor', z3.And(z3.BoolVal(outcome[1].cls == 'ValueError'), z3.Not(self.has.e)))
            ex.oblige(st, 'raise_changes_nothing', field(st, self.o, 'DescriptorVersion') == Val.int(self.sv.e))
            return
        ex.oblige(st, 'follows_descriptor', z3.And(self.has.e, field(st, self.o, 'DescriptorVersion') == Val.int(self.dv.e)))


class _VersionMemory(FnCheck):
    """handle_version_lookup keeps the last version of removed objects; set_version continues from it."""
    prop = 'C02'
    container_hints = {'self.handle_version_lookup': 'dict'}
    key_fld = 'Handle'
    ver_fld = 'DescriptorVersion'

    def mk(self, b):
        st = b.st
        self.mem = b.obj('handle_version_lookup')
        st.assume(z3.Select(st.get_arr('C'), self.mem.e) == b.ex.ctx.builtin_class_ids['dict'])
        st.assume(z3.Select(st.get_arr('DN'), self.mem.e) >= 0)
        self.h = b.str('handle')
        self.v = b.int('object_version')
        self.obj = b.obj('obj', **{self.key_fld: self.h, self.ver_fld: self.v})
        self.o = b.obj('self', cls=(MB, self.cls), handle_version_lookup=self.mem)
        b.distinct(self.mem, self.obj, self.o)
        k = z3.Const('k!mem', Val)
        st.assume(z3.ForAll([k], z3.Implies(z3.Select(z3.Select(st.get_arr('DK'), self.mem.e), k),
                                            Val.is_int(z3.Select(z3.Select(st.get_arr('DV'), self.mem.e), k)))))

    def remembered(self, st, h=None):
        h = Val.str(self.h.e) if h is None else h
        return (z3.Select(z3.Select(st.get_arr('DK'), self.mem.e), h),
                Val.i(z3.Select(z3.Select(st.get_arr('DV'), self.mem.e), h)))


def _mk_memory_checks(cls, key_fld, ver_fld, tag):
    class Save(_VersionMemory):
        id = f'C02.save_version.{tag}'
        target = f'{MB}:{cls}._save_version'
        doc = f'{cls}._save_version(obj): the version of a removed object is remembered under its handle; other handles untouched'

        def setup(self, b):
            self.mk(b)
            return self.o, [self.obj], {}

        def post(self, ex, st0, st, outcome, b):
            if outcome[0] == 'exc':
                ex.oblige(st, 'never_raises', z3.BoolVal(False))
                return
            has, ver = self.remembered(st)
            ex.oblige(st, 'version_remembered', z3.And(has, ver == self.v.e))
            k = z3.Const('k!o', Val)
            ex.oblige(st, 'other_handles_untouched', z3.ForAll([k], z3.Implies(k != Val.str(self.h.e), z3.And(
                z3.Select(z3.Select(st.get_arr('DK'), self.mem.e), k) == z3.Select(z3.Select(st0.get_arr('DK'), self.mem.e), k),
                z3.Select(z3.Select(st.get_arr('DV'), self.mem.e), k) == z3.Select(z3.Select(st0.get_arr('DV'), self.mem.e), k)))))
    Save.cls, Save.key_fld, Save.ver_fld = cls, key_fld, ver_fld
    Save.__name__ = f'Save_{tag}'

    class SetV(_VersionMemory):
        id = f'C02.set_version.{tag}'
        target = f'{MB}:{cls}.set_version'
        doc = (f'{cls}.set_version(obj): an object whose handle existed before continues with remembered version + 1 '
               '(strictly above every version ever published for that handle); unknown handles keep their version')

        def setup(self, b):
            self.mk(b)
            return self.o, [self.obj], {}

        def post(self, ex, st0, st, outcome, b):
            if outcome[0] == 'exc':
                ex.oblige(st, 'never_raises', z3.BoolVal(False))
                return
            has, ver = self.remembered(st0)
            newv = Val.i(field(st, self.obj, self.ver_fld))
            ex.oblige(st, 'continues_above_remembered_version', z3.Implies(has, newv == ver + 1))
            ex.oblige(st, 'unknown_handle_keeps_version', z3.Implies(z3.Not(has), newv == self.v.e))
            ex.oblige(st, 'memory_untouched', z3.And(
                z3.Select(st.get_arr('DK'), self.mem.e) == z3.Select(st0.get_arr('DK'), self.mem.e),
                z3.Select(st.get_arr('DV'), self.mem.e) == z3.Select(st0.get_arr('DV'), self.mem.e)))
    SetV.cls, SetV.key_fld, SetV.ver_fld = cls, key_fld, ver_fld
    SetV.__name__ = f'SetV_{tag}'
    register(Save)
    register(SetV)


_mk_memory_checks('DescriptorsLookup', 'Handle', 'DescriptorVersion', 'descriptors')
_mk_memory_checks('StatesLookup', 'DescriptorHandle', 'StateVersion', 'states')
_mk_memory_checks('MultiStatesLookup', 'Handle', 'StateVersion', 'context_states')


class _RemoveSavesVersion(FnCheck):
    prop = 'C02'
    opaque_ok = True

    def setup(self, b):
        self.o = b.obj('self', cls=(MB, '_MultikeyWithVersionLookup'))
        self.obj = b.obj('obj')
        b.st.ghost['order'] = ()
        return self.o, [self.obj], {}

    def callees(self, ex):
        def save(ex_, st, args, kwargs):
            st.ghost['order'] += (('save', st.box(args[0])),)
            return NONE
        def remove(ex_, st, args, kwargs):
            st.ghost['order'] += (('remove', st.box(args[0])),)
            return NONE
        return {'*._save_version': Pure(save, name='_save_version (C02.save_version.*)'),
                'sdc11073.multikey:MultiKeyLookup.remove_object': Pure(remove, name='MultiKeyLookup.remove_object (C11)'),
                'sdc11073.multikey:MultiKeyLookup.remove_object_no_lock': Pure(remove, name='MultiKeyLookup.remove_object_no_lock (C11)')}

    def post(self, ex, st0, st, outcome, b):
        if outcome[0] == 'exc':
            ex.oblige(st, 'never_raises', z3.BoolVal(False), info={'exc': repr(outcome[1])})
            return
        order = st.ghost['order']
        names = [n for n, _ in order]
        ex.oblige(st, 'version_saved_before_removal', z3.BoolVal(names == ['save', 'remove']))
        if names == ['save', 'remove']:
            ex.oblige(st, 'same_object', z3.And(order[0][1] == Val.ref(self.obj.e), order[1][1] == Val.ref(self.obj.e)))


@register
class RemoveObjectSaves(_RemoveSavesVersion):
    id = 'C02.remove_object_saves_version'
    target = f'{MB}:_MultikeyWithVersionLookup.remove_object'
    doc = 'removing an object from a versioned table first remembers its version (version memory for re-created handles)'


@register
class RemoveObjectNoLockSaves(_RemoveSavesVersion):
    id = 'C02.remove_object_no_lock_saves_version'
    target = f'{MB}:_MultikeyWithVersionLookup.remove_object_no_lock'
    doc = 'same as C02.remove_object_saves_version for the no-lock variant used by commits'


def mk_copy_summary(copy_fields=('StateVersion', 'DescriptorVersion', 'DescriptorHandle', 'Handle')):
    """Contract of ContainerBase.mk_copy (C03.mk_copy): a fresh object carrying the same property values."""
    def fn(ex_, st, args, kwargs):
        src = st.ghost['c:recv']
        return None
    return fn


class CopyHooks:
    """x.mk_copy() on a container: fresh object with the same (version) fields; ghost: set of copies made."""
    tracked_names = ('mk_copy', 'increment_state_version', 'increment_descriptor_version')
    fields = ('StateVersion', 'DescriptorVersion', 'DescriptorHandle', 'Handle', 'is_context_state')

    def on_call(self, ex, st, fv, keys, args, kwargs, node):
        if fv.t == 'method' and fv.name == 'mk_copy':
            src = ex.concrete_kind(st, fv.recv, ('ref',))
            src_e = src.e if src.kind == 'ref' else Val.oid(src.e)
            c = st.alloc('ContainerCopy')
            for f in self.fields:
                st.set_arr('f:' + f, z3.Store(st.get_arr('f:' + f), c.e, z3.Select(st.get_arr('f:' + f), src_e)))
            st.ghost['copies'] = st.ghost.get('copies', ()) + ((c.e, src_e),)
            return [(st, c)]
        if fv.t == 'method' and fv.name in ('increment_state_version', 'increment_descriptor_version'):
            # callee contracts C02.increment_state_version / C02.increment_descriptor_version
            fld = 'StateVersion' if fv.name == 'increment_state_version' else 'DescriptorVersion'
            o = ex.concrete_kind(st, fv.recv, ('ref',))
            oe = o.e if o.kind == 'ref' else Val.oid(o.e)
            cur = Val.i(z3.Select(st.get_arr('f:' + fld), oe))
            st.set_arr('f:' + fld, z3.Store(st.get_arr('f:' + fld), oe, Val.int(cur + 1)))
            return [(st, NONE)]
        return None


class _GetState(FnCheck):
    prop = 'C02'
    field_types = {'StateVersion': 'int', 'DescriptorVersion': 'int'}
    lookup_path = None
    key = 'descriptor_handle'

    def setup(self, b):
        st = b.st
        ids = b.ex.ctx.builtin_class_ids
        self.mdib, self.mv, *_ = mk_mdib(b)
        self.upd = b.obj('state_updates')
        st.assume(z3.Select(st.get_arr('C'), self.upd.e) == ids['dict'])
        st.assume(z3.Select(st.get_arr('DN'), self.upd.e) >= 0)
        self.o = b.obj('self', cls=self.cls, _mdib=self.mdib, _state_updates=self.upd)
        self.h = b.any('handle', maybe_none=True)
        st.assume(z3.Or(Val.is_none(self.h.e), Val.is_str(self.h.e)))
        self.sv = b.int('stored_state_version')
        self.stored = b.obj('stored_state', StateVersion=self.sv)
        self.exists = b.bool('state_exists')
        self.type_ok = b.bool('state_type_matches_transaction')
        b.distinct(self.mdib, self.upd, self.o, self.stored)
        return self.o, [self.h], {}

    container_hints = {'self._state_updates': 'dict'}

    def callees(self, ex):
        def get_one(ex_, st, args, kwargs):
            st.ghost['c:lookup'] = st.box(args[0])
            an = kwargs.get('allow_none')
            strict = an is None or z3.is_false(z3.simplify(truthy(an, st)))
            outs = []
            if strict:
                miss = st.fork()
                miss.assume(z3.Not(self.exists.e))
                outs.append((miss, Raise(ex_.mk_exc('KeyError', 'get_one'))))
                st.assume(self.exists.e)
                outs.append((st, self.stored))
            else:
                outs.append((st, vany(z3.If(self.exists.e, Val.ref(self.stored.e), Val.none), maybe_none=True)))
            return outs

        def type_check(ex_, st, args, kwargs):
            return vbool(self.type_ok.e)

        def item(ex_, st, args, kwargs):
            o = st.alloc('TransactionItem')
            vals = list(args) + [kwargs.get('old'), kwargs.get('new')]
            vals = [v for v in vals if v is not None]
            st.write_field(o, 'old', vals[0])
            st.write_field(o, 'new', vals[1])
            return o
        return {'*.get_one': Pure(get_one, name='unique index get_one (C11)'),
                '*._is_correct_state_type': Pure(type_check, name='_is_correct_state_type'),
                f'{TR}:TransactionItem': Pure(item, name='TransactionItem(old, new)'),
                'sdc11073.mdib.transactionsprotocol:TransactionItem': Pure(item, name='TransactionItem(old, new)')}

    def hooks(self, ex):
        return CopyHooks()

    inline = (f'{SC}:AbstractStateContainer.increment_state_version',)

    def frame_unchanged(self, ex, st0, st, name):
        ex.oblige(st, name, z3.And(
            z3.Select(st.get_arr('DK'), self.upd.e) == z3.Select(st0.get_arr('DK'), self.upd.e),
            z3.Select(st.get_arr('DV'), self.upd.e) == z3.Select(st0.get_arr('DV'), self.upd.e),
            field(st, self.mdib, 'mdib_version') == field(st0, self.mdib, 'mdib_version'),
            field(st, self.stored, 'StateVersion') == field(st0, self.stored, 'StateVersion')))

    def post(self, ex, st0, st, outcome, b):
        h = self.h.e
        valid_h = z3.And(Val.is_str(h), z3.Length(Val.s(h)) > 0)
        already = z3.Select(z3.Select(st0.get_arr('DK'), self.upd.e), h)
        if outcome[0] == 'exc':
            self.frame_unchanged(ex, st0, st, 'rejected_call_changes_nothing')
            cls = outcome[1].cls
            ex.oblige(st, 'rejection_reasons', z3.BoolVal(cls in ('ValueError', 'KeyError', 'ApiUsageError')))
            if cls == 'ValueError':
                ex.oblige(st, 'value_error_only_for_empty_or_duplicate_handle', z3.Or(z3.Not(valid_h), already))
            return
        r = ex.concrete_kind(st, outcome[1], ('ref',))
        ex.oblige(st, 'accepted_only_for_new_valid_handle', z3.And(valid_h, z3.Not(already), self.exists.e))
        ex.oblige(st, 'result_is_a_fresh_copy', z3.And(r.e >= FRESH_BASE, r.e != self.stored.e))
        ex.oblige(st, 'copy_has_next_state_version', Val.i(field(st, r, 'StateVersion')) == self.sv.e + 1)
        ex.oblige(st, 'stored_state_untouched', Val.i(field(st, self.stored, 'StateVersion')) == self.sv.e)
        ex.oblige(st, 'mdib_version_untouched', field(st, self.mdib, 'mdib_version') == field(st0, self.mdib, 'mdib_version'))
        item = z3.Select(z3.Select(st.get_arr('DV'), self.upd.e), h)
        ex.oblige(st, 'transaction_records_old_and_new', z3.And(
            z3.Select(z3.Select(st.get_arr('DK'), self.upd.e), h), Val.is_ref(item),
            z3.Select(st.get_arr('f:old'), Val.oid(item)) == Val.ref(self.stored.e),
            z3.Select(st.get_arr('f:new'), Val.oid(item)) == Val.ref(r.e)))
        kq = z3.Const('kq', Val)
        ex.oblige(st, 'other_items_untouched', z3.ForAll([kq], z3.Implies(kq != h, z3.And(
            z3.Select(z3.Select(st.get_arr('DK'), self.upd.e), kq) == z3.Select(z3.Select(st0.get_arr('DK'), self.upd.e), kq),
            z3.Select(z3.Select(st.get_arr('DV'), self.upd.e), kq) == z3.Select(z3.Select(st0.get_arr('DV'), self.upd.e), kq)))))
        if 'c:lookup' in st.ghost:
            ex.oblige(st, 'lookup_by_requested_handle', st.ghost['c:lookup'] == h)


@register
class StateGetState(_GetState):
    id = 'C02.get_state'
    cls = (TR, 'StateTransactionBase')
    target = f'{TR}:StateTransactionBase.get_state'
    doc = ('get_state(handle): returns a fresh copy of the stored state with StateVersion = stored + 1 and records '
           '(old = stored object, new = copy) under the handle; empty / duplicate handle, unknown state or wrong state '
           'type are rejected and a rejected call changes nothing (transaction dict, MDIB version, stored state)')

    def post(self, ex, st0, st, outcome, b):
        super().post(ex, st0, st, outcome, b)
        if outcome[0] == 'ret':
            ex.oblige(st, 'state_type_checked', self.type_ok.e)


@register
class ContextGetState(_GetState):
    id = 'C02.get_context_state'
    cls = (TR, 'ContextStateTransaction')
    target = f'{TR}:ContextStateTransaction.get_context_state'
    doc = 'get_context_state(handle): same obligations as C02.get_state, looked up by context state handle'


def _mk_process(kind, cls, dict_field, result_field, has_loop):
    class Process(FnCheck):
        id = f'C02.process.{kind}'
        prop = 'C02'
        opaque_ok = True
        target = f'{TR}:{cls}.process_transaction'
        inline = (f'{TR}:TransactionResult.__init__',)
        container_hints = {'self._state_updates': 'dict'}
        doc = (f'{cls}.process_transaction: a transaction with updates sets MdibVersion to exactly new_mdib_version '
               f'(= old + 1, C02.tx_init) and applies its items once (_handle_state_updates) - the result\'s '
               f'{result_field} are exactly the returned copies; an empty transaction leaves MdibVersion and the tables '
               'untouched and yields an empty result')

        def setup(self, b):
            st = b.st
            self.mdib, self.mv, *_ = mk_mdib(b)
            self.upd = b.obj('state_updates')
            st.assume(z3.Select(st.get_arr('C'), self.upd.e) == b.ex.ctx.builtin_class_ids['dict'])
            st.assume(z3.Select(st.get_arr('DN'), self.upd.e) >= 0)
            self.nv = b.int('new_mdib_version')
            self.o = b.obj('self', cls=(TR, cls), _mdib=self.mdib, _state_updates=self.upd, new_mdib_version=self.nv)
            b.distinct(self.mdib, self.upd, self.o)
            self.ret = z3.Const('handled_updates', SeqVal)
            return self.o, [b.bool('set_determination_time')], {}

        def callees(self, ex):
            def handle(ex_, st, args, kwargs):
                st.ghost['handled'] = st.ghost.get('handled', ()) + (st.box(args[0]),)
                st.ghost['c:version_at_apply'] = z3.Select(st.get_arr('f:mdib_version'), self.mdib.e)
                r = st.alloc('list')
                st.set_list_seq(r, self.ret)
                return r
            return {f'{TR}:_TransactionBase._handle_state_updates': Pure(handle, name='_handle_state_updates (C02.handle_state_updates)'),
                    'time.time': Pure(lambda e, s, a, k: vreal(fresh(RealS, 'now')))}

        def loops(self, ex):
            if not has_loop:
                return {}

            def frame(ex_, st, env):
                e = env['_entry']
                same = lambda arr, o: z3.Select(st.get_arr(arr), o) == z3.Select(e.get_arr(arr), o)   # noqa: E731
                return z3.And(same('f:mdib_version', self.mdib.e), same('f:new_mdib_version', self.o.e),
                              same('f:_mdib', self.o.e), same('f:_state_updates', self.o.e),
                              same('DK', self.upd.e), same('DV', self.upd.e), same('DN', self.upd.e), same('C', self.upd.e))
            return {0: LoopSpec(inv=frame)}

        def post(self, ex, st0, st, outcome, b):
            if outcome[0] == 'exc':
                ex.oblige(st, 'never_raises', z3.BoolVal(False), info={'exc': repr(outcome[1])})
                return
            nonempty = z3.Select(st0.get_arr('DN'), self.upd.e) > 0
            handled = st.ghost.get('handled', ())
            v1 = field(st, self.mdib, 'mdib_version')
            ex.oblige(st, 'nonempty_commit_sets_new_version', z3.Implies(nonempty, v1 == Val.int(self.nv.e)))
            ex.oblige(st, 'empty_commit_keeps_version', z3.Implies(z3.Not(nonempty), v1 == Val.int(self.mv.e)))
            ex.oblige(st, 'items_applied_iff_nonempty', z3.BoolVal(len(handled) == 1) == nonempty)
            ex.oblige(st, 'items_applied_at_most_once', z3.BoolVal(len(handled) <= 1))
            if handled:
                ex.oblige(st, 'applies_own_update_dict', handled[0] == Val.ref(self.upd.e))
                ex.oblige(st, 'version_raised_before_tables_change', st.ghost['c:version_at_apply'] == Val.int(self.nv.e))
            r = ex.concrete_kind(st, outcome[1], ('ref',))
            lst = z3.Select(st.get_arr(f'f:{result_field}'), r.e)
            ex.oblige(st, 'result_lists_exactly_the_applied_states', z3.And(Val.is_ref(lst), z3.Select(
                st.get_arr('L'), Val.oid(lst)) == (self.ret if handled else z3.Empty(SeqVal))))
            for other in ('metric_updates', 'alert_updates', 'comp_updates', 'ctxt_updates', 'op_updates', 'rt_updates',
                          'descr_updated', 'descr_created', 'descr_deleted'):
                if other != result_field:
                    ol = z3.Select(st.get_arr(f'f:{other}'), r.e)
                    ex.oblige(st, f'other_categories_empty.{other}', z3.Length(z3.Select(st.get_arr('L'), Val.oid(ol))) == 0)
    Process.__name__ = f'Process_{kind}'
    return Process


for _k, _c, _f, _loop in (('alert', 'AlertStateTransaction', 'alert_updates', True),
                          ('metric', 'MetricStateTransaction', 'metric_updates', True),
                          ('component', 'ComponentStateTransaction', 'comp_updates', False),
                          ('rt_sample', 'RtStateTransaction', 'rt_updates', False),
                          ('operational', 'OperationalStateTransaction', 'op_updates', False),
                          ('context', 'ContextStateTransaction', 'ctxt_updates', False)):
    register(_mk_process(_k, _c, None, _f, _loop))


@register
class HandleStateUpdates(FnCheck):
    id = 'C02.handle_state_updates'
    prop = 'C02'
    opaque_ok = True
    target = f'{TR}:_TransactionBase._handle_state_updates'
    optional_fields = ('old', 'new')
    objref_fields = ('old', 'new')
    field_types = {'is_context_state': 'bool'}
    doc = ('_handle_state_updates (per transaction item): the old object is removed from, and the new object added to, '
           'the table chosen by the state kind (context states vs single states), in that order; the list returned for '
           'the reports receives a fresh copy of the new object (never the table member itself); a deleted item '
           '(new is None) only removes; nothing raises')

    def setup(self, b):
        st = b.st
        self.mdib, self.mv, self.states_tbl, self.ctx_tbl, _ = mk_mdib(b)
        self.o = b.obj('self', cls=(TR, '_TransactionBase'), _mdib=self.mdib)
        self.upd = b.obj('updates')
        st.assume(z3.Select(st.get_arr('C'), self.upd.e) == b.ex.ctx.builtin_class_ids['dict'])
        st.assume(z3.Select(st.get_arr('DN'), self.upd.e) >= 0)
        b.distinct(self.mdib, self.o, self.upd, self.states_tbl, self.ctx_tbl)
        self.is_ctx_arr = st.get_arr('f:is_context_state')   # never written by the function under contract
        return self.o, [self.upd], {}

    def hooks(self, ex):
        chk = self

        class H(CopyHooks):
            tracked_names = CopyHooks.tracked_names + ('remove_object_no_lock', 'add_object_no_lock', 'append')

            def on_call(self, ex_, st, fv, keys, args, kwargs, node):
                if fv.t == 'method' and fv.name in ('remove_object_no_lock', 'add_object_no_lock'):
                    tbl = st.box(fv.recv)
                    st.ghost['ops'] = st.ghost.get('ops', ()) + ((fv.name, tbl, st.box(args[0])),)
                    return [(st, NONE)]
                return super().on_call(ex_, st, fv, keys, args, kwargs, node)

            def on_loop_havoc(self, ex_, st, node):
                st.ghost['ops'] = ()
                st.ghost['copies'] = ()
        return H()

    def loops(self, ex):
        def body(ex_, st, env):
            if env['_phase'] != 'preserve':
                return z3.BoolVal(True)
            # the dict view is iterated through a sequence of keys/values; the current item:
            it = st.locals.get('transaction_item')
            if it is None:
                raise Unsupported('loop variable transaction_item not found (renamed?)')
            ie = it.e if it.kind == 'ref' else Val.oid(it.e)
            old = z3.Select(st.get_arr('f:old'), ie)
            new = z3.Select(st.get_arr('f:new'), ie)
            ops = st.ghost.get('ops', ())
            copies = st.ghost.get('copies', ())
            res = st.locals.get('updates_list')
            is_ctx = lambda v: Val.b(z3.Select(self.is_ctx_arr, Val.oid(v)))   # noqa: E731
            kind_src = z3.If(Val.is_none(old), new, old)
            table = z3.If(is_ctx(kind_src), Val.ref(self.ctx_tbl.e), Val.ref(self.states_tbl.e))
            removes = [o for o in ops if o[0] == 'remove_object_no_lock']
            adds = [o for o in ops if o[0] == 'add_object_no_lock']
            ob = lambda n, f: ex_.oblige(st, 'item.' + n, f, kind='loop')   # noqa: E731
            ob('at_most_one_remove_and_add', z3.BoolVal(len(removes) <= 1 and len(adds) <= 1))
            ob('removes_iff_old_present', z3.BoolVal(len(removes) == 1) == z3.Not(Val.is_none(old)))
            ob('adds_iff_new_present', z3.BoolVal(len(adds) == 1) == z3.Not(Val.is_none(new)))
            if removes:
                ob('removes_old_from_table_of_its_kind', z3.And(removes[0][1] == table, removes[0][2] == old))
            if adds:
                ob('adds_new_to_table_of_its_kind', z3.And(adds[0][1] == table, adds[0][2] == new))
                ob('one_report_copy_per_added_state', z3.BoolVal(len(copies) == 1))
                if removes:
                    ob('remove_before_add', z3.BoolVal(ops.index(removes[0]) < ops.index(adds[0])))
                if len(copies) == 1:
                    ob('report_copy_is_fresh_copy_of_new', z3.And(copies[0][1] == Val.oid(new), copies[0][0] != Val.oid(new)))
            else:
                ob('no_report_copy_for_deleted_state', z3.BoolVal(len(copies) == 0))
            return z3.BoolVal(True)
        return {0: LoopSpec(inv=body, havoc_heap=['L'])}

    def post(self, ex, st0, st, outcome, b):
        if outcome[0] == 'exc':
            ex.oblige(st, 'never_raises', z3.BoolVal(False), info={'exc': repr(outcome[1])})


def _shallow_copy_summary():
    """copy.copy(x): a new object whose members are the SAME objects as those of x (nested values stay shared). It is not
    recorded as the private copy the write_entity contracts ask for."""
    def shallow(ex_, st, args, kwargs):
        src = ex_.concrete_kind(st, args[0], ('ref',))
        c = st.alloc('ShallowCopy')
        for f in ('StateVersion', 'DescriptorVersion', 'DescriptorHandle', 'Handle'):
            st.set_arr('f:' + f, z3.Store(st.get_arr('f:' + f), c.e, z3.Select(st.get_arr('f:' + f), src.e)))
        st.ghost['c:shallow'] = (c.e, st.box(args[0]))
        return c
    return Pure(shallow, name='copy.copy (shallow: nested values stay shared)')


@register
class WriteEntity(FnCheck):
    id = 'C02.write_entity'
    prop = 'C02'
    target = f'{TR}:StateTransactionBase.write_entity'
    field_types = {'StateVersion': 'int', 'DescriptorVersion': 'int', 'is_multi_state': 'bool'}
    doc = ('StateTransactionBase.write_entity(entity) with version adjustment: the state queued for commit is a copy of '
           'the entity\'s state whose DescriptorVersion equals the current DescriptorVersion of its descriptor in the MDIB '
           '(also when the state already exists) and whose StateVersion is the stored StateVersion + 1 (existing '
           'state) or the remembered version (re-created state, C02.set_version); it is queued under the descriptor '
           'handle together with the stored state; the entity itself is not changed')
    trusted = ('copy.deepcopy returns an equal, disjoint object',)

    def setup(self, b):
        st = b.st
        self.dv = b.int('descriptor_version_in_mdib')
        self.sv_old = b.int('stored_state_version')
        self.has_old = b.bool('state_exists_in_mdib')
        self.descr = b.obj('descriptor', DescriptorVersion=self.dv)
        self.old = b.obj('stored_state', StateVersion=self.sv_old)
        self.handle = b.str('descriptor_handle')
        self.estate = b.obj('entity_state', DescriptorHandle=self.handle, StateVersion=b.int('entity_state_version'),
                            DescriptorVersion=b.int('entity_descriptor_version'))
        self.entity = b.obj('entity', state=self.estate, handle=self.handle, is_multi_state=b.bool('is_multi_state'))
        self.upd = b.obj('state_updates')
        st.assume(z3.Select(st.get_arr('C'), self.upd.e) == b.ex.ctx.builtin_class_ids['dict'])
        st.assume(z3.Select(st.get_arr('DN'), self.upd.e) >= 0)
        self.states_tbl = b.obj('states_table', descriptor_handle=b.obj('states.descriptor_handle'))
        self.descr_tbl = b.obj('descriptions_table', handle=b.obj('descriptions.handle'))
        self.mdib = b.obj('mdib', states=self.states_tbl, descriptions=self.descr_tbl)
        self.o = b.obj('self', cls=(TR, 'StateTransactionBase'), _mdib=self.mdib, _state_updates=self.upd)
        b.distinct(self.o, self.mdib, self.upd, self.entity, self.estate, self.old, self.descr, self.states_tbl, self.descr_tbl)
        self.adjust = b.bool('adjust_version_counter')
        st.ghost['log'] = ()
        return self.o, [self.entity], {'adjust_version_counter': self.adjust}

    def callees(self, ex):
        def get_one(ex_, st, args, kwargs):
            recv = st.ghost.get('c:recv')
            st.ghost['log'] += (('get_one', recv, st.box(args[0])),)
            if 'allow_none' not in kwargs:     # descriptions.handle.get_one(handle): the descriptor must exist
                return self.descr
            return vany(z3.If(self.has_old.e, Val.ref(self.old.e), Val.none), maybe_none=True)

        def deep(ex_, st, args, kwargs):
            src = ex_.concrete_kind(st, args[0], ('ref',))
            c = st.alloc('StateCopy')
            for f in ('StateVersion', 'DescriptorVersion', 'DescriptorHandle'):
                st.set_arr('f:' + f, z3.Store(st.get_arr('f:' + f), c.e, z3.Select(st.get_arr('f:' + f), src.e)))
            st.ghost['c:copy'] = (c.e, st.box(args[0]))
            return c

        def set_version(ex_, st, args, kwargs):
            st.ghost['log'] += (('set_version', st.ghost.get('c:recv'), st.box(args[0])),)
            return NONE

        def item(ex_, st, args, kwargs):
            o = st.alloc('TransactionItem')
            vals = dict(zip(('old', 'new'), args))
            vals.update(kwargs)
            st.write_field(o, 'old', vals['old'])
            st.write_field(o, 'new', vals['new'])
            return o
        return {'*.get_one': Pure(get_one, name='index get_one (C11): stored state / descriptor of the handle'),
                'copy.deepcopy': Pure(deep, name='copy.deepcopy', trusted=True),
                'copy.copy': _shallow_copy_summary(),
                '*.set_version': Pure(set_version, name='table.set_version (C02.set_version)'),
                f'{TR}:TransactionItem': Pure(item, name='TransactionItem(old, new)'),
                'TransactionItem': Pure(item, name='TransactionItem(old, new)'),
                '*._is_correct_state_type': Pure(lambda e, s, a, k: vbool(fresh(BoolS, 'correct_type')), name='_is_correct_state_type')}

    def hooks(self, ex):
        class H:
            tracked_names = ()

            def on_call(self, ex_, st, fv, keys, args, kwargs, node):
                if fv.t == 'method':
                    st.ghost['c:recv'] = st.box(fv.recv)
                return None
        return H()

    def post(self, ex, st0, st, outcome, b):
        if outcome[0] == 'exc':
            ex.oblige(st, 'only_api_usage_errors', z3.BoolVal(outcome[1].cls == 'ApiUsageError'), info={'exc': repr(outcome[1])})
            ex.oblige(st, 'refused_entity_queues_nothing', z3.Select(st.get_arr('DK'), self.upd.e) == z3.Select(st0.get_arr('DK'), self.upd.e))
            return
        key = Val.str(self.handle.e)
        dk, dv = z3.Select(st.get_arr('DK'), self.upd.e), z3.Select(st.get_arr('DV'), self.upd.e)
        ex.oblige(st, 'queued_under_the_descriptor_handle', z3.Select(dk, key))
        item = Val.oid(z3.Select(dv, key))
        new = z3.Select(st.get_arr('f:new'), item)
        old = z3.Select(st.get_arr('f:old'), item)
        cp = st.ghost.get('c:copy')
        ex.oblige(st, 'queued_state_is_a_copy_of_the_entity_state', z3.And(new == Val.ref(cp[0]), cp[1] == Val.ref(self.estate.e))
                  if cp else z3.BoolVal(False))
        ex.oblige(st, 'queued_with_the_stored_state', old == z3.If(self.has_old.e, Val.ref(self.old.e), Val.none))
        if cp:
            F = lambda n: Val.i(z3.Select(st.get_arr('f:' + n), cp[0]))   # noqa: E731
            ex.oblige(st, 'descriptor_version_follows_the_descriptor', z3.Implies(self.adjust.e, F('DescriptorVersion') == self.dv.e))
            ex.oblige(st, 'existing_state_version_incremented_by_one', z3.Implies(z3.And(self.adjust.e, self.has_old.e),
                                                                              F('StateVersion') == self.sv_old.e + 1))
            names = [n for n, _, _ in st.ghost['log']]
            sv_calls = [x for x in st.ghost['log'] if x[0] == 'set_version']
            ex.oblige(st, 'recreated_state_takes_the_remembered_version', z3.Implies(
                z3.And(self.adjust.e, z3.Not(self.has_old.e)),
                z3.And(z3.BoolVal(len(sv_calls) == 1), sv_calls[0][2] == Val.ref(cp[0]),
                       sv_calls[0][1] == Val.ref(self.states_tbl.e)) if len(sv_calls) == 1 else z3.BoolVal(False)))
        for f in ('StateVersion', 'DescriptorVersion'):
            ex.oblige(st, f'entity_state_{f}_unchanged', z3.Select(st.get_arr('f:' + f), self.estate.e) == z3.Select(st0.get_arr('f:' + f), self.estate.e))


@register
class IncrementParentVersion(FnCheck):
    id = 'C02.increment_parent_descriptor_version'
    prop = 'C02'
    target = f'{TR}:DescriptorTransaction._increment_parent_descriptor_version'
    field_types = {'DescriptorVersion': 'int'}
    doc = ('_increment_parent_descriptor_version(result, child): when the child\'s parent exists in the MDIB its '
           'DescriptorVersion is incremented by exactly one and a copy of the parent carrying that new version is '
           'appended to result.descr_updated - whatever the list already holds, so the last reported copy of a parent '
           'always shows its committed version - and its state is brought along; without a parent nothing happens')

    def setup(self, b):
        st = b.st
        self.pv = b.int('parent_version')
        self.has_parent = b.bool('parent_exists')
        self.parent = b.obj('parent', DescriptorVersion=self.pv, Handle=b.str('parent_handle_value'))
        self.child = b.obj('child', parent_handle=b.any('child.parent_handle', maybe_none=True))
        self.upd_seq = z3.Const('descr_updated_seq', SeqVal)
        self.upd = b.obj('descr_updated')
        st.assume(z3.Select(st.get_arr('C'), self.upd.e) == b.ex.ctx.builtin_class_ids['list'])
        st.assume(z3.Select(st.get_arr('L'), self.upd.e) == self.upd_seq)
        self.proc = b.obj('proc', descr_updated=self.upd)
        mdib = b.obj('mdib', descriptions=b.obj('descriptions', handle=b.obj('descriptions.handle')))
        self.o = b.obj('self', cls=(TR, 'DescriptorTransaction'), _mdib=mdib)
        b.distinct(self.o, self.proc, self.upd, self.parent, self.child, mdib)
        st.ghost['log'] = ()
        return self.o, [self.proc, self.child], {}

    def callees(self, ex):
        def get_one(ex_, st, args, kwargs):
            st.ghost['c:asked'] = st.box(args[0])
            return vany(z3.If(self.has_parent.e, Val.ref(self.parent.e), Val.none), maybe_none=True)

        def corr(ex_, st, args, kwargs):
            st.ghost['log'] += (('update_corresponding_state', st.box(args[0])),)
            return NONE
        return {'*.get_one': Pure(get_one, name='descriptions.handle.get_one(parent_handle, allow_none=True) (C11)'),
                f'{TR}:DescriptorTransaction._update_corresponding_state': Pure(corr, name='_update_corresponding_state')}

    def hooks(self, ex):
        return CopyHooks()

    def post(self, ex, st0, st, outcome, b):
        if outcome[0] == 'exc':
            ex.oblige(st, 'never_raises', z3.BoolVal(False), info={'exc': repr(outcome[1])})
            return
        if 'c:asked' in st.ghost:
            ex.oblige(st, 'parent_looked_up_by_the_childs_parent_handle', st.ghost['c:asked'] == z3.Select(st0.get_arr('f:parent_handle'), self.child.e))
        new_seq = st.list_seq(self.upd)
        pv_now = Val.i(z3.Select(st.get_arr('f:DescriptorVersion'), self.parent.e))
        ex.oblige(st, 'no_parent_no_change', z3.Implies(z3.Not(self.has_parent.e), z3.And(new_seq == self.upd_seq, pv_now == self.pv.e)))
        ex.oblige(st, 'parent_version_incremented_by_one', z3.Implies(self.has_parent.e, pv_now == self.pv.e + 1))
        copies = st.ghost.get('copies', ())
        if copies:
            c, src = copies[-1]
            ex.oblige(st, 'copy_with_the_new_version_is_appended_to_the_report', z3.Implies(self.has_parent.e, z3.And(
                src == self.parent.e, new_seq == z3.Concat(self.upd_seq, z3.Unit(Val.ref(c))),
                Val.i(z3.Select(st.get_arr('f:DescriptorVersion'), c)) == self.pv.e + 1)))
        else:
            ex.oblige(st, 'copy_with_the_new_version_is_appended_to_the_report', z3.Not(self.has_parent.e))
        log = st.ghost['log']
        ex.oblige(st, 'state_of_the_parent_follows', z3.Implies(self.has_parent.e, z3.And(
            z3.BoolVal(len(log) == 1), log[0][1] == Val.ref(self.parent.e)) if len(log) == 1 else z3.BoolVal(False)))


class _DescrTxBase(FnCheck):
    prop = 'C02'
    field_types = {'DescriptorVersion': 'int'}
    container_hints = {'self.descriptor_updates': 'dict'}

    def mk(self, b):
        st = b.st
        ids = b.ex.ctx.builtin_class_ids
        self.upd = b.obj('descriptor_updates')
        st.assume(z3.Select(st.get_arr('C'), self.upd.e) == ids['dict'])
        st.assume(z3.Select(st.get_arr('DN'), self.upd.e) >= 0)
        self.dv = b.int('stored_descriptor_version')
        self.handle = b.str('handle')
        self.stored = b.obj('stored_descriptor', DescriptorVersion=self.dv, Handle=self.handle)
        self.idx = b.obj('descriptions.handle')
        self.tbl = b.obj('descriptions', handle=self.idx)
        self.mdib = b.obj('mdib', descriptions=self.tbl, xtra=b.obj('xtra'))
        self.o = b.obj('self', cls=(TR, 'DescriptorTransaction'), _mdib=self.mdib, descriptor_updates=self.upd)
        b.distinct(self.o, self.mdib, self.tbl, self.idx, self.upd, self.stored)
        st.ghost['log'] = ()
        return self.o

    def item_summary(self):
        def item(ex_, st, args, kwargs):
            o = st.alloc('TransactionItem')
            vals = dict(zip(('old', 'new'), args))
            vals.update(kwargs)
            st.write_field(o, 'old', vals['old'])
            st.write_field(o, 'new', vals['new'])
            return o
        return Pure(item, name='TransactionItem(old, new)')

    def get_one_summary(self):
        def get_one(ex_, st, args, kwargs):
            st.ghost['c:asked'] = st.box(args[0])
            return self.stored
        return Pure(get_one, name='descriptions.handle.get_one(handle) (C11; KeyError for unknown handles not modelled)')

    def queued(self, st):
        key = Val.str(self.handle.e)
        dk, dv = z3.Select(st.get_arr('DK'), self.upd.e), z3.Select(st.get_arr('DV'), self.upd.e)
        item = Val.oid(z3.Select(dv, key))
        return z3.Select(dk, key), z3.Select(st.get_arr('f:old'), item), z3.Select(st.get_arr('f:new'), item)

    def unchanged_queue(self, st0, st):
        # the same keys with the same items (what is stored under a key that is not in the dict is immaterial)
        k = z3.Const('k!uq', Val)
        dk0, dk1 = z3.Select(st0.get_arr('DK'), self.upd.e), z3.Select(st.get_arr('DK'), self.upd.e)
        dv0, dv1 = z3.Select(st0.get_arr('DV'), self.upd.e), z3.Select(st.get_arr('DV'), self.upd.e)
        return z3.ForAll([k], z3.And(z3.Select(dk1, k) == z3.Select(dk0, k),
                                     z3.Implies(z3.Select(dk0, k), z3.Select(dv1, k) == z3.Select(dv0, k))))


@register
class GetDescriptor(_DescrTxBase):
    id = 'C02.get_descriptor'
    target = f'{TR}:DescriptorTransaction.get_descriptor'
    doc = ('DescriptorTransaction.get_descriptor(handle): a handle already in the transaction or an empty handle is '
           'refused without change; otherwise the caller gets a COPY of the stored descriptor whose DescriptorVersion is '
           'the stored one + 1, queued together with the stored original; the stored descriptor is not changed')

    def setup(self, b):
        o = self.mk(b)
        return o, [self.handle], {}

    def callees(self, ex):
        return {'*.get_one': self.get_one_summary(), f'{TR}:TransactionItem': self.item_summary(), 'TransactionItem': self.item_summary()}

    def hooks(self, ex):
        return CopyHooks()

    def post(self, ex, st0, st, outcome, b):
        key = Val.str(self.handle.e)
        was = z3.Select(z3.Select(st0.get_arr('DK'), self.upd.e), key)
        if outcome[0] == 'exc':
            ex.oblige(st, 'refused_only_for_empty_or_duplicate_handle', z3.And(
                z3.BoolVal(outcome[1].cls == 'ValueError'), z3.Or(was, z3.Length(self.handle.e) == 0)), info={'exc': repr(outcome[1])})
            ex.oblige(st, 'refusal_changes_nothing', self.unchanged_queue(st0, st))
            return
        has, old, new = self.queued(st)
        copies = st.ghost.get('copies', ())
        ex.oblige(st, 'accepted_only_for_a_handle_not_yet_in_the_transaction', z3.And(z3.Not(was), z3.Length(self.handle.e) > 0))
        ex.oblige(st, 'queued_copy_with_version_plus_one', z3.And(
            has, old == Val.ref(self.stored.e), new == Val.ref(copies[-1][0]), copies[-1][1] == self.stored.e,
            Val.i(z3.Select(st.get_arr('f:DescriptorVersion'), copies[-1][0])) == self.dv.e + 1,
            st.box(outcome[1]) == new) if copies else z3.BoolVal(False))
        ex.oblige(st, 'stored_descriptor_unchanged', Val.i(z3.Select(st.get_arr('f:DescriptorVersion'), self.stored.e)) == self.dv.e)
        ex.oblige(st, 'looked_up_by_the_given_handle', st.ghost.get('c:asked') == key if 'c:asked' in st.ghost else z3.BoolVal(False))


@register
class RemoveDescriptor(_DescrTxBase):
    id = 'C02.remove_descriptor'
    target = f'{TR}:DescriptorTransaction.remove_descriptor'
    doc = ('DescriptorTransaction.remove_descriptor(handle): refused without change for an empty handle or one already '
           'in the transaction; otherwise the stored descriptor is queued for deletion (old = stored, new = None) and '
           'nothing is changed before the commit')

    def setup(self, b):
        o = self.mk(b)
        return o, [self.handle], {}

    def callees(self, ex):
        return {'*.get_one': self.get_one_summary(), f'{TR}:TransactionItem': self.item_summary(), 'TransactionItem': self.item_summary()}

    def post(self, ex, st0, st, outcome, b):
        key = Val.str(self.handle.e)
        was = z3.Select(z3.Select(st0.get_arr('DK'), self.upd.e), key)
        if outcome[0] == 'exc':
            ex.oblige(st, 'refused_only_for_empty_or_duplicate_handle', z3.And(
                z3.BoolVal(outcome[1].cls == 'ValueError'), z3.Or(was, z3.Length(self.handle.e) == 0)), info={'exc': repr(outcome[1])})
            ex.oblige(st, 'refusal_changes_nothing', self.unchanged_queue(st0, st))
            return
        has, old, new = self.queued(st)
        ex.oblige(st, 'queued_for_deletion_with_the_stored_descriptor', z3.And(has, old == Val.ref(self.stored.e), Val.is_none(new)))
        ex.oblige(st, 'stored_descriptor_unchanged', Val.i(z3.Select(st.get_arr('f:DescriptorVersion'), self.stored.e)) == self.dv.e)


@register
class ContextWriteEntity(FnCheck):
    id = 'C02.context_write_entity'
    prop = 'C02'
    tag = 'S'
    opaque_ok = True
    target = f'{TR}:ContextStateTransaction.write_entity'
    field_types = {'StateVersion': 'int', 'DescriptorVersion': 'int', 'is_context_state': 'bool'}
    stable_fields = ('StateVersion', 'DescriptorVersion', 'DescriptorHandle', 'Handle')
    doc = ('ContextStateTransaction.write_entity(entity, handles) with version adjustment, arbitrary handle of the list: '
           'the context state queued for commit is a copy of the entity\'s state; its DescriptorVersion is the CURRENT '
           'DescriptorVersion of its descriptor in the MDIB (the entity may be older than the last descriptor update); an '
           'existing state gets the stored StateVersion + 1, a new one the remembered version (set_version); a handle '
           'without state queues the deletion of the stored state')
    trusted = ('copy.deepcopy returns an equal, disjoint object',)

    def setup(self, b):
        st = b.st
        ids = b.ex.ctx.builtin_class_ids
        self.dv = b.int('descriptor_version_in_mdib')
        self.sv_old = b.int('stored_state_version')
        self.has_old = b.bool('state_exists_in_mdib')
        self.has_new = b.bool('entity_has_the_state')
        self.descr = b.obj('descriptor_in_mdib', DescriptorVersion=self.dv)
        self.edescr = b.obj('entity_descriptor', DescriptorVersion=b.int('entity_descriptor_version'))
        self.old = b.obj('stored_state', StateVersion=self.sv_old)
        self.estate = b.obj('entity_state', Handle=b.str('state_handle'), DescriptorHandle=b.str('descriptor_handle'),
                            StateVersion=b.int('entity_state_version'), DescriptorVersion=b.int('entity_state_descriptor_version'),
                            is_context_state=b.bool('is_context_state'))
        self.states = b.obj('entity.states')
        self.entity = b.obj('entity', states=self.states, descriptor=self.edescr)
        self.upd = b.obj('state_updates')
        st.assume(z3.Select(st.get_arr('C'), self.upd.e) == ids['dict'])
        st.assume(z3.Select(st.get_arr('DN'), self.upd.e) >= 0)
        handles = b.obj('modified_handles')
        st.assume(z3.Select(st.get_arr('C'), handles.e) == ids['list'])
        self.ctx_tbl = b.obj('context_states', handle=b.obj('context_states.handle'))
        self.descr_tbl = b.obj('descriptions', handle=b.obj('descriptions.handle'))
        mdib = b.obj('mdib', context_states=self.ctx_tbl, descriptions=self.descr_tbl)
        self.o = b.obj('self', cls=(TR, 'ContextStateTransaction'), _mdib=mdib, _state_updates=self.upd)
        b.distinct(self.o, mdib, self.upd, self.entity, self.estate, self.old, self.descr, self.edescr, self.states, handles,
                   self.ctx_tbl, self.descr_tbl)
        self.adjust = b.bool('adjust_version_counter')
        st.ghost['log'] = ()
        return self.o, [self.entity, handles], {'adjust_version_counter': self.adjust}

    container_hints = {'self._state_updates': 'dict'}

    def callees(self, ex):
        def states_get(ex_, st, args, kwargs):
            recv = st.ghost.get('c:recv')
            return vany(z3.If(self.has_new.e, Val.ref(self.estate.e), Val.none), maybe_none=True)

        def get_one(ex_, st, args, kwargs):
            st.ghost['log'] += (('get_one', st.ghost.get('c:recv'), st.box(args[0]), 'allow_none' in kwargs),)
            if 'allow_none' not in kwargs:
                return self.descr
            return vany(z3.If(self.has_old.e, Val.ref(self.old.e), Val.none), maybe_none=True)

        def deep(ex_, st, args, kwargs):
            src = ex_.concrete_kind(st, args[0], ('ref',))
            c = st.alloc('StateCopy')
            for f in ('StateVersion', 'DescriptorVersion', 'DescriptorHandle', 'Handle'):
                st.set_arr('f:' + f, z3.Store(st.get_arr('f:' + f), c.e, z3.Select(st.get_arr('f:' + f), src.e)))
            st.ghost['c:copy'] = (c.e, st.box(args[0]))
            return c

        def set_version(ex_, st, args, kwargs):
            st.ghost['log'] += (('set_version', st.ghost.get('c:recv'), st.box(args[0]), False),)
            return NONE

        def item(ex_, st, args, kwargs):
            o = st.alloc('TransactionItem')
            vals = dict(zip(('old', 'new'), args))
            vals.update(kwargs)
            st.write_field(o, 'old', vals['old'])
            st.write_field(o, 'new', vals['new'])
            st.ghost['c:item'] = (st.box(vals['old']), st.box(vals['new']))
            return o
        return {'*.get': Pure(states_get, name='entity.states.get(handle)'),
                '*.get_one': Pure(get_one, name='index get_one (C11)'),
                'copy.deepcopy': Pure(deep, name='copy.deepcopy', trusted=True),
                'copy.copy': _shallow_copy_summary(),
                '*.set_version': Pure(set_version, name='context_states.set_version (C02.set_version)'),
                'sdc11073.mdib.transactionsprotocol:TransactionItem': Pure(item, name='TransactionItem(old, new)'),
                f'{TR}:TransactionItem': Pure(item, name='TransactionItem(old, new)'),
                'TransactionItem': Pure(item, name='TransactionItem(old, new)')}

    def hooks(self, ex):
        class H:
            tracked_names = ()

            def on_call(self, ex_, st, fv, keys, args, kwargs, node):
                if fv.t == 'method':
                    st.ghost['c:recv'] = st.box(fv.recv)
                return None

            @staticmethod
            def on_loop_havoc(ex_, st, node):
                st.ghost['log'] = ()
                st.ghost.pop('c:copy', None)
                st.ghost.pop('c:item', None)
        return H()

    def loops(self, ex):
        def body(ex_, st, env):
            if env['_phase'] != 'preserve':
                return z3.BoolVal(True)
            ob = lambda n, f: ex_.oblige(st, 'handle.' + n, f, kind='loop')   # noqa: E731
            item, cp = st.ghost.get('c:item'), st.ghost.get('c:copy')
            # emitted on every path so that the name is part of the recorded baseline
            ob('every_listed_handle_is_queued', z3.BoolVal(item is not None))
            if item is None:
                return z3.BoolVal(True)
            old, new = item
            ob('queued_with_the_stored_state', old == z3.If(self.has_old.e, Val.ref(self.old.e), Val.none))
            if cp is None:
                ob('deletion_only_for_a_handle_without_state', z3.And(z3.Not(self.has_new.e), Val.is_none(new)))
                return z3.BoolVal(True)
            ob('queued_state_is_a_copy_of_the_entity_state', z3.And(new == Val.ref(cp[0]), cp[1] == Val.ref(self.estate.e)))
            F = lambda n: Val.i(z3.Select(st.get_arr('f:' + n), cp[0]))   # noqa: E731
            ob('descriptor_version_follows_the_descriptor_in_the_mdib', z3.Implies(self.adjust.e, F('DescriptorVersion') == self.dv.e))
            ob('existing_state_version_incremented_by_one', z3.Implies(z3.And(self.adjust.e, self.has_old.e), F('StateVersion') == self.sv_old.e + 1))
            sv = [x for x in st.ghost['log'] if x[0] == 'set_version']
            ob('new_state_takes_the_remembered_version', z3.Implies(z3.And(self.adjust.e, z3.Not(self.has_old.e)), z3.And(
                z3.BoolVal(len(sv) == 1), sv[0][2] == Val.ref(cp[0])) if len(sv) == 1 else z3.BoolVal(False)))
            return z3.BoolVal(True)
        return {0: LoopSpec(inv=body, havoc_heap=['DK', 'DV', 'DN'])}

    def finish(self, ex, st0, outcomes, b):
        names = {o.name for o in ex.ctx.obligations}
        ex.oblige(st0, 'every_handle_is_processed', z3.BoolVal('handle.descriptor_version_follows_the_descriptor_in_the_mdib' in names))

    def post(self, ex, st0, st, outcome, b):
        for f in ('StateVersion', 'DescriptorVersion'):
            ex.oblige(st, f'entity_state_{f}_unchanged', z3.Select(st.get_arr('f:' + f), self.estate.e) == z3.Select(st0.get_arr('f:' + f), self.estate.e))


@register
class UpdateCorrespondingState(FnCheck):
    id = 'C02.update_corresponding_state'
    prop = 'C02'
    tag = 'S'
    opaque_ok = True
    target = f'{TR}:DescriptorTransaction._update_corresponding_state'
    field_types = {'DescriptorVersion': 'int', 'StateVersion': 'int', 'is_context_descriptor': 'bool'}
    doc = ('_update_corresponding_state(descriptor) for a single-state descriptor whose state is already part of the '
           'transaction: afterwards that state carries the DescriptorVersion of THIS descriptor - whatever descriptor '
           'object the state referenced before (entity writes leave states referencing private copies)')

    def setup(self, b):
        st = b.st
        self.dv = b.int('new_descriptor_version')
        self.handle = b.str('handle')
        self.descr = b.obj('descriptor', DescriptorVersion=self.dv, Handle=self.handle, is_context_descriptor=b.bool('is_context_descriptor'))
        self.other = b.obj('older_copy_of_the_descriptor', DescriptorVersion=b.int('older_version'))
        self.ref_other = b.bool('state_references_an_older_copy')
        self.new_state = b.obj('state_in_transaction', DescriptorVersion=b.int('state_descriptor_version'),
                               descriptor_container=vany(z3.If(self.ref_other.e, Val.ref(self.other.e), Val.ref(self.descr.e))))
        self.item = b.obj('transaction_item', new=self.new_state, old=b.obj('stored_state'))
        self.upd = b.obj('updates_dict')
        st.assume(z3.Select(st.get_arr('C'), self.upd.e) == b.ex.ctx.builtin_class_ids['dict'])
        st.assume(z3.Select(st.get_arr('DN'), self.upd.e) >= 0)
        key = Val.str(self.handle.e)
        st.assume(z3.Select(z3.Select(st.get_arr('DK'), self.upd.e), key))
        st.assume(z3.Select(z3.Select(st.get_arr('DV'), self.upd.e), key) == Val.ref(self.item.e))
        st.assume(z3.Not(Val.b(z3.Select(st.get_arr('f:is_context_descriptor'), self.descr.e))))
        self.o = b.obj('self', cls=(TR, 'DescriptorTransaction'))
        b.distinct(self.o, self.descr, self.other, self.new_state, self.item, self.upd)
        return self.o, [self.descr], {}

    def callees(self, ex):
        def upd_version(ex_, st, args, kwargs):
            # contract C02.update_descriptor_version: DescriptorVersion := descriptor_container.DescriptorVersion
            recv = ex_.concrete_kind(st, vany(st.ghost['c:recv']), ('ref',))
            dc = z3.Select(st.get_arr('f:descriptor_container'), recv.e)
            st.set_arr('f:DescriptorVersion', z3.Store(st.get_arr('f:DescriptorVersion'), recv.e,
                                                       z3.Select(st.get_arr('f:DescriptorVersion'), Val.oid(dc))))
            return NONE
        return {f'{TR}:DescriptorTransaction._get_states_update': Pure(lambda e, s, a, k: self.upd, name='_get_states_update -> the update dict of the state kind'),
                '*.update_descriptor_version': Pure(upd_version, name='state.update_descriptor_version (C02.update_descriptor_version)')}

    def hooks(self, ex):
        class H:
            tracked_names = ()

            def on_call(self, ex_, st, fv, keys, args, kwargs, node):
                if fv.t == 'method':
                    st.ghost['c:recv'] = st.box(fv.recv)
                return None
        return H()

    def post(self, ex, st0, st, outcome, b):
        if outcome[0] == 'exc':
            return
        ex.oblige(st, 'state_in_transaction_takes_the_version_of_this_descriptor',
                  Val.i(z3.Select(st.get_arr('f:DescriptorVersion'), self.new_state.e)) == self.dv.e)


@register
class DescriptorProcessTransaction(FnCheck):
    id = 'C02.descriptor_process_transaction'
    prop = 'C02'
    tag = 'S'
    opaque_ok = True
    target = f'{TR}:DescriptorTransaction.process_transaction'
    doc = ('DescriptorTransaction.process_transaction, arbitrary queued item: CREATE reports a copy, adds the descriptor '
           'to the table and then brings its state along; DELETE removes the descriptor subtree with its states and '
           'reports copies of all of them; UPDATE reports the new descriptor, overwrites the STORED descriptor from it, '
           'brings the state along and re-indexes the stored descriptor AFTER it was overwritten (C11: lookups by the '
           'changed attributes); the parent version is incremented only for create / delete. MdibVersion becomes '
           'new_mdib_version iff something is queued')
    trusted = ('table operations (C11 leaf contracts); _update_corresponding_state / _increment_parent_descriptor_version / '
               '_handle_state_updates have their own contracts',)
    LOGGED = ('mk_copy', 'add_object_no_lock', 'update_object_no_lock', 'update_from_other_container', '_update_corresponding_state',
              '_increment_parent_descriptor_version', 'get_all_descriptors_in_subtree', 'rm_descriptors_and_states',
              '_handle_state_updates')

    def setup(self, b):
        st = b.st
        ids = b.ex.ctx.builtin_class_ids
        self.upd = b.obj('descriptor_updates')
        st.assume(z3.Select(st.get_arr('C'), self.upd.e) == ids['dict'])
        st.assume(z3.Select(st.get_arr('DN'), self.upd.e) >= 0)
        self.tbl = b.obj('descriptions')
        self.mdib = b.obj('mdib', descriptions=self.tbl, mdib_version=b.int('mdib_version'))
        self.newv = b.int('new_mdib_version')
        self.o = b.obj('self', cls=(TR, 'DescriptorTransaction'), _mdib=self.mdib, descriptor_updates=self.upd,
                       new_mdib_version=self.newv)
        b.distinct(self.o, self.mdib, self.upd, self.tbl)
        st.ghost['calls'] = ()
        return self.o, [b.bool('set_determination_time')], {}

    container_hints = {'self.descriptor_updates': 'dict'}
    field_types = {'mdib_version': 'int', 'new_mdib_version': 'int'}
    objref_fields = ('old', 'new')
    stable_fields = ('old', 'new', 'descriptor_updates', '_mdib', 'descriptions', 'new_mdib_version', 'parent_handle', 'Handle')

    def callees(self, ex):
        def result(ex_, st, args, kwargs):
            r = st.alloc('TransactionResult')
            for f in ('descr_created', 'descr_updated', 'descr_deleted', 'alert_updates', 'metric_updates', 'ctxt_updates',
                      'comp_updates', 'op_updates', 'rt_updates'):
                st.write_field(r, f, st.new_list())
            st.ghost['c:proc'] = r.e
            return r
        ex.ctx.map_functions['.mk_copy'] = z3.Function('mk_copy_of', Val, Val)     # [d.mk_copy() for d in ...] (C03.mk_copy)
        return {f'{TR}:TransactionResult': Pure(result, name='TransactionResult()'), 'TransactionResult': Pure(result, name='TransactionResult()'),
                'sdc11073.mdib.transactionsprotocol:TransactionResult': Pure(result, name='TransactionResult()')}

    def hooks(self, ex):
        chk = self

        class H:
            tracked_names = chk.LOGGED

            @staticmethod
            def on_loop_havoc(ex_, st, node):
                st.ghost['calls'] += (('#loop', ex_.loop_ordinal(node)),)

            @staticmethod
            def on_call(ex_, st, fv, keys, args, kwargs, node):
                name = getattr(fv, 'name', None) or (fv.fn.name if fv.t == 'repo' else None)
                if name not in chk.LOGGED:
                    return None
                recv = fv.recv if fv.t == 'method' else getattr(fv, 'self_v', None)
                st.ghost['calls'] += ((name, st.box(recv) if recv is not None else None, tuple(st.box(a) for a in args)),)
                if name == 'mk_copy':
                    return [(st, st.alloc('Copy'))]
                if name in ('get_all_descriptors_in_subtree', '_handle_state_updates'):
                    r = st.alloc('list')
                    st.set_list_seq(r, fresh(SeqVal, name))
                    st.ghost['c:' + name] = r.e
                    return [(st, r)]
                return [(st, NONE)]

            @staticmethod
            def on_attr_write(ex_, st, o, attr, val, node):
                if attr == 'mdib_version':
                    st.ghost['c:version_set'] = st.box(val)
                return None
        return H

    def loops(self, ex):
        def inv(ex_, st, env):
            if env['_phase'] != 'preserve':
                return z3.BoolVal(True)
            calls = st.ghost['calls']
            heads = [i for i, c in enumerate(calls) if c == ('#loop', 0)]
            own = tuple(c for c in calls[heads[-1] + 1:] if c[0] != '#loop') if heads else ()
            names = [c[0] for c in own]
            ob = lambda n, f: ex_.oblige(st, 'item.' + n, f, kind='loop')   # noqa: E731
            item = st.box(st.locals['tr_item'])
            old = z3.Select(st.get_arr('f:old'), Val.oid(item))
            new = z3.Select(st.get_arr('f:new'), Val.oid(item))
            tbl = Val.ref(self.tbl.e)
            if 'update_from_other_container' in names:
                core = [c for c in own if c[0] in ('update_from_other_container', '_update_corresponding_state', 'update_object_no_lock')]
                ob('update.stored_descriptor_overwritten_then_state_then_reindexed', z3.And(
                    z3.BoolVal([c[0] for c in core] == ['update_from_other_container', '_update_corresponding_state', 'update_object_no_lock']),
                    core[0][1] == old, core[0][2][0] == new, core[1][2][0] == old, core[2][1] == tbl, core[2][2][0] == old)
                    if len(core) == 3 else z3.BoolVal(False))
                ob('update.no_parent_increment', z3.BoolVal('_increment_parent_descriptor_version' not in names))
                ob('update.only_for_an_item_with_old_and_new', z3.And(z3.Not(Val.is_none(old)), z3.Not(Val.is_none(new))))
            elif 'add_object_no_lock' in names:
                core = [c for c in own if c[0] in ('mk_copy', 'add_object_no_lock', '_update_corresponding_state')]
                ob('create.copy_reported_descriptor_added_then_state', z3.Implies(z3.Not(Val.is_none(new)), z3.And(
                    z3.BoolVal([c[0] for c in core] == ['mk_copy', 'add_object_no_lock', '_update_corresponding_state']),
                    core[0][1] == new, core[1][1] == tbl, core[1][2][0] == new, core[2][2][0] == new)) if len(core) == 3 else z3.BoolVal(False))
                ob('create.only_for_an_item_without_old', Val.is_none(old))
            elif 'rm_descriptors_and_states' in names:
                core = [c for c in own if c[0] in ('get_all_descriptors_in_subtree', 'rm_descriptors_and_states')]
                ob('delete.whole_subtree_removed_with_its_states', z3.And(
                    z3.BoolVal([c[0] for c in core] == ['get_all_descriptors_in_subtree', 'rm_descriptors_and_states']),
                    core[0][2][0] == old, core[1][2][0] == Val.ref(st.ghost['c:get_all_descriptors_in_subtree']))
                    if len(core) == 2 and 'c:get_all_descriptors_in_subtree' in st.ghost else z3.BoolVal(False))
                ob('delete.only_for_an_item_without_new', z3.And(z3.Not(Val.is_none(old)), Val.is_none(new)))
            else:
                ob('every_queued_item_is_created_deleted_or_updated', z3.BoolVal(False))
            return z3.BoolVal(True)
        return {0: LoopSpec(inv=inv, havoc_heap=['L', 'DK', 'DV', 'DN'])}

    def finish(self, ex, st0, outcomes, b):
        names = {o.name for o in ex.ctx.obligations}
        for n in ('item.update.stored_descriptor_overwritten_then_state_then_reindexed', 'item.create.copy_reported_descriptor_added_then_state',
                  'item.delete.whole_subtree_removed_with_its_states'):
            ex.oblige(st0, 'handles_' + n.split('.')[1], z3.BoolVal(n in names))

    def post(self, ex, st0, st, outcome, b):
        if outcome[0] == 'exc':
            return
        nonempty = z3.Select(st0.get_arr('DN'), self.upd.e) > 0
        if 'c:version_set' in st.ghost:
            ex.oblige(st, 'mdib_version_becomes_new_mdib_version', z3.And(nonempty, st.ghost['c:version_set'] == Val.int(self.newv.e)))
        else:
            ex.oblige(st, 'empty_transaction_keeps_mdib_version', z3.Not(nonempty))
        if 'c:proc' in st.ghost:
            ex.oblige(st, 'returns_the_transaction_result', st.box(outcome[1]) == Val.ref(st.ghost['c:proc']))


@register
class UpdateCorrespondingStateNotInTx(FnCheck):
    id = 'C02.update_corresponding_state_copy'
    prop = 'C02'
    target = f'{TR}:DescriptorTransaction._update_corresponding_state'
    field_types = {'DescriptorVersion': 'int', 'StateVersion': 'int', 'is_context_descriptor': 'bool'}
    container_hints = {}
    doc = ('_update_corresponding_state(descriptor) for a single-state descriptor whose state is NOT part of the '
           'transaction: a COPY of the stored state is queued (old = stored state) with the DescriptorVersion of this '
           'descriptor and StateVersion + 1; the stored state object itself is not written, so what the MDIB and earlier '
           'readers hold keeps the content of its version until the commit replaces it (C03, C07)')

    def setup(self, b):
        st = b.st
        self.dv = b.int('new_descriptor_version')
        self.handle = b.str('handle')
        self.descr = b.obj('descriptor', DescriptorVersion=self.dv, Handle=self.handle, is_context_descriptor=b.bool('is_context_descriptor'))
        self.sv, self.sdv = b.int('stored_state_version'), b.int('stored_state_descriptor_version')
        self.stored = b.obj('stored_state', StateVersion=self.sv, DescriptorVersion=self.sdv)
        self.exists = b.bool('state_exists')
        self.upd = b.obj('updates_dict')
        st.assume(z3.Select(st.get_arr('C'), self.upd.e) == b.ex.ctx.builtin_class_ids['dict'])
        st.assume(z3.Select(st.get_arr('DN'), self.upd.e) >= 0)
        key = Val.str(self.handle.e)
        st.assume(z3.Not(z3.Select(z3.Select(st.get_arr('DK'), self.upd.e), key)))
        st.assume(z3.Not(Val.b(z3.Select(st.get_arr('f:is_context_descriptor'), self.descr.e))))
        mdib = b.obj('mdib', states=b.obj('states', descriptor_handle=b.obj('states.descriptor_handle')))
        self.o = b.obj('self', cls=(TR, 'DescriptorTransaction'), _mdib=mdib)
        b.distinct(self.o, self.descr, self.stored, self.upd, mdib)
        return self.o, [self.descr], {}

    def callees(self, ex):
        def item(ex_, st, args, kwargs):
            o = st.alloc('TransactionItem')
            st.write_field(o, 'old', args[0])
            st.write_field(o, 'new', args[1])
            return o
        return {f'{TR}:DescriptorTransaction._get_states_update': Pure(lambda e, s, a, k: self.upd, name='_get_states_update'),
                '*.get_one': Pure(lambda e, s, a, k: vany(z3.If(self.exists.e, Val.ref(self.stored.e), Val.none), maybe_none=True),
                                  name='states.descriptor_handle.get_one(handle, allow_none=True) (C11)'),
                'sdc11073.mdib.transactionsprotocol:TransactionItem': Pure(item, name='TransactionItem(old, new)'),
                f'{TR}:TransactionItem': Pure(item, name='TransactionItem(old, new)'), 'TransactionItem': Pure(item, name='TransactionItem(old, new)')}

    def hooks(self, ex):
        return CopyHooks()

    def post(self, ex, st0, st, outcome, b):
        if outcome[0] == 'exc':
            ex.oblige(st, 'never_raises', z3.BoolVal(False), info={'exc': repr(outcome[1])})
            return
        key = Val.str(self.handle.e)
        dk, dv = z3.Select(st.get_arr('DK'), self.upd.e), z3.Select(st.get_arr('DV'), self.upd.e)
        for f, v in (('StateVersion', self.sv), ('DescriptorVersion', self.sdv)):
            ex.oblige(st, f'stored_state_{f}_not_written', Val.i(z3.Select(st.get_arr('f:' + f), self.stored.e)) == v.e)
        ex.oblige(st, 'queued_iff_the_state_exists', z3.Select(dk, key) == self.exists.e)
        copies = st.ghost.get('copies', ())
        if copies:
            c, src = copies[-1]
            item = Val.oid(z3.Select(dv, key))
            ex.oblige(st, 'a_copy_is_queued_with_the_stored_state_as_old', z3.Implies(self.exists.e, z3.And(
                src == self.stored.e, z3.Select(st.get_arr('f:new'), item) == Val.ref(c), c != self.stored.e,
                z3.Select(st.get_arr('f:old'), item) == Val.ref(self.stored.e))))
            ex.oblige(st, 'copy_carries_new_versions', z3.Implies(self.exists.e, z3.And(
                Val.i(z3.Select(st.get_arr('f:DescriptorVersion'), c)) == self.dv.e,
                Val.i(z3.Select(st.get_arr('f:StateVersion'), c)) == self.sv.e + 1)))
        else:
            ex.oblige(st, 'a_copy_is_queued_with_the_stored_state_as_old', z3.Not(self.exists.e))


@register
class RmDescriptorsAndStates(FnCheck):
    id = 'C02.rm_descriptors_and_states'
    prop = 'C02'
    tag = 'S'
    opaque_ok = True
    target = f'{MB}:MdibBase.rm_descriptors_and_states'
    doc = ('rm_descriptors_and_states, arbitrary descriptor of the list: the descriptor is removed from the descriptions '
           'table; for the states table and the context-states table the entry of the descriptor_handle index is looked '
           'up with the handle of THAT descriptor, and when it exists ALL its states are removed: remove_objects gets a '
           'private list with the same content as the index entry - never the live index list, which remove_objects '
           'shrinks while iterating (every second state would survive as an orphan referring to a deleted descriptor) - '
           'and the same private list is what deleted_states_by_handle publishes')
    trusted = ('MultiKeyLookup.remove_object / remove_objects (C11): remove exactly the given objects; requires that the '
               'argument of remove_objects is not one of the index lists',)
    LOGGED = ('remove_object', 'get', 'remove_objects')
    stable_fields = ('descriptions', 'states', 'context_states', 'descriptor_handle', 'Handle')

    def setup(self, b):
        st = b.st
        self.t = {}
        for n in ('descriptions', 'states', 'context_states'):
            idx = b.obj(n + '.descriptor_handle')
            self.t[n] = b.obj(n, descriptor_handle=idx)
            self.t[n + '.idx'] = idx
        self.o = b.obj('self', cls=(MB, 'MdibBase'), descriptions=self.t['descriptions'], states=self.t['states'],
                       context_states=self.t['context_states'])
        lst = b.obj('descriptor_containers')
        st.assume(z3.Select(st.get_arr('C'), lst.e) == b.ex.ctx.builtin_class_ids['list'])
        b.distinct(self.o, lst, *self.t.values())
        st.ghost['calls'] = ()
        return self.o, [lst], {}

    def hooks(self, ex):
        chk = self

        class H:
            tracked_names = chk.LOGGED + ('deleted_states_by_handle', 'deleted_descriptors_by_handle')

            @staticmethod
            def on_loop_havoc(ex_, st, node):
                st.ghost['calls'] += (('#loop', ex_.loop_ordinal(node)),)

            @staticmethod
            def on_call(ex_, st, fv, keys, args, kwargs, node):
                name = getattr(fv, 'name', None) or (fv.fn.name if fv.t == 'repo' else None)
                if name not in chk.LOGGED:
                    return None
                recv = fv.recv if fv.t == 'method' else getattr(fv, 'self_v', None)
                if name == 'get':
                    # index lookup: None or the live list object of the index entry (a pre-state list, arbitrary content)
                    live = fresh(IntS, 'live_entry')
                    found = fresh(BoolS, 'found')
                    st.assume(z3.And(live > 0, live < 10 ** 9,
                                     z3.Select(st.get_arr('C'), live) == ex_.ctx.builtin_class_ids['list']))
                    st.ghost['calls'] += ((name, st.box(recv), tuple(st.box(a) for a in args), live, found,
                                           z3.Select(st.get_arr('L'), live)),)
                    return [(st, vany(z3.If(found, Val.ref(live), Val.none), maybe_none=True))]
                st.ghost['calls'] += ((name, st.box(recv) if recv is not None else None, tuple(st.box(a) for a in args),
                                       tuple(z3.Select(st.get_arr('L'), Val.oid(st.box(a))) for a in args)),)
                return [(st, NONE)]
        return H

    def loops(self, ex):
        def inv(ex_, st, env):
            if env['_phase'] != 'preserve':
                return z3.BoolVal(True)
            calls = st.ghost['calls']
            heads = [i for i, c in enumerate(calls) if c == ('#loop', 0)]
            own = tuple(c for c in calls[heads[-1] + 1:] if c[0] != '#loop') if heads else ()
            ob = lambda n, f: ex_.oblige(st, n, f, kind='loop')   # noqa: E731
            d = st.box(st.locals['descriptor_container'])
            handle = z3.Select(st.get_arr('f:Handle'), Val.oid(d))
            names = [c[0] for c in own]
            ob('descriptor_removed_from_descriptions_first', z3.And(
                z3.BoolVal(bool(own) and own[0][0] == 'remove_object'), Val.oid(own[0][1]) == self.t['descriptions'].e,
                own[0][2][0] == d) if own else z3.BoolVal(False))
            gets = [c for c in own if c[0] == 'get']
            ob('state_entries_of_both_tables_looked_up_by_the_handle_of_the_descriptor', z3.And(
                z3.BoolVal(len(gets) == 2), Val.oid(gets[0][1]) == self.t['states.idx'].e,
                Val.oid(gets[1][1]) == self.t['context_states.idx'].e, gets[0][2][0] == handle, gets[1][2][0] == handle)
                if len(gets) == 2 else z3.BoolVal(False))
            # after each lookup: found => exactly one remove_objects on that table with a private copy of the entry
            ok = []
            for gi, g in enumerate(gets):
                tbl = self.t['states' if gi == 0 else 'context_states']
                pos = own.index(g)
                nxt = own[pos + 1] if pos + 1 < len(own) else None
                is_rm = nxt is not None and nxt[0] == 'remove_objects'
                _, _, _, live, found, content = g
                if is_rm:
                    arg = nxt[2][0]
                    ok.append(z3.And(found, Val.oid(nxt[1]) == tbl.e, Val.is_ref(arg), Val.oid(arg) != live,
                                     Val.oid(arg) >= 10 ** 9, nxt[3][0] == content))
                else:
                    ok.append(z3.Not(found))
            ob('every_found_entry_is_removed_through_a_private_copy_with_all_its_states', z3.And(*ok) if len(gets) == 2 else z3.BoolVal(False))
            ob('no_other_table_operation', z3.BoolVal(all(n in ('remove_object', 'get', 'remove_objects') for n in names)
                                                      and names.count('remove_object') == 1 and names.count('remove_objects') <= 2))
            return z3.BoolVal(True)
        return {0: LoopSpec(inv=inv, havoc_heap=['L', 'DK', 'DV', 'DN'])}

    def post(self, ex, st0, st, outcome, b):
        if outcome[0] == 'exc':
            ex.oblige(st, 'raises_only_what_a_table_operation_raises', z3.BoolVal(outcome[1].cls == '*'), info={'exc': repr(outcome[1])})


@register
class UpdateCorrespondingContextStates(FnCheck):
    id = 'C02.update_corresponding_context_states'
    prop = 'C02'
    target = f'{TR}:DescriptorTransaction._update_corresponding_state'
    field_types = {'DescriptorVersion': 'int', 'StateVersion': 'int', 'is_context_descriptor': 'bool'}
    doc = ('_update_corresponding_state(descriptor) for a context descriptor: EVERY context state the MDIB holds for the '
           'descriptor - associated or not, bound or unbound - is part of the transaction afterwards (a state that was '
           'not yet in it is queued as a copy with StateVersion + 1 whose old item is the stored object; a state that '
           'is deleted in this transaction stays deleted), and every such new state refers to this descriptor object '
           'and carries its DescriptorVersion. Consumers drop the context states that a description update does not '
           'list, so a state left out here would silently disappear there (C01)')
    trusted = ('context_states.descriptor_handle.get (C11): all states of the descriptor',)
    feasibility_ematch_only = True
    feasibility_timeout_ms = 400

    def setup(self, b):
        st = b.st
        ids = b.ex.ctx.builtin_class_ids
        self.dv = b.int('new_descriptor_version')
        self.handle = b.str('handle')
        self.descr = b.obj('descriptor', DescriptorVersion=self.dv, Handle=self.handle, is_context_descriptor=b.bool('is_context_descriptor'))
        st.assume(Val.b(z3.Select(st.get_arr('f:is_context_descriptor'), self.descr.e)))
        self.ALL = z3.Const('context_states_of_the_descriptor', SeqVal)
        self.all_list = b.obj('index_entry')
        st.assume(z3.Select(st.get_arr('C'), self.all_list.e) == ids['list'])
        st.assume(z3.Select(st.get_arr('L'), self.all_list.e) == self.ALL)
        x = z3.Const('x!cs', Val)
        self.F_handle = st.get_arr('f:Handle')
        st.assume(z3.ForAll([x], z3.Implies(z3.Contains(self.ALL, z3.Unit(x)), z3.And(
            Val.is_ref(x), Val.oid(x) > 0, Val.oid(x) < FRESH_BASE, Val.is_str(z3.Select(self.F_handle, Val.oid(x)))))))
        self.upd = b.obj('updates_dict')
        st.assume(z3.Select(st.get_arr('C'), self.upd.e) == ids['dict'])
        st.assume(z3.Select(st.get_arr('DN'), self.upd.e) >= 0)
        # items already in the transaction: TransactionItem objects whose `new` is None (deleted) or a state object
        self.dk0 = z3.Select(st.get_arr('DK'), self.upd.e)
        self.dv0 = z3.Select(st.get_arr('DV'), self.upd.e)
        k = z3.Const('k!it', Val)
        new0 = z3.Select(st.get_arr('f:new'), Val.oid(z3.Select(self.dv0, k)))
        st.assume(z3.ForAll([k], z3.Implies(z3.Select(self.dk0, k), z3.And(
            Val.is_ref(z3.Select(self.dv0, k)), Val.oid(z3.Select(self.dv0, k)) > 0, Val.oid(z3.Select(self.dv0, k)) < FRESH_BASE,
            z3.Or(Val.is_none(new0), z3.And(Val.is_ref(new0), Val.oid(new0) > 0, Val.oid(new0) < FRESH_BASE))))))
        idx = b.obj('context_states.descriptor_handle')
        mdib = b.obj('mdib', context_states=b.obj('context_states', descriptor_handle=idx))
        self.o = b.obj('self', cls=(TR, 'DescriptorTransaction'), _mdib=mdib)
        b.distinct(self.o, self.descr, self.upd, mdib, self.all_list, idx)
        return self.o, [self.descr], {}

    def hd(self, x):
        return z3.Select(self.F_handle, Val.oid(x))

    def callees(self, ex):
        def item(ex_, st, args, kwargs):
            o = st.alloc('TransactionItem')
            st.write_field(o, 'old', args[0])
            st.write_field(o, 'new', args[1])
            return o

        def upd_version(ex_, st, args, kwargs):
            recv = ex_.concrete_kind(st, vany(st.ghost['c:recv']), ('ref',))
            dc = z3.Select(st.get_arr('f:descriptor_container'), recv.e)
            st.set_arr('f:DescriptorVersion', z3.Store(st.get_arr('f:DescriptorVersion'), recv.e,
                                                       z3.Select(st.get_arr('f:DescriptorVersion'), Val.oid(dc))))
            return NONE
        return {f'{TR}:DescriptorTransaction._get_states_update': Pure(lambda e, s, a, k: self.upd, name='_get_states_update -> context_state_updates'),
                'self._mdib.context_states.descriptor_handle.get': Pure(lambda e, s, a, k: self.all_list, name='context_states.descriptor_handle.get(handle, []) (C11)'),
                '*.update_descriptor_version': Pure(upd_version, name='state.update_descriptor_version (C02.update_descriptor_version)'),
                'sdc11073.mdib.transactionsprotocol:TransactionItem': Pure(item, name='TransactionItem(old, new)'),
                f'{TR}:TransactionItem': Pure(item, name='TransactionItem(old, new)'), 'TransactionItem': Pure(item, name='TransactionItem(old, new)')}

    def hooks(self, ex):
        base = CopyHooks()

        class H:
            tracked_names = CopyHooks.tracked_names

            @staticmethod
            def on_call(ex_, st, fv, keys, args, kwargs, node):
                if fv.t == 'method':
                    st.ghost['c:recv'] = st.box(fv.recv)
                return base.on_call(ex_, st, fv, keys, args, kwargs, node)
        return H

    def _wf_items(self, st):
        k = z3.Const('k!wf', Val)
        dk, dvv = z3.Select(st.get_arr('DK'), self.upd.e), z3.Select(st.get_arr('DV'), self.upd.e)
        it = z3.Select(dvv, k)
        new = z3.Select(st.get_arr('f:new'), Val.oid(it))
        return z3.ForAll([k], z3.Implies(z3.Select(dk, k), z3.And(Val.is_ref(it), z3.Or(Val.is_none(new), Val.is_ref(new)))))

    def _covered(self, st, x):
        """x is part of the transaction: an item is queued under its handle; its new state (unless deleted) refers to this
        descriptor and carries its version"""
        dk, dvv = z3.Select(st.get_arr('DK'), self.upd.e), z3.Select(st.get_arr('DV'), self.upd.e)
        it = z3.Select(dvv, self.hd(x))
        new = z3.Select(st.get_arr('f:new'), Val.oid(it))
        return z3.And(z3.Select(dk, self.hd(x)), Val.is_ref(it), z3.Or(Val.is_none(new), z3.And(
            Val.is_ref(new),
            z3.Select(st.get_arr('f:descriptor_container'), Val.oid(new)) == Val.ref(self.descr.e),
            Val.i(z3.Select(st.get_arr('f:DescriptorVersion'), Val.oid(new))) == self.dv.e)))

    def loops(self, ex):
        def inv(ex_, st, env):
            goals = {'frame': z3.And(z3.Select(st.get_arr('L'), self.all_list.e) == self.ALL,
                                     z3.Select(st.get_arr('f:DescriptorVersion'), self.descr.e) == Val.int(self.dv.e),
                                     z3.Select(st.get_arr('C'), self.upd.e) == ex_.ctx.builtin_class_ids['dict'],
                                     z3.Select(st.get_arr('DN'), self.upd.e) >= 0),
                     'queued_items_are_transaction_items': self._wf_items(st)}
            if env['_phase'] == 'preserve':
                # end of an arbitrary iteration (also when it ends with `continue`): the state it looked at is covered
                cs = st.locals.get('context_state')
                goals['the_state_of_this_iteration_is_in_the_transaction'] = \
                    self._covered(st, st.box(cs)) if cs is not None else z3.BoolVal(False)
            return goals
        return {0: LoopSpec(inv=inv, havoc_heap=['DK', 'DV', 'DN', 'f:new', 'f:old', 'f:descriptor_container',
                                                 'f:DescriptorVersion', 'f:StateVersion', 'f:DescriptorHandle',
                                                 'f:is_context_state'], prefix=True)}

    def finish(self, ex, st0, outcomes, b):
        names = {o.name for o in ex.ctx.obligations}
        if 'loop0.inv_preserved.the_state_of_this_iteration_is_in_the_transaction' not in names:
            ex.oblige(st0, 'loop_over_all_context_states_exists', z3.BoolVal(False))
        # the loop must run over the complete index entry: no `break`, no early return out of it
        import ast as _ast
        mod, cdef, fn = ex.repo.find(self.target)
        loops = [n for n in _ast.walk(fn) if isinstance(n, _ast.For)]
        early = [n for lp in loops[:1] for n in _ast.walk(lp) if isinstance(n, (_ast.Break, _ast.Return))]
        ex.oblige(st0, 'loop_visits_every_context_state_of_the_descriptor', z3.BoolVal(bool(loops) and not early))

    def post(self, ex, st0, st, outcome, b):
        if outcome[0] == 'exc':
            ex.oblige(st, 'never_raises', z3.BoolVal(False), info={'exc': repr(outcome[1])})
            return
        ex.oblige(st, 'index_entry_untouched', z3.Select(st.get_arr('L'), self.all_list.e) == self.ALL)


@register
class DescrTxWriteEntitySingleState(_DescrTxBase):
    id = 'C02.descriptor_write_entity'
    target = f'{TR}:DescriptorTransaction.write_entity'
    field_types = {'DescriptorVersion': 'int', 'StateVersion': 'int', 'is_multi_state': 'bool'}
    doc = ('DescriptorTransaction.write_entity(entity) for a single-state entity, with version adjustment: refused without '
           'change when the handle is already in the transaction; otherwise a private COPY of the entity\'s descriptor is '
           'queued - DescriptorVersion = stored + 1 for an existing descriptor (old = the stored one), the remembered '
           'version (set_version) for a new one - and a private COPY of the entity\'s state is queued under the '
           'descriptor handle, referring to that descriptor copy, with StateVersion = stored + 1 for an existing state '
           '(old = the stored state) or the remembered version for a new one; neither the entity nor the stored objects '
           'are written')
    trusted = ('copy.deepcopy returns an equal, disjoint object',)

    def setup(self, b):
        st = b.st
        ids = b.ex.ctx.builtin_class_ids
        o = self.mk(b)
        self.exists = b.bool('descriptor_exists_in_mdib')
        self.ev, self.esv = b.int('entity_descriptor_version'), b.int('entity_state_version')
        self.edescr = b.obj('entity.descriptor', Handle=self.handle, DescriptorVersion=self.ev)
        self.estate = b.obj('entity.state', DescriptorHandle=self.handle, StateVersion=self.esv)
        self.entity = b.obj('entity', descriptor=self.edescr, state=self.estate, is_multi_state=b.bool('is_multi_state'))
        st.assume(z3.Not(Val.b(z3.Select(st.get_arr('f:is_multi_state'), self.entity.e))))
        self.sv = b.int('stored_state_version')
        self.sstate = b.obj('stored_state', StateVersion=self.sv, DescriptorHandle=self.handle)
        self.state_exists = b.bool('state_exists_in_mdib')
        self.supd = b.obj('state_updates')
        st.assume(z3.Select(st.get_arr('C'), self.supd.e) == ids['dict'])
        st.assume(z3.Select(st.get_arr('DN'), self.supd.e) >= 0)
        b.distinct(o, self.edescr, self.estate, self.entity, self.sstate, self.supd, self.upd, self.stored)
        st.ghost['c:set_version'] = ()
        return o, [self.entity], {}

    def callees(self, ex):
        def get_one(ex_, st, args, kwargs):
            recv = st.ghost.get('c:recv_path', '')
            st.ghost['c:lookups'] = st.ghost.get('c:lookups', ()) + ((recv, st.box(args[0])),)
            if 'states' in recv:
                return vany(z3.If(self.state_exists.e, Val.ref(self.sstate.e), Val.none), maybe_none=True)
            return vany(z3.If(self.exists.e, Val.ref(self.stored.e), Val.none), maybe_none=True)

        def set_version(ex_, st, args, kwargs):
            st.ghost['c:set_version'] = st.ghost['c:set_version'] + ((st.ghost.get('c:recv_path', ''), st.box(args[0])),)
            return NONE

        def deepcopy(ex_, st, args, kwargs):
            src = ex_.concrete_kind(st, args[0], ('ref',))
            c = st.alloc('DeepCopy')
            for f in ('StateVersion', 'DescriptorVersion', 'DescriptorHandle', 'Handle', 'is_context_state'):
                st.set_arr('f:' + f, z3.Store(st.get_arr('f:' + f), c.e, z3.Select(st.get_arr('f:' + f), src.e)))
            st.ghost['copies'] = st.ghost.get('copies', ()) + ((c.e, src.e),)
            return c
        return {'*.get_one': Pure(get_one, name='index get_one(handle, allow_none=True) (C11)'),
                '*.set_version': Pure(set_version, name='table.set_version(obj) (C02.set_version)'),
                'copy.deepcopy': Pure(deepcopy, name='copy.deepcopy', trusted=True),
                f'{TR}:DescriptorTransaction._get_states_update': Pure(lambda e, s, a, k: self.supd, name='_get_states_update'),
                f'{TR}:TransactionItem': self.item_summary(), 'TransactionItem': self.item_summary()}

    def hooks(self, ex):
        class H:
            tracked_names = ()

            @staticmethod
            def on_call(ex_, st, fv, keys, args, kwargs, node):
                if fv.t == 'method':
                    st.ghost['c:recv_path'] = getattr(fv, 'path', None) or (fv.recv.path or '') + '.' + fv.name
                return None
        return H

    def post(self, ex, st0, st, outcome, b):
        key = Val.str(self.handle.e)
        was = z3.Select(z3.Select(st0.get_arr('DK'), self.upd.e), key)
        if outcome[0] == 'exc':
            ex.oblige(st, 'refused_only_for_a_handle_already_in_the_transaction', z3.And(z3.BoolVal(outcome[1].cls == 'ValueError'), was),
                      info={'exc': repr(outcome[1])})
            ex.oblige(st, 'refusal_changes_nothing', self.unchanged_queue(st0, st))
            return
        copies = dict((src, c) for c, src in st.ghost.get('copies', ()))
        has, old, new = self.queued(st)
        cps = st.ghost.get('copies', ())
        ex.oblige(st, 'descriptor_and_state_are_copied_once_each', z3.And(
            cps[0][1] == self.edescr.e, cps[1][1] == self.estate.e) if len(cps) == 2 else z3.BoolVal(False))
        if len(cps) != 2:
            return
        dc, sc = z3.IntVal(cps[0][0]) if isinstance(cps[0][0], int) else cps[0][0], z3.IntVal(cps[1][0]) if isinstance(cps[1][0], int) else cps[1][0]
        sets = st.ghost['c:set_version']
        ex.oblige(st, 'queued_descriptor_is_the_private_copy_with_the_stored_one_as_old', z3.And(
            has, new == Val.ref(dc), old == z3.If(self.exists.e, Val.ref(self.stored.e), Val.none)))
        ex.oblige(st, 'existing_descriptor_gets_stored_version_plus_one', z3.Implies(
            self.exists.e, Val.i(z3.Select(st.get_arr('f:DescriptorVersion'), dc)) == self.dv.e + 1))
        ex.oblige(st, 'new_descriptor_gets_the_remembered_version', z3.Implies(z3.Not(self.exists.e), z3.Or(*[
            z3.And(z3.BoolVal('descriptions' in p), a == Val.ref(dc)) for p, a in sets]) if sets else z3.BoolVal(False)))
        skey = key
        dks, dvs = z3.Select(st.get_arr('DK'), self.supd.e), z3.Select(st.get_arr('DV'), self.supd.e)
        item = Val.oid(z3.Select(dvs, skey))
        ex.oblige(st, 'queued_state_is_the_private_copy_with_the_stored_state_as_old', z3.And(
            z3.Select(dks, skey), z3.Select(st.get_arr('f:new'), item) == Val.ref(sc),
            z3.Select(st.get_arr('f:old'), item) == z3.If(self.state_exists.e, Val.ref(self.sstate.e), Val.none)))
        ex.oblige(st, 'queued_state_refers_to_the_queued_descriptor_copy',
                  z3.Select(st.get_arr('f:descriptor_container'), sc) == Val.ref(dc))
        ex.oblige(st, 'existing_state_gets_stored_version_plus_one', z3.Implies(
            self.state_exists.e, Val.i(z3.Select(st.get_arr('f:StateVersion'), sc)) == self.sv.e + 1))
        ex.oblige(st, 'new_state_gets_the_remembered_version', z3.Implies(z3.Not(self.state_exists.e), z3.Or(*[
            z3.And(z3.BoolVal('states' in p), a == Val.ref(sc)) for p, a in sets]) if sets else z3.BoolVal(False)))
        ex.oblige(st, 'entity_and_stored_objects_not_written', z3.And(
            Val.i(z3.Select(st.get_arr('f:DescriptorVersion'), self.edescr.e)) == self.ev.e,
            Val.i(z3.Select(st.get_arr('f:StateVersion'), self.estate.e)) == self.esv.e,
            Val.i(z3.Select(st.get_arr('f:DescriptorVersion'), self.stored.e)) == self.dv.e,
            Val.i(z3.Select(st.get_arr('f:StateVersion'), self.sstate.e)) == self.sv.e))


@register
class DescrTxRemoveEntity(_DescrTxBase):
    id = 'C02.descriptor_remove_entity'
    tag = 'S'
    target = f'{TR}:DescriptorTransaction.remove_entity'
    doc = 'DescriptorTransaction.remove_entity(entity) is remove_descriptor(entity.handle) (C02.remove_descriptor), nothing else'

    def setup(self, b):
        o = self.mk(b)
        self.entity = b.obj('entity', handle=self.handle)
        b.st.ghost['calls'] = ()
        return o, [self.entity], {}

    def callees(self, ex):
        def rm(ex_, st, args, kwargs):
            st.ghost['calls'] = st.ghost['calls'] + (st.box(args[0]),)
            return [(st.fork(), Raise(ex_.mk_exc('ValueError', 'remove_descriptor'))), (st, NONE)]
        return {f'{TR}:DescriptorTransaction.remove_descriptor': Pure(rm, name='remove_descriptor (C02.remove_descriptor)')}

    def post(self, ex, st0, st, outcome, b):
        calls = st.ghost['calls']
        ex.oblige(st, 'exactly_one_remove_descriptor_with_the_entity_handle',
                  calls[0] == Val.str(self.handle.e) if len(calls) == 1 else z3.BoolVal(False))
        ex.oblige(st, 'pending_updates_only_through_remove_descriptor', self.unchanged_queue(st0, st))


@register
class TransactionLockIsExclusive(ScanCheck):
    id = 'C02.transaction_lock_is_not_reentrant'
    prop = 'C02'
    doc = ('the "one writer at a time" argument of C02.transaction_manager rests on the kind of _tr_lock: it is created '
           'exactly once, in ProviderMdib.__init__, as a threading.Lock - NOT a re-entrant lock, which would let the '
           'thread that has a transaction open start (and commit) a second one that computed its new MdibVersion from '
           'the same committed version; _tr_lock is assigned nowhere else in the mdib package')

    def scan(self, repo):
        out = []
        sites = []
        for mname in ('sdc11073.mdib.providermdib', 'sdc11073.mdib.mdibbase', 'sdc11073.mdib.providermdibxtra',
                      'sdc11073.mdib.transactions', 'sdc11073.mdib.entityprovidermdib'):
            try:
                mod = repo.module(mname)
            except Exception:  # noqa: BLE001
                mod = None
            if mod is None:
                continue
            imported = {}
            for n in ast.walk(mod.tree):
                if isinstance(n, ast.ImportFrom) and n.module == 'threading':
                    for a in n.names:
                        imported[a.asname or a.name] = a.name
            for n in ast.walk(mod.tree):
                tgts = n.targets if isinstance(n, ast.Assign) else [n.target] if isinstance(n, (ast.AnnAssign, ast.AugAssign)) else []
                for t in tgts:
                    if isinstance(t, ast.Attribute) and t.attr == '_tr_lock':
                        v = n.value
                        kind = None
                        if isinstance(v, ast.Call) and not v.args and not v.keywords:
                            f = ast.unparse(v.func)
                            kind = imported.get(f) if isinstance(v.func, ast.Name) else (f[len('threading.'):] if f.startswith('threading.') else None)
                        sites.append((mname, kind, n.lineno))
        provider_sites = [s for s in sites if s[0] == 'sdc11073.mdib.providermdib']
        out.append(('transaction_lock_created_once_per_mdib_class', len(provider_sites) == 1, {'sites': str(sites)}))
        out.append(('transaction_lock_is_a_plain_threading_lock', bool(sites) and all(k == 'Lock' for _, k, _ in sites), {'sites': str(sites)}))
        return out
