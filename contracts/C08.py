"""C08 - WS-Eventing subscriptions deliver exactly while alive and end cleanly."""
from __future__ import annotations

import z3

from pyvc.api import (FnCheck, SeqCheck, LoopSpec, Pure, Inline, register, Build, V, Val, SeqVal, IntS, RealS, BoolS,
                      StrS, NONE, Raise, Unsupported, fresh, vany, vint, vreal, vbool, vbytes, vstr, vref, as_int,
                      as_real, unbox_as, truthy, field)
from pyvc import models

SB = 'sdc11073.provider.subscriptionmgr_base'
SM = 'sdc11073.provider.subscriptionmgr'
SA = 'sdc11073.provider.subscriptionmgr_async'


def monotonic_clock():
    def fn(ex, st, args, kwargs):
        t = fresh(RealS, 'mono')
        last = st.ghost.get('mono')
        if last is not None:
            st.assume(t >= last)
        st.ghost['mono'] = t
        return vreal(t)
    return Pure(fn, name='time.monotonic(): non-decreasing real', trusted=True)


def mk_subscription(b: Build, cls=(SB, 'SubscriptionBase'), name='self'):
    """A subscription object with typed state (type invariant of the class)."""
    st = b.st
    f = {
        '_started': b.real(f'{name}._started'), '_expire_seconds': b.real(f'{name}._expire_seconds'),
        '_max_subscription_duration': b.real(f'{name}._max'), 'notify_errors': b.int(f'{name}.notify_errors'),
        '_is_closed': b.bool(f'{name}._is_closed'), '_is_connection_error': b.bool(f'{name}._conn_err'),
        'unsubscribed_at': b.any(f'{name}.unsubscribed_at', maybe_none=True),
    }
    st.assume(z3.Or(Val.is_none(f['unsubscribed_at'].e), Val.is_real(f['unsubscribed_at'].e)))
    st.assume(f['notify_errors'].e >= 0)
    st.assume(f['_max_subscription_duration'].e >= 0)
    o = b.obj(name, cls=cls, **f)
    return o, f


def remaining_spec(f, now):
    """max(granted - elapsed, 0) - the value the rounding in remaining_seconds approximates."""
    raw = f['_expire_seconds'].e - (now - f['_started'].e)
    return z3.If(raw > 0, raw, 0)


@register
class Renew(FnCheck):
    id = 'C08.renew'
    prop = 'C08'
    target = f'{SB}:SubscriptionBase.renew'
    replay_fn = 'C08:renew'

    def witness_exprs(self, st, b):
        return {'expires': z3.If(Val.is_real(self.req.e), Val.r(self.req.e), z3.RealVal(-1)),
                'self._max': self.f['_max_subscription_duration'].e}
    doc = ('renew(expires): granted = min(expires, max) when a duration was requested, else max; hence granted <= '
           'requested and granted <= provider maximum; the validity period restarts now')

    def setup(self, b):
        self.o, self.f = mk_subscription(b)
        self.req = b.any('expires', maybe_none=True)
        b.st.assume(z3.Or(Val.is_none(self.req.e), z3.And(Val.is_real(self.req.e), Val.r(self.req.e) >= 0)))
        return self.o, [self.req], {}

    def callees(self, ex):
        return {'time.monotonic': monotonic_clock()}

    def post(self, ex, st0, st, outcome, b):
        if outcome[0] == 'exc':
            ex.oblige(st, 'never_raises', z3.BoolVal(False))
            return
        g = field(st, self.o, '_expire_seconds')
        mx = self.f['_max_subscription_duration'].e
        ex.oblige(st, 'granted_is_real', Val.is_real(g))
        ex.oblige(st, 'granted_not_above_requested', z3.Implies(Val.is_real(self.req.e), Val.r(g) <= Val.r(self.req.e)))
        ex.oblige(st, 'granted_not_above_maximum', Val.r(g) <= mx)
        ex.oblige(st, 'granted_is_min_or_max', Val.r(g) == z3.If(
            Val.is_real(self.req.e), z3.If(Val.r(self.req.e) < mx, Val.r(self.req.e), mx), mx))
        ex.oblige(st, 'period_restarts_now', field(st, self.o, '_started') == Val.real(st.ghost['mono']))
        for fld in ('notify_errors', '_is_closed', 'unsubscribed_at', '_max_subscription_duration'):
            ex.oblige(st, f'frame.{fld}', field(st, self.o, fld) == field(st0, self.o, fld))


@register
class RemainingSeconds(FnCheck):
    id = 'C08.remaining_seconds'
    prop = 'C08'
    target = f'{SB}:SubscriptionBase.remaining_seconds'
    doc = 'remaining_seconds = max(granted - elapsed, 0) up to the 2-digit rounding (|error| <= 0.005), never negative'
    trusted = ('round(x, 2): |round(x,2) - x| <= 0.005 and multiple of 0.01',)

    def setup(self, b):
        self.o, self.f = mk_subscription(b)
        return self.o, [], {}

    def callees(self, ex):
        return {'time.monotonic': monotonic_clock()}

    def post(self, ex, st0, st, outcome, b):
        if outcome[0] == 'exc':
            ex.oblige(st, 'never_raises', z3.BoolVal(False))
            return
        r = as_real(ex, st, outcome[1])
        spec = remaining_spec(self.f, st.ghost['mono'])
        ex.oblige(st, 'non_negative', r >= 0)
        ex.oblige(st, 'within_rounding_of_spec', z3.And(r - spec <= z3.RealVal('5/1000'), spec - r <= z3.RealVal('5/1000')))
        ex.oblige(st, 'zero_after_expiry', z3.Implies(st.ghost['mono'] - self.f['_started'].e >= self.f['_expire_seconds'].e + z3.RealVal('5/1000'), r == 0))


def remaining_summary(f_of):
    """Callee contract of remaining_seconds (C08.remaining_seconds)."""
    def fn(ex, st, args, kwargs):
        r = fresh(RealS, 'remaining')
        st.assume(r >= 0)
        st.ghost['c:remaining'] = st.ghost.get('c:remaining', ()) + (r,)
        return vreal(r)
    return Pure(fn, name='remaining_seconds contract (C08.remaining_seconds)')


@register
class IsValid(FnCheck):
    id = 'C08.is_valid'
    prop = 'C08'
    target = f'{SB}:SubscriptionBase.is_valid'
    inline = (f'{SB}:SubscriptionBase.has_delivery_failure',)
    doc = 'is_valid <=> not closed AND remaining_seconds > 0 AND notify_errors < MAX_NOTIFY_ERRORS'

    def setup(self, b):
        self.o, self.f = mk_subscription(b)
        return self.o, [], {}

    def callees(self, ex):
        return {f'{SB}:SubscriptionBase.remaining_seconds': remaining_summary(self.f)}

    def post(self, ex, st0, st, outcome, b):
        if outcome[0] == 'exc':
            ex.oblige(st, 'never_raises', z3.BoolVal(False))
            return
        rem = st.ghost.get('c:remaining', ())
        max_err = self.max_errors(ex)
        live = z3.And(rem[0] > 0, self.f['notify_errors'].e < max_err) if rem else z3.BoolVal(False)
        ex.oblige(st, 'spec', truthy(outcome[1], st) == z3.And(z3.Not(self.f['_is_closed'].e), live))
        ex.oblige(st, 'closed_is_never_valid', z3.Implies(self.f['_is_closed'].e, z3.Not(truthy(outcome[1], st))))

    @staticmethod
    def max_errors(ex):
        mod, expr = ex.repo.class_attr(SB, 'SubscriptionBase', 'MAX_NOTIFY_ERRORS')
        import ast
        return ast.literal_eval(expr)


@register
class Matches(FnCheck):
    id = 'C08.matches'
    prop = 'C08'
    target = f'{SB}:ActionBasedSubscription.matches'
    doc = ('matches(action) <=> some filter entry ends with the stripped action (with the complete action set of the '
           'library no action is a proper suffix of another: [F] C08.action_suffix_free, so this is membership)')

    def setup(self, b):
        st = b.st
        self.filt = z3.Const('actions_filter', SeqVal)
        lst = b.obj('filter_list')
        st.assume(z3.Select(st.get_arr('C'), lst.e) == b.ex.ctx.builtin_class_ids['list'])
        st.assume(z3.Select(st.get_arr('L'), lst.e) == self.filt)
        j = z3.Int('j!f')
        st.assume(z3.ForAll([j], z3.Implies(z3.And(0 <= j, j < z3.Length(self.filt)), Val.is_str(self.filt[j]))))
        self.o = b.obj('self', cls=(SB, 'ActionBasedSubscription'), actions_filter=lst)
        self.what = b.str('what')
        return self.o, [self.what], {}

    def post(self, ex, st0, st, outcome, b):
        if outcome[0] == 'exc':
            ex.oblige(st, 'never_raises', z3.BoolVal(False))
            return
        strip = models.uf('str_strip', StrS, StrS)
        j = z3.Int('j!m')
        spec = z3.Exists([j], z3.And(0 <= j, j < z3.Length(self.filt),
                                     z3.SuffixOf(strip(self.what.e), Val.s(self.filt[j]))))
        ex.oblige(st, 'spec', truthy(outcome[1], st) == spec)


class _SendReport(FnCheck):
    prop = 'C08'
    opaque_ok = True      # round-trip statistics (max(), deque) are irrelevant here and become opaque values
    inline = ()
    post_callee = '*.post_message_to'

    def setup(self, b):
        st = b.st
        self.o, self.f = mk_subscription(b, cls=self.cls)
        st.ghost['posts'] = z3.IntVal(0)
        self.valid = b.bool('is_valid_now')
        self.notify_path = b.str('notify_to_path')
        self.nurl = b.obj('notify_to_url', path=self.notify_path, netloc=b.str('notify_to_netloc'), scheme=b.str('notify_to_scheme'))
        b.set(self.o, 'notify_to_url', self.nurl)
        b.distinct(self.o, self.nurl)
        return self.o, [b.any('body_node'), b.any('action')], {}

    stable_fields = ('notify_to_url', 'path')

    def callees(self, ex):
        def is_valid(ex_, st, args, kwargs):
            return vbool(self.valid.e)

        def post(ex_, st, args, kwargs):
            st.ghost['posts'] = st.ghost['posts'] + 1
            st.ghost['c:post_path'] = st.box(args[0]) if args else None
            outs = []
            for cls in ('HTTPReturnCodeError', 'ConnectionRefusedError', 'TimeoutError', 'asyncio.TimeoutError', '*'):
                e = st.fork()
                outs.append((e, Raise(ex_.mk_exc(cls, 'post_message_to'))))
            outs.append((st, NONE))
            return outs

        def other(name, raises=('*',)):
            return Pure(lambda e, s, a, k: vany(fresh(Val, name)), name=name, raises=raises)
        return {
            f'{SB}:SubscriptionBase.is_valid': Pure(is_valid, name='is_valid contract (C08.is_valid)'),
            self.post_callee: Pure(post, name='SoapClient.post_message_to (ghost log; may raise)'),
            f'{SB}:SubscriptionBase._get_soap_client': other('_get_soap_client'),
            f'{SB}:SubscriptionBase._mk_notification_message': other('_mk_notification_message'),
            'sdc11073.xml_types.addressing_types:HeaderInformationBlock': other('HeaderInformationBlock', raises=()),
            'sdc11073.observableproperties.valuecollector:SingleValueCollector': other('SingleValueCollector', raises=()),
            '*.result': other('roundtrip_timer.result', raises=('CollectTimeoutError',)),
            '*.append': other('deque.append', raises=()),
        }

    def post(self, ex, st0, st, outcome, b):
        live = z3.And(self.valid.e, Val.is_none(self.f['unsubscribed_at'].e))
        posts = st.ghost['posts']
        errs0 = self.f['notify_errors'].e
        errs1 = Val.i(field(st, self.o, 'notify_errors'))
        if 'c:post_path' in st.ghost:
            # the request line carries the path component of NotifyTo only: scheme and host of the connection are those
            # of the pooled client for that peer (C19), never taken from the address text the subscriber supplied
            ex.oblige(st, 'posted_to_the_path_component_of_notify_to',
                      st.ghost['c:post_path'] == Val.str(self.notify_path.e) if st.ghost['c:post_path'] is not None else z3.BoolVal(False))
        if outcome[0] == 'ret' or 'post_message_to' in outcome[1].origin:
            ex.oblige(st, 'post_iff_live', posts == z3.If(live, 1, 0))
        else:
            ex.oblige(st, 'no_post_when_not_live', z3.Implies(z3.Not(live), posts == 0))
        if outcome[0] == 'ret':
            ex.oblige(st, 'success_resets_errors', z3.Implies(live, z3.And(errs1 == 0, z3.Not(Val.b(field(st, self.o, '_is_connection_error'))))))
            ex.oblige(st, 'not_live_changes_nothing', z3.Implies(z3.Not(live), z3.And(
                errs1 == errs0, field(st, self.o, '_is_closed') == field(st0, self.o, '_is_closed'),
                field(st, self.o, '_expire_seconds') == field(st0, self.o, '_expire_seconds'))))
        else:
            delivery = any(k in outcome[1].origin for k in ('post_message_to', '_get_soap_client'))
            if delivery:
                ex.oblige(st, 'failure_counts_one_error', errs1 == errs0 + 1, info={'exc': repr(outcome[1])})
            else:
                # building the message failed before any delivery attempt: nothing sent, nothing counted
                ex.oblige(st, 'construction_failure_changes_nothing', z3.And(errs1 == errs0, posts == 0),
                          info={'exc': repr(outcome[1])})
            ex.oblige(st, 'failure_only_when_live', live)
        ex.oblige(st, 'never_reopens_or_extends', z3.And(
            z3.Implies(self.f['_is_closed'].e, Val.b(field(st, self.o, '_is_closed'))),
            field(st, self.o, '_expire_seconds') == field(st0, self.o, '_expire_seconds'),
            field(st, self.o, 'unsubscribed_at') == field(st0, self.o, 'unsubscribed_at')))


@register
class SendReportSync(_SendReport):
    id = 'C08.send_report_sync'
    cls = (SM, 'BicepsSubscription')
    target = f'{SM}:BicepsSubscription.send_notification_report'
    replay_fn = 'C08:send_report_sync'

    def concretize(self, vc, model):
        return {}
    doc = ('synchronous send: exactly one POST iff the subscription is valid (accepted, not expired, not ended, below the '
           'failure limit) and not unsubscribed; otherwise nothing is sent and nothing changes; a failed POST adds one '
           'delivery error and is re-raised; success clears the error count')


@register
class SendReportAsync(_SendReport):
    id = 'C08.send_report_async'
    cls = (SA, 'BicepsSubscriptionAsync')
    target = f'{SA}:BicepsSubscriptionAsync.async_send_notification_report'
    post_callee = '*.async_post_message_to'
    doc = 'asynchronous send: same obligations as C08.send_report_sync'


@register
class SendEndMessage(FnCheck):
    id = 'C08.send_end_message'
    prop = 'C08'
    opaque_ok = True
    target = f'{SB}:SubscriptionBase.send_notification_end_message'
    optional_fields = ('end_to_address', '_end_to_url', 'end_to_ref_params')
    doc = ('SubscriptionEnd: exactly one POST iff the subscription is valid, addressed to EndTo when the subscriber '
           'gave one, otherwise to NotifyTo (header address and connection target alike); nothing escapes; a delivered '
           'end message closes the subscription')

    def setup(self, b):
        st = b.st
        self.valid = b.bool('is_valid_now')
        self.end_addr = b.any('end_to_address', maybe_none=True)
        st.assume(z3.Or(Val.is_none(self.end_addr.e), Val.is_str(self.end_addr.e)))
        self.notify_addr = b.str('notify_to_address')
        self.end_url_set = b.bool('end_url_set')
        self.end_url = b.obj('end_url', cls='ParseResult', netloc=b.str('end_netloc'), path=b.str('end_path'))
        self.notify_url = b.obj('notify_url', cls='ParseResult', netloc=b.str('notify_netloc'), path=b.str('notify_path'))
        base = b.obj('base_url0', scheme=b.str('scheme'), netloc=b.str('netloc'), path=b.str('path'))
        urls = b.obj('base_urls')
        st.assume(z3.Select(st.get_arr('C'), urls.e) == b.ex.ctx.builtin_class_ids['list'])
        st.assume(z3.Select(st.get_arr('L'), urls.e) == z3.Unit(Val.ref(base.e)))
        # class invariant (constructor): _end_to_url is set iff an EndTo address was given
        st.assume(self.end_url_set.e == z3.And(Val.is_str(self.end_addr.e)))
        self.o = b.obj('self', cls=(SB, 'SubscriptionBase'), end_to_address=self.end_addr,
                       notify_to_address=self.notify_addr, notify_to_url=self.notify_url, base_urls=urls,
                       _end_to_url=vany(z3.If(self.end_url_set.e, Val.ref(self.end_url.e), Val.none), maybe_none=True),
                       _is_closed=b.bool('closed0'), notify_errors=b.int('errs0'))
        b.distinct(self.o, self.end_url, self.notify_url, base, urls)
        st.ghost['posts'] = z3.IntVal(0)
        return self.o, [], {}

    def callees(self, ex):
        def is_valid(ex_, st, args, kwargs):
            return vbool(self.valid.e)

        def hib(ex_, st, args, kwargs):
            st.ghost['c:addr_to'] = st.box(kwargs['addr_to'])
            return st.alloc('HeaderInformationBlock')

        def get_client(ex_, st, args, kwargs):
            a = list(args) + list(kwargs.values())
            st.ghost['c:netloc'] = st.box(a[0]) if a else Val.none    # no argument = connection of NotifyTo
            return st.alloc('SoapClient')

        def post(ex_, st, args, kwargs):
            st.ghost['posts'] = st.ghost['posts'] + 1
            st.ghost['c:path'] = st.box(args[0])
            return [(st.fork(), Raise(ex_.mk_exc('*', 'post_message_to'))), (st, NONE)]
        other = lambda n: Pure(lambda e, s, a, k: s.alloc(n), name=n)   # noqa: E731
        return {f'{SB}:SubscriptionBase.is_valid': Pure(is_valid, name='is_valid (C08.is_valid)'),
                'sdc11073.xml_types.addressing_types:HeaderInformationBlock': Pure(hib, name='HeaderInformationBlock(addr_to=...)'),
                f'{SB}:SubscriptionBase._get_soap_client': Pure(get_client, name='_get_soap_client(netloc)'),
                '*._get_soap_client': Pure(get_client, name='_get_soap_client(netloc)'),
                '*.post_message_to': Pure(post, name='post_message_to (ghost log, may raise)'),
                '*.async_post_message_to': Pure(post, name='async_post_message_to (ghost log, may raise)'),
                'sdc11073.xml_types.eventing_types:SubscriptionEnd': other('SubscriptionEnd'),
                '*.add_reason': Pure(lambda e, s, a, k: NONE, name='add_reason'),
                '*.mk_soap_message': other('message')}

    def post(self, ex, st0, st, outcome, b):
        if outcome[0] == 'exc':
            ex.oblige(st, 'never_raises', z3.BoolVal(False), info={'exc': repr(outcome[1])})
            return
        posts = st.ghost['posts']
        ex.oblige(st, 'exactly_one_post_iff_valid', posts == z3.If(self.valid.e, 1, 0))
        if 'c:addr_to' in st.ghost:
            has_end = z3.And(Val.is_str(self.end_addr.e), z3.Length(Val.s(self.end_addr.e)) > 0)
            ex.oblige(st, 'addressed_to_endto_else_notifyto',
                      st.ghost['c:addr_to'] == z3.If(has_end, self.end_addr.e, Val.str(self.notify_addr.e)))
        if 'c:netloc' in st.ghost and 'c:path' in st.ghost:
            tgt = z3.If(self.end_url_set.e, self.end_url.e, self.notify_url.e)
            ex.oblige(st, 'connection_target_matches', z3.And(
                st.ghost['c:netloc'] == z3.Select(st0.get_arr('f:netloc'), tgt),
                st.ghost['c:path'] == z3.Select(st0.get_arr('f:path'), tgt)))
        ex.oblige(st, 'not_valid_changes_nothing', z3.Implies(z3.Not(self.valid.e), z3.And(
            field(st, self.o, '_is_closed') == field(st0, self.o, '_is_closed'),
            field(st, self.o, 'notify_errors') == field(st0, self.o, 'notify_errors'))))


@register
class SendEndMessageAsync(SendEndMessage):
    id = 'C08.send_end_message_async'
    cls_async = True
    target = f'{SA}:BicepsSubscriptionAsync.async_send_notification_end_message'
    doc = 'asynchronous SubscriptionEnd: same obligations as C08.send_end_message (EndTo address AND EndTo connection)'


class _UnknownSubscription(FnCheck):
    """Requests naming a subscription the provider does not know: fault, nothing changes."""
    prop = 'C08'
    opaque_ok = True

    def setup(self, b):
        st = b.st
        self.o = b.obj('self', cls=(SB, 'SubscriptionsManagerBase'))
        self.known = b.bool('subscription_known')
        self.sub, self.sf = mk_subscription(b, name='sub')
        st.ghost['c:heap0'] = True
        return self.o, [b.obj('request_data')], {}

    def callees(self, ex):
        def lookup(ex_, st, args, kwargs):
            return vany(z3.If(self.known.e, Val.ref(self.sub.e), Val.none), maybe_none=True)

        def reply(ex_, st, args, kwargs):
            payload = args[1]
            st.ghost['c:reply_payload'] = payload.cls if payload.kind == 'ref' else payload.kind
            return st.alloc('CreatedMessage')
        alloc = lambda n: Pure(lambda e, s, a, k: s.alloc(n), name=n)   # noqa: E731
        return {f'{SB}:SubscriptionsManagerBase._get_subscription_for_request': Pure(lookup, name='_get_subscription_for_request (C08.lookup)'),
                '*.mk_reply_soap_message': Pure(reply, name='mk_reply_soap_message (ghost: payload kind)'),
                'sdc11073.pysoap.soapenvelope:Fault': alloc('Fault'),
                '*.set_sub_code': Pure(lambda e, s, a, k: NONE), '*.add_reason_text': Pure(lambda e, s, a, k: NONE),
                '*.tag': Pure(lambda e, s, a, k: vany(fresh(Val, 'tag'))),
                'sdc11073.xml_types.eventing_types:UnsubscribeResponse': alloc('UnsubscribeResponse'),
                'sdc11073.xml_types.eventing_types:GetStatusResponse': alloc('GetStatusResponse'),
                'sdc11073.xml_types.eventing_types:RenewResponse': alloc('RenewResponse'),
                '*.from_node': Pure(lambda e, s, a, k: s.alloc('Renew'), name='Renew.from_node'),
                f'{SB}:SubscriptionBase.remaining_seconds': Pure(lambda e, s, a, k: vreal(fresh(RealS, 'rem'))),
                f'{SB}:SubscriptionBase.renew': Pure(self._renew, name='renew (C08.renew)'),
                '*.renew': Pure(self._renew, name='renew (C08.renew)'),
                'time.time': Pure(lambda e, s, a, k: vreal(fresh(RealS, 'now')))}

    def _renew(self, ex_, st, args, kwargs):
        st.ghost['c:renewed'] = True
        st.write_field(self.sub, '_started', vreal(fresh(RealS, 'started')))
        st.write_field(self.sub, '_expire_seconds', vreal(fresh(RealS, 'granted')))
        return NONE

    def post(self, ex, st0, st, outcome, b):
        if outcome[0] == 'exc':
            ex.oblige(st, 'never_raises', z3.BoolVal(False), info={'exc': repr(outcome[1])})
            return
        payload = st.ghost.get('c:reply_payload')
        ex.oblige(st, 'unknown_id_answered_with_fault', z3.Implies(z3.Not(self.known.e), z3.BoolVal(payload == 'Fault')))
        ex.oblige(st, 'known_id_not_a_fault', z3.Implies(self.known.e, z3.BoolVal(payload != 'Fault' and payload is not None)))
        # frame: an unknown identifier changes no subscription state at all
        for fld in ('_started', '_expire_seconds', 'unsubscribed_at', '_is_closed', 'notify_errors'):
            x = z3.Int('x!frame')
            ex.oblige(st, f'unknown_id_changes_nothing.{fld}', z3.Implies(z3.Not(self.known.e), z3.ForAll(
                [x], z3.Select(st.get_arr('f:' + fld), x) == z3.Select(st0.get_arr('f:' + fld), x))))


@register
class UnsubscribeUnknown(_UnknownSubscription):
    id = 'C08.on_unsubscribe'
    target = f'{SB}:SubscriptionsManagerBase.on_unsubscribe_request'
    doc = 'Unsubscribe: unknown identifier => fault and no state change; known => marked unsubscribed, nothing else'

    def post(self, ex, st0, st, outcome, b):
        super().post(ex, st0, st, outcome, b)
        if outcome[0] == 'ret':
            ex.oblige(st, 'known_id_marked_unsubscribed', z3.Implies(self.known.e, z3.Not(Val.is_none(field(st, self.sub, 'unsubscribed_at')))))
            ex.oblige(st, 'validity_not_extended', field(st, self.sub, '_expire_seconds') == field(st0, self.sub, '_expire_seconds'))


@register
class GetStatusUnknown(_UnknownSubscription):
    id = 'C08.on_get_status'
    target = f'{SB}:SubscriptionsManagerBase.on_get_status_request'
    doc = 'GetStatus: unknown identifier => fault; no state change in either case'

    def hooks(self, ex):
        class H:
            tracked_names = ('Expires', 'remaining_seconds')

            @staticmethod
            def on_attr_write(ex_, st, o, attr, val, node):
                if attr == 'Expires':
                    st.ghost['c:response_expires'] = st.box(val)
                return None

            @staticmethod
            def on_attr_read(ex_, st, o, attr, node):
                if attr == 'remaining_seconds':
                    r = fresh(RealS, 'rem')
                    st.ghost['c:remaining'] = r
                    st.ghost['c:remaining_of'] = st.box(o)
                    return [(st, vreal(r))]
                return None
        return H()

    def post(self, ex, st0, st, outcome, b):
        super().post(ex, st0, st, outcome, b)
        if outcome[0] == 'ret':
            for fld in ('_started', '_expire_seconds', 'unsubscribed_at', '_is_closed'):
                ex.oblige(st, f'read_only.{fld}', field(st, self.sub, fld) == field(st0, self.sub, fld))
            if 'c:response_expires' in st.ghost:
                ex.oblige(st, 'status_reports_the_remaining_time_of_that_subscription', z3.And(
                    st.ghost['c:response_expires'] == Val.real(st.ghost['c:remaining']),
                    st.ghost['c:remaining_of'] == Val.ref(self.sub.e)) if 'c:remaining' in st.ghost else z3.BoolVal(False))
            else:
                ex.oblige(st, 'status_reports_the_remaining_time_of_that_subscription', z3.Not(self.known.e))


@register
class RenewUnknown(_UnknownSubscription):
    id = 'C08.on_renew'
    target = f'{SB}:SubscriptionsManagerBase.on_renew_request'
    doc = 'Renew: unknown identifier => fault and no state change; known => renew() is applied before the remaining time is reported'

    def callees(self, ex):
        out = super().callees(ex)

        def remaining(ex_, st, args, kwargs):
            r = fresh(RealS, 'rem')
            st.ghost['c:remaining'] = (r, bool(st.ghost.get('c:renewed')))
            return vreal(r)

        def from_node(ex_, st, args, kwargs):
            req = st.alloc('Renew')
            self.req_expires = fresh(Val, 'requested_expires')
            st.write_field(req, 'Expires', vany(self.req_expires, maybe_none=True))
            return req

        def renew(ex_, st, args, kwargs):
            st.ghost['c:renew_arg'] = st.box(args[0]) if args else None
            return self._renew(ex_, st, args, kwargs)
        out[f'{SB}:SubscriptionBase.remaining_seconds'] = Pure(remaining, name='remaining_seconds (C08.remaining_seconds)')
        out['*.from_node'] = Pure(from_node, name='Renew.from_node (C05)')
        out[f'{SB}:SubscriptionBase.renew'] = Pure(renew, name='renew (C08.renew)')
        out['*.renew'] = Pure(renew, name='renew (C08.renew)')
        return out

    def hooks(self, ex):
        base = super().hooks(ex) if hasattr(super(), 'hooks') else None

        class H:
            tracked_names = ('Expires', 'remaining_seconds')

            @staticmethod
            def on_attr_write(ex_, st, o, attr, val, node):
                if attr == 'Expires':
                    st.ghost['c:response_expires'] = st.box(val)
                return None

            @staticmethod
            def on_attr_read(ex_, st, o, attr, node):
                if attr == 'remaining_seconds':
                    r = fresh(RealS, 'rem')
                    st.ghost['c:remaining'] = (r, bool(st.ghost.get('c:renewed')))
                    return [(st, vreal(r))]
                return None
        return H()

    def post(self, ex, st0, st, outcome, b):
        super().post(ex, st0, st, outcome, b)
        if outcome[0] == 'ret':
            ex.oblige(st, 'renew_applied_iff_known', z3.BoolVal(bool(st.ghost.get('c:renewed'))) == self.known.e)
            rem = st.ghost.get('c:remaining')
            if st.ghost.get('c:renewed'):
                ex.oblige(st, 'renewed_with_the_requested_duration', st.ghost.get('c:renew_arg') == self.req_expires
                          if st.ghost.get('c:renew_arg') is not None else z3.BoolVal(False))
                ex.oblige(st, 'remaining_time_is_read_after_the_renewal', z3.BoolVal(rem is not None and rem[1]))
                ex.oblige(st, 'response_reports_the_remaining_time_of_the_renewed_subscription',
                          st.ghost['c:response_expires'] == Val.real(rem[0]) if rem is not None and 'c:response_expires' in st.ghost else z3.BoolVal(False))


@register
class SendNotificationReportWrapper(FnCheck):
    id = 'C08.delivery_failure_handling'
    prop = 'C08'
    opaque_ok = True
    target = f'{SB}:SubscriptionsManagerBase._send_notification_report'
    doc = ('_send_notification_report: connection-class failures of one subscriber (refused, HTTP error status, not '
           'connected, timeout) are swallowed so the other subscribers are still served; an invalid document and any '
           'unexpected error are re-raised; the subscription method is called exactly once')

    SWALLOWED = ('ConnectionRefusedError', 'HTTPReturnCodeError', 'http.client.NotConnected', 'TimeoutError')
    RERAISED = ('etree.DocumentInvalid', 'ValueError', 'KeyError')

    def setup(self, b):
        self.o = b.obj('self', cls=(SB, 'SubscriptionsManagerBase'))
        b.st.ghost['calls'] = z3.IntVal(0)
        return self.o, [b.obj('subscription'), b.any('body_node'), b.any('action')], {}

    def callees(self, ex):
        def send(ex_, st, args, kwargs):
            st.ghost['calls'] = st.ghost['calls'] + 1
            outs = [(st.fork(), Raise(ex_.mk_exc(c, 'send_notification_report'))) for c in self.SWALLOWED + self.RERAISED]
            outs.append((st, NONE))
            return outs
        return {'*.send_notification_report': Pure(send, name='subscription.send_notification_report (C08.send_report_sync)'),
                '*.tostring': Pure(lambda e, s, a, k: vany(fresh(Val, 's')))}

    def post(self, ex, st0, st, outcome, b):
        ex.oblige(st, 'called_exactly_once', st.ghost['calls'] == 1)
        if outcome[0] == 'exc':
            ex.oblige(st, 'only_non_connection_errors_propagate', z3.BoolVal(outcome[1].cls in self.RERAISED),
                      info={'exc': repr(outcome[1])})

    def finish(self, ex, st0, outcomes, b):
        escaped = {oc[1].cls for _, oc in outcomes if oc[0] == 'exc'}
        for c in self.RERAISED:
            ex.oblige(st0, f'reraised.{c.split(".")[-1]}', z3.BoolVal(c in escaped))


@register
class SendToSubscribers(FnCheck):
    id = 'C08.send_to_subscribers'
    prop = 'C08'
    opaque_ok = True
    target = f'{SB}:SubscriptionsManagerBase.send_to_subscribers'
    doc = ('send_to_subscribers(payload, action, versions): _send_notification_report is invoked exactly once, in list '
           'order, for every subscription returned by _get_subscriptions_for_action(action), with that action')

    def setup(self, b):
        st = b.st
        self.o = b.obj('self', cls=(SB, 'SubscriptionsManagerBase'))
        self.subs = z3.Const('subscribers', SeqVal)
        self.action = b.any('action')
        st.ghost['n_sent'] = z3.IntVal(0)
        st.ghost['sent_to'] = z3.Const('sent_to0', z3.ArraySort(IntS, Val))
        st.ghost['sent_action'] = z3.Const('sent_act0', z3.ArraySort(IntS, Val))
        return self.o, [b.obj('payload'), self.action, b.any('mdib_version_group')], {}

    def callees(self, ex):
        def subs(ex_, st, args, kwargs):
            st.ghost['c:asked_action'] = st.box(args[0])
            r = st.alloc('list')
            st.set_list_seq(r, self.subs)
            return r

        def send(ex_, st, args, kwargs):
            n = st.ghost['n_sent']
            st.ghost['sent_to'] = z3.Store(st.ghost['sent_to'], n, st.box(args[0]))
            st.ghost['sent_action'] = z3.Store(st.ghost['sent_action'], n, st.box(args[2]))
            st.ghost['n_sent'] = n + 1
            return [(st.fork(), Raise(ex_.mk_exc('etree.DocumentInvalid', '_send_notification_report'))), (st, NONE)]
        return {f'{SB}:SubscriptionsManagerBase._get_subscriptions_for_action': Pure(subs, name='_get_subscriptions_for_action (C08.subscriptions_for_action)'),
                f'{SB}:SubscriptionsManagerBase._send_notification_report': Pure(send, name='_send_notification_report (C08.delivery_failure_handling)'),
                '*.as_etree_node': Pure(lambda e, s, a, k: s.alloc('Element'), name='as_etree_node', raises=('*',))}

    def loops(self, ex):
        def inv(ex_, st, env):
            k = env['_k']
            j = z3.Int('j!s')
            return z3.And(st.ghost['n_sent'] == k, z3.ForAll([j], z3.Implies(z3.And(0 <= j, j < k), z3.And(
                st.ghost['sent_to'][j] == self.subs[j], st.ghost['sent_action'][j] == self.action.e))))
        return {0: LoopSpec(inv=inv, havoc_heap=[])}

    def post(self, ex, st0, st, outcome, b):
        if 'c:asked_action' in st.ghost:
            ex.oblige(st, 'filter_uses_report_action', st.ghost['c:asked_action'] == self.action.e)
        if outcome[0] == 'ret':
            j = z3.Int('j!p')
            ex.oblige(st, 'every_matching_subscriber_once_in_order', z3.And(
                st.ghost['n_sent'] == z3.Length(self.subs),
                z3.ForAll([j], z3.Implies(z3.And(0 <= j, j < z3.Length(self.subs)), z3.And(
                    st.ghost['sent_to'][j] == self.subs[j], st.ghost['sent_action'][j] == self.action.e)))))


MATCHES = z3.Function('matches', Val, Val, BoolS)
VALID = z3.Function('is_valid', IntS, BoolS)


@register
class SubscriptionsForAction(FnCheck):
    id = 'C08.subscriptions_for_action'
    prop = 'C08'
    target = f'{SB}:SubscriptionsManagerBase._get_subscriptions_for_action'
    container_hints = {'self._subscriptions.objects': 'set'}
    doc = ('_get_subscriptions_for_action(action) = exactly the stored subscriptions whose filter matches the action, '
           'read under the table lock')

    def setup(self, b):
        st = b.st
        self.objs = b.obj('objects')
        st.assume(z3.Select(st.get_arr('C'), self.objs.e) == b.ex.ctx.builtin_class_ids['set'])
        st.assume(z3.Select(st.get_arr('SN'), self.objs.e) >= 0)
        xm = z3.Const('x!member', Val)
        st.assume(z3.ForAll([xm], z3.Implies(z3.Select(z3.Select(st.get_arr('S'), self.objs.e), xm), Val.is_ref(xm))))
        table = b.obj('table', objects=self.objs, lock=b.obj('lock'))
        self.o = b.obj('self', cls=(SB, 'SubscriptionsManagerBase'), _subscriptions=table)
        self.action = b.any('action')
        return self.o, [self.action], {}

    def callees(self, ex):
        return {'*.matches': Pure(self._matches, name='subscription.matches (C08.matches)')}

    def _matches(self, ex_, st, args, kwargs):
        recv = ex_._last_recv if hasattr(ex_, '_last_recv') else None
        return vbool(MATCHES(st.ghost['c:recv'], st.box(args[0])))

    def hooks(self, ex):
        chk = self

        class H:
            tracked_names = ('matches',)

            @staticmethod
            def on_call(ex_, st, fv, keys, args, kwargs, node):
                if fv.t == 'method' and fv.name == 'matches':
                    return [(st, vbool(MATCHES(st.box(fv.recv), st.box(args[0]))))]
                return None

            @staticmethod
            def on_with_enter(ex_, st, key, cm, node):
                st.ghost['held'] = st.ghost.get('held', 0) + 1
                return None

            @staticmethod
            def on_with_exit(ex_, st, key, cm, node, sig):
                st.ghost['held'] = st.ghost.get('held', 0) - 1
                return None

            @staticmethod
            def on_attr_read(ex_, st, o, attr, node):
                if attr == 'objects':
                    ex_.oblige(st, 'table_read_under_lock', z3.BoolVal(st.ghost.get('held', 0) > 0))
                return None
        return H

    def post(self, ex, st0, st, outcome, b):
        if outcome[0] == 'exc':
            ex.oblige(st, 'never_raises', z3.BoolVal(False), info={'exc': repr(outcome[1])})
            return
        r = ex.concrete_kind(st, outcome[1], ('ref',))
        seq = st.list_seq(r)
        members = z3.Select(st0.get_arr('S'), self.objs.e)
        x = z3.Const('x!sub', Val)
        j = z3.Int('j!sub')
        in_result = z3.Exists([j], z3.And(0 <= j, j < z3.Length(seq), seq[j] == x))
        ex.oblige(st, 'every_result_is_a_matching_subscription', z3.ForAll([j], z3.Implies(
            z3.And(0 <= j, j < z3.Length(seq)), z3.And(z3.Select(members, seq[j]), MATCHES(seq[j], self.action.e)))))
        ex.oblige(st, 'every_matching_subscription_is_in_result',
                  z3.ForAll([x], z3.Implies(z3.And(z3.Select(members, x), MATCHES(x, self.action.e)), in_result)))


class _TableBase(FnCheck):
    prop = 'C08'
    container_hints = {'self._subscriptions.objects': 'set'}

    def mk_manager(self, b):
        st = b.st
        self.objs = b.obj('objects')
        st.assume(z3.Select(st.get_arr('C'), self.objs.e) == b.ex.ctx.builtin_class_ids['set'])
        st.assume(z3.Select(st.get_arr('SN'), self.objs.e) >= 0)
        xm = z3.Const('x!member', Val)
        self.members = z3.Select(st.get_arr('S'), self.objs.e)
        st.assume(z3.ForAll([xm], z3.Implies(z3.Select(self.members, xm), z3.And(
            Val.is_ref(xm), Val.oid(xm) > 0, Val.oid(xm) < 10 ** 9,
            z3.Or(Val.is_none(z3.Select(st.get_arr('f:unsubscribed_at'), Val.oid(xm))),
                  Val.is_real(z3.Select(st.get_arr('f:unsubscribed_at'), Val.oid(xm))))))))
        self.table = b.obj('table', objects=self.objs, lock=b.obj('lock'))
        self.o = b.obj('self', cls=(SB, 'SubscriptionsManagerBase'), _subscriptions=self.table)
        self.set_id = b.ex.ctx.builtin_class_ids['set']
        return self.o

    def members_of(self, st):
        return z3.Select(st.get_arr('S'), self.objs.e)

    def type_inv(self, st):
        """Type invariant of the manager / table (holds in every state another thread or iteration can leave)."""
        xm = z3.Const('x!member', Val)
        un = lambda v: z3.Select(st.get_arr('f:unsubscribed_at'), Val.oid(v))   # noqa: E731
        return z3.And(
            z3.Select(st.get_arr('f:_subscriptions'), self.o.e) == Val.ref(self.table.e),
            z3.Select(st.get_arr('f:objects'), self.table.e) == Val.ref(self.objs.e),
            z3.Select(st.get_arr('C'), self.objs.e) == self.set_id, z3.Select(st.get_arr('SN'), self.objs.e) >= 0,
            z3.ForAll([xm], z3.Implies(z3.Select(self.members_of(st), xm), z3.And(
                Val.is_ref(xm), Val.oid(xm) > 0, Val.oid(xm) < 10 ** 9, z3.Or(Val.is_none(un(xm)), Val.is_real(un(xm)))))))


def lambda_method_name(fv):
    """Name of the method a `lambda x: x.method()` calls (read from the real source)."""
    import ast as _ast
    lam = fv.py.node if fv.kind == 'func' and fv.py.t == 'lambda' else None
    if lam is None or not isinstance(lam.body, _ast.Call) or not isinstance(lam.body.func, _ast.Attribute):
        return None
    if not (isinstance(lam.body.func.value, _ast.Name) and lam.body.func.value.id == lam.args.args[0].arg):
        return None
    return lam.body.func.attr


@register
class EndAllSubscriptions(_TableBase):
    id = 'C08.end_all_subscriptions'
    target = f'{SB}:SubscriptionsManagerBase._end_all_subscriptions'
    doc = ('provider stop: with end messages enabled, send_notification_end_message is applied exactly to the stored '
           'subscriptions that were not unsubscribed (each once: apply_map), then every stored subscription is closed '
           'and the table cleared; with end messages switched off no end message is sent')
    trusted = ('apply_map(f, xs) calls f exactly once per element of xs, in order (list(map(f, xs)))',)

    def setup(self, b):
        o = self.mk_manager(b)
        self.flag = b.bool('send_subscription_end')
        b.st.ghost['applied'] = ()
        return o, [self.flag], {}

    def callees(self, ex):
        def apply_map(ex_, st, args, kwargs):
            name = lambda_method_name(args[0])
            coll = args[1]
            st.ghost['applied'] = st.ghost['applied'] + ((name, coll),)
            return st.alloc('list')

        def clear(ex_, st, args, kwargs):
            st.ghost['applied'] = st.ghost['applied'] + (('<clear>', None),)
            return NONE
        return {'sdc11073.etc:apply_map': Pure(apply_map, name='apply_map (ghost: method name + collection)', trusted=True),
                'self._subscriptions.clear': Pure(clear, name='MultiKeyLookup.clear (C11)')}

    def post(self, ex, st0, st, outcome, b):
        if outcome[0] == 'exc':
            ex.oblige(st, 'never_raises', z3.BoolVal(False), info={'exc': repr(outcome[1])})
            return
        applied = st.ghost['applied']
        names = [n for n, _ in applied]
        sends = [c for n, c in applied if n == 'send_notification_end_message']
        ex.oblige(st, 'no_end_message_when_switched_off', z3.Implies(z3.Not(self.flag.e), z3.BoolVal(not sends)))
        ex.oblige(st, 'end_messages_sent_when_enabled', z3.Implies(self.flag.e, z3.BoolVal(len(sends) == 1)))
        ex.oblige(st, 'closed_then_cleared', z3.BoolVal(
            names[-2:] == ['close_by_subscription_manager', '<clear>'] and names.count('<clear>') == 1
            and names.count('close_by_subscription_manager') == 1))
        closes = [c for n, c in applied if n == 'close_by_subscription_manager']
        if closes:
            ex.oblige(st, 'every_stored_subscription_closed', st.box(closes[0]) == Val.ref(self.objs.e))
        if sends:
            lst = ex.concrete_kind(st, sends[0], ('ref',))
            seq = st.list_seq(lst)
            x = z3.Const('x!end', Val)
            j = z3.Int('j!end')
            unsub = lambda v: z3.Select(st0.get_arr('f:unsubscribed_at'), Val.oid(v))   # noqa: E731
            ex.oblige(st, 'end_message_only_to_not_unsubscribed_members', z3.ForAll([j], z3.Implies(
                z3.And(0 <= j, j < z3.Length(seq)), z3.And(z3.Select(self.members, seq[j]), Val.is_none(unsub(seq[j]))))))
            ex.oblige(st, 'end_message_to_every_not_unsubscribed_member', z3.ForAll([x], z3.Implies(
                z3.And(z3.Select(self.members, x), Val.is_none(unsub(x))),
                z3.Exists([j], z3.And(0 <= j, j < z3.Length(seq), seq[j] == x)))))


@register
class Housekeeping(_TableBase):
    id = 'C08.housekeeping'
    target = f'{SB}:SubscriptionsManagerBase._do_housekeeping'
    opaque_ok = True
    doc = ('housekeeping (arbitrary iteration): only subscriptions that are no longer valid, or were unsubscribed more '
           'than one second ago, are closed / removed; a live subscription is never removed')

    def setup(self, b):
        o = self.mk_manager(b)
        return o, [], {}

    def callees(self, ex):
        def is_valid_prop(ex_, st, args, kwargs):
            return vbool(fresh(BoolS, 'v'))

        def now(ex_, st, args, kwargs):
            t = fresh(RealS, 'now')
            st.ghost['c:now'] = st.ghost.get('c:now', ()) + (t,)
            return vreal(t)

        def check_obsolete(ex_, st, what, x):
            nows = st.ghost.get('c:now', ())
            if not nows:
                ex_.oblige(st, f'{what}_only_obsolete', z3.BoolVal(False))
                return
            t = nows[-1]
            un = z3.Select(st.get_arr('f:unsubscribed_at'), Val.oid(x))
            ok = z3.Or(z3.Not(VALID(Val.oid(x))), z3.And(Val.is_real(un), t > Val.r(un) + 1))
            ex_.oblige(st, f'{what}_only_obsolete', z3.And(z3.Select(self.members_of(st), x), ok))

        def remove(ex_, st, args, kwargs):
            check_obsolete(ex_, st, 'removed', st.box(args[0]))
            return NONE
        return {'time.time': Pure(now, name='time.time()'), 'time.sleep': Pure(lambda e, s, a, k: NONE),
                'self._subscriptions.remove_object': Pure(remove, name='MultiKeyLookup.remove_object (C11)')}

    def hooks(self, ex):
        chk = self

        class H:
            tracked_names = ('is_valid', 'close_by_subscription_manager', 'is_closed', 'remove_object')

            @staticmethod
            def on_attr_read(ex_, st, o, attr, node):
                if attr == 'is_valid':
                    return [(st, vbool(VALID(o.e)))]
                return None

            @staticmethod
            def on_call(ex_, st, fv, keys, args, kwargs, node):
                if fv.t == 'method' and fv.name == 'is_closed':
                    return [(st, vbool(fresh(BoolS, 'closed')))]
                if fv.t == 'method' and fv.name == 'close_by_subscription_manager':
                    nows = st.ghost.get('c:now', ())
                    x = st.box(fv.recv)
                    un = z3.Select(st.get_arr('f:unsubscribed_at'), Val.oid(x))
                    ok = z3.Or(z3.Not(VALID(Val.oid(x))), z3.And(Val.is_real(un), nows[-1] > Val.r(un) + 1)) if nows else z3.BoolVal(False)
                    ex_.oblige(st, 'closed_only_obsolete', z3.And(z3.Select(chk.members_of(st), x), ok))
                    return [(st, NONE)]
                return None
        return H

    def loops(self, ex):
        # loop 0 (while running): everything may have changed between iterations except the type invariant
        return {0: LoopSpec(inv=lambda ex_, st, env: self.type_inv(st)), 1: LoopSpec(inv=None, havoc_heap=[])}

    def post(self, ex, st0, st, outcome, b):
        if outcome[0] == 'exc':
            ex.oblige(st, 'never_raises', z3.BoolVal(False), info={'exc': repr(outcome[1])})


@register
class LookupForRequest(FnCheck):
    id = 'C08.lookup_for_request'
    prop = 'C08'
    opaque_ok = True
    target = f'{SB}:SubscriptionsManagerBase._get_subscription_for_request'
    doc = ('_get_subscription_for_request returns what the unique dispatch_identifier index holds for '
           '_mk_dispatch_identifier(reference parameters of the request, unconsumed path) - None when there is no such '
           'subscription (get_one(..., allow_none=True)), looked up under the table lock')

    def setup(self, b):
        self.o = b.obj('self', cls=(SB, 'SubscriptionsManagerBase'))
        self.result = b.any('index_result', maybe_none=True)
        return self.o, [b.obj('request_data')], {}

    def callees(self, ex):
        def mk_id(ex_, st, args, kwargs):
            st.ghost['c:id_args'] = (st.box(args[0]), st.box(args[1]))
            st.ghost['c:id'] = fresh(Val, 'dispatch_id')
            return vany(st.ghost['c:id'])

        def get_one(ex_, st, args, kwargs):
            an = kwargs.get('allow_none')
            st.ghost['c:get_one'] = (st.box(args[0]), an is not None and z3.is_true(z3.simplify(truthy(an, st))), st.ghost.get('held', 0))
            return self.result
        return {f'{SB}:_mk_dispatch_identifier': Pure(mk_id, name='_mk_dispatch_identifier'),
                '*.get_one': Pure(get_one, name='IndexDefinition.get_one (C11)'),
                '*.join': Pure(lambda e, s, a, k: vany(fresh(Val, 'path')))}

    def hooks(self, ex):
        class H:
            tracked_names = ('get_one',)

            @staticmethod
            def on_with_enter(ex_, st, key, cm, node):
                st.ghost['held'] = st.ghost.get('held', 0) + 1

            @staticmethod
            def on_with_exit(ex_, st, key, cm, node, sig):
                st.ghost['held'] = st.ghost.get('held', 0) - 1
        return H

    def post(self, ex, st0, st, outcome, b):
        if outcome[0] == 'exc':
            ex.oblige(st, 'never_raises', z3.BoolVal(False), info={'exc': repr(outcome[1])})
            return
        g = st.ghost.get('c:get_one')
        ex.oblige(st, 'index_consulted', z3.BoolVal(g is not None))
        if g is not None:
            ex.oblige(st, 'lookup_key_is_dispatch_identifier', g[0] == st.ghost['c:id'])
            ex.oblige(st, 'unknown_identifier_yields_none_not_error', z3.BoolVal(g[1]))
            ex.oblige(st, 'lookup_under_table_lock', z3.BoolVal(g[2] > 0))
            ex.oblige(st, 'returns_index_result', st.box(outcome[1]) == self.result.e)


from contracts.C09 import LockHooks, held   # noqa: E402  (ghost lock depth helpers)


@register
class OnSubscribe(FnCheck):
    id = 'C08.on_subscribe'
    prop = 'C08'
    opaque_ok = True
    tag = 'S'
    target = f'{SB}:SubscriptionsManagerBase.on_subscribe_request'
    doc = ('Subscribe: exactly one new subscription is created from the request, it is stored in the subscription table '
           'under the table lock before the answer is built, and the answer is built for that very subscription '
           '(manager address, reference parameters, remaining time)')

    def setup(self, b):
        self.lock = b.obj('table_lock')
        self.table = b.obj('subscriptions', lock=self.lock)
        self.o = b.obj('self', cls=(SB, 'SubscriptionsManagerBase'), _subscriptions=self.table, base_urls=b.obj('base_urls'))
        self.req = b.obj('request_data')
        b.distinct(self.o, self.table, self.lock, self.req)
        b.st.ghost['log'] = ()
        return self.o, [self.req], {}

    def callees(self, ex):
        def mk(ex_, st, args, kwargs):
            s = st.alloc('Subscription')
            st.ghost['log'] += (('mk', st.box(args[0]), st.box(s), held(st, 'self._subscriptions.lock')),)
            return s

        def add(ex_, st, args, kwargs):
            st.ghost['log'] += (('add', st.ghost.get('c:recv'), st.box(args[0]), held(st, 'self._subscriptions.lock')),)
            return NONE

        def resp(ex_, st, args, kwargs):
            st.ghost['log'] += (('response', st.box(args[0]), st.box(args[1]), 0),)
            return st.alloc('CreatedMessage')
        return {f'{SB}:SubscriptionsManagerBase._mk_subscription_instance': Pure(mk, name='_mk_subscription_instance (new subscription from the request)'),
                '*._mk_subscription_instance': Pure(mk, name='_mk_subscription_instance'),
                '*.add_object': Pure(add, name='table.add_object (C11)'),
                f'{SB}:SubscriptionsManagerBase._mk_subscribe_response_message': Pure(resp, name='_mk_subscribe_response_message (C08.subscribe_response)')}

    def hooks(self, ex):
        class H(LockHooks):
            tracked_names = ()

            def on_call(self, ex_, st, fv, keys, args, kwargs, node):
                if fv.t == 'method':
                    st.ghost['c:recv'] = st.box(fv.recv)
                return None
        return H()

    def post(self, ex, st0, st, outcome, b):
        if outcome[0] == 'exc':
            return
        log = st.ghost['log']
        names = [e[0] for e in log]
        ex.oblige(st, 'one_subscription_created_stored_then_answered', z3.BoolVal(names == ['mk', 'add', 'response']))
        if names == ['mk', 'add', 'response']:
            sub = log[0][2]
            ex.oblige(st, 'created_from_this_request', log[0][1] == Val.ref(self.req.e))
            ex.oblige(st, 'the_new_subscription_is_stored_in_the_table_under_its_lock', z3.And(
                log[1][1] == Val.ref(self.table.e), log[1][2] == sub, z3.BoolVal(log[1][3] > 0)))
            ex.oblige(st, 'answer_built_for_the_new_subscription', z3.And(log[2][1] == Val.ref(self.req.e), log[2][2] == sub))


@register
class SubscribeResponse(FnCheck):
    id = 'C08.subscribe_response'
    prop = 'C08'
    opaque_ok = True
    tag = 'S'
    target = f'{SB}:SubscriptionsManagerBase._mk_subscribe_response_message'
    doc = ('SubscribeResponse: Expires is the remaining time of the new subscription and the reference parameters are '
           'those of that subscription (the identifier the consumer must present in Renew / GetStatus / Unsubscribe)')

    def setup(self, b):
        self.refp = b.any('reference_parameters')
        self.sub = b.obj('subscription', reference_parameters=self.refp, path_suffix=b.any('path_suffix', maybe_none=True))
        self.o = b.obj('self', cls=(SB, 'SubscriptionsManagerBase'))
        self.req = b.obj('request_data')
        b.distinct(self.o, self.sub, self.req)
        return self.o, [self.req, self.sub, b.obj('base_urls')], {}

    optional_fields = ('path_suffix',)
    stable_fields = ('reference_parameters', 'SubscriptionManager', 'path_suffix')

    def callees(self, ex):
        def mk_resp(ex_, st, args, kwargs):
            r = st.alloc('SubscribeResponse')
            st.write_field(r, 'SubscriptionManager', st.alloc('EndpointReference'))
            st.ghost['c:resp'] = r.e
            return r

        def reply(ex_, st, args, kwargs):
            st.ghost['c:reply'] = (st.box(args[0]), st.box(args[1]))
            return st.alloc('CreatedMessage')
        return {'sdc11073.xml_types.eventing_types:SubscribeResponse': Pure(mk_resp, name='SubscribeResponse()'),
                '*.mk_reply_soap_message': Pure(reply, name='mk_reply_soap_message')}

    def hooks(self, ex):
        chk = self

        class H:
            tracked_names = ('remaining_seconds',)

            @staticmethod
            def on_attr_read(ex_, st, o, attr, node):
                if attr == 'remaining_seconds':
                    r = fresh(RealS, 'rem')
                    st.ghost['c:remaining'] = (r, st.box(o))
                    return [(st, vreal(r))]
                return None
        return H()

    def post(self, ex, st0, st, outcome, b):
        if outcome[0] == 'exc' or 'c:resp' not in st.ghost:
            return
        r = st.ghost['c:resp']
        rem = st.ghost.get('c:remaining')
        ex.oblige(st, 'expires_is_the_remaining_time_of_the_new_subscription', z3.And(
            z3.Select(st.get_arr('f:Expires'), r) == Val.real(rem[0]), rem[1] == Val.ref(self.sub.e)) if rem else z3.BoolVal(False))
        mgr = Val.oid(z3.Select(st.get_arr('f:SubscriptionManager'), r))
        ex.oblige(st, 'reference_parameters_identify_the_new_subscription', z3.Select(st.get_arr('f:ReferenceParameters'), mgr) == self.refp.e)
        rep = st.ghost.get('c:reply')
        ex.oblige(st, 'the_response_is_the_reply_to_this_request', z3.And(rep[0] == Val.ref(self.req.e), rep[1] == Val.ref(r)) if rep else z3.BoolVal(False))


# ---------------------------------------------------------------------------------------------------------------
# the pool of notification connections (one soap client per subscriber address, shared by its subscriptions)
SP = 'sdc11073.pysoap.soapclientpool'


class _Pool(FnCheck):
    prop = 'C08'
    container_hints = {'self._soap_clients': 'dict', 'entry.usr_idents': 'list'}

    def mk_pool(self, b):
        st = b.st
        ids = b.ex.ctx.builtin_class_ids
        self.clients = b.obj('_soap_clients')
        st.assume(z3.Select(st.get_arr('C'), self.clients.e) == ids['dict'])
        self.dk0 = z3.Select(st.get_arr('DK'), self.clients.e)
        self.dv0 = z3.Select(st.get_arr('DV'), self.clients.e)
        st.assume(z3.Select(st.get_arr('DN'), self.clients.e) >= 0)
        self.netloc = b.str('netloc')
        self.usr = b.obj('usr_ident')
        key = Val.str(self.netloc.e)
        self.known = z3.Select(self.dk0, key)
        # the entry stored for this address (if any): its own user list, a client or None
        self.entry = b.obj('entry')
        self.users = b.obj('entry.usr_idents')
        st.assume(z3.Select(st.get_arr('C'), self.users.e) == ids['list'])
        self.U0 = z3.Select(st.get_arr('L'), self.users.e)
        self.client = b.any('entry.soap_client', maybe_none=True)
        st.assume(z3.Or(Val.is_none(self.client.e), z3.And(Val.is_ref(self.client.e), Val.oid(self.client.e) > 0,
                                                           Val.oid(self.client.e) < 10 ** 9)))
        b.set(self.entry, 'usr_idents', self.users)
        b.set(self.entry, 'soap_client', self.client)
        st.assume(z3.Implies(self.known, z3.Select(self.dv0, key) == Val.ref(self.entry.e)))
        self.mgr = b.any('async_loop_subscr_mgr', maybe_none=True)
        st.assume(z3.Or(Val.is_none(self.mgr.e), Val.is_ref(self.mgr.e)))
        self.o = b.obj('self', cls=(SP, 'SoapClientPool'), _soap_clients=self.clients, async_loop_subscr_mgr=self.mgr)
        b.distinct(self.o, self.clients, self.entry, self.users, self.usr)
        st.ghost['closed'] = ()
        return key

    def close_summaries(self):
        def close(ex_, st, args, kwargs):
            st.ghost['closed'] = st.ghost['closed'] + ('close',)
            return NONE

        def async_close(ex_, st, args, kwargs):
            return st.alloc('Coroutine')

        def run_coro(ex_, st, args, kwargs):
            st.ghost['closed'] = st.ghost['closed'] + ('async_close',)
            return NONE
        return {'*.close': Pure(close, name='soap_client.close() (does not raise)', trusted=True),
                '*.async_close': Pure(async_close, name='soap_client.async_close() coroutine'),
                '*.run_coro': Pure(run_coro, name='event loop thread runs the close coroutine', trusted=True)}


@register
class PoolForgetUser(_Pool):
    id = 'C08.pool_forget_user'
    target = f'{SP}:SoapClientPool.forget_usr'
    doc = ('SoapClientPool.forget_usr: the user is removed from the address entry; when it was the last one the entry '
           'leaves the pool - whatever state its connection is in - and its client is closed exactly once, so a later '
           'subscription for the same address gets a new connection instead of a dead one; other addresses and an '
           'entry that still has users are untouched')

    def setup(self, b):
        self.key = self.mk_pool(b)
        return self.o, [self.netloc, self.usr], {}

    def callees(self, ex):
        return self.close_summaries()

    def post(self, ex, st0, st, outcome, b):
        if outcome[0] == 'exc':
            ex.oblige(st, 'never_raises', z3.BoolVal(False), info={'exc': repr(outcome[1])})
            return
        dk1 = z3.Select(st.get_arr('DK'), self.clients.e)
        dv1 = z3.Select(st.get_arr('DV'), self.clients.e)
        U1 = st.list_seq(self.users)
        usr = Val.ref(self.usr.e)
        closed = st.ghost['closed']
        k = z3.Const('k!pool', Val)
        ex.oblige(st, 'other_addresses_untouched', z3.ForAll([k], z3.Implies(k != self.key, z3.And(
            z3.Select(dk1, k) == z3.Select(self.dk0, k), z3.Select(dv1, k) == z3.Select(self.dv0, k)))))
        active = z3.And(self.known, z3.Length(self.U0) > 0)
        ex.oblige(st, 'user_is_forgotten', z3.Implies(z3.And(active, z3.Contains(self.U0, z3.Unit(usr))),
                                                       z3.Length(U1) == z3.Length(self.U0) - 1))
        ex.oblige(st, 'entry_without_users_leaves_the_pool', z3.Implies(z3.And(active, z3.Length(U1) == 0),
                                                                           z3.Not(z3.Select(dk1, self.key))))
        ex.oblige(st, 'entry_with_users_stays', z3.Implies(z3.And(active, z3.Length(U1) > 0), z3.And(
            z3.Select(dk1, self.key), z3.Select(dv1, self.key) == Val.ref(self.entry.e), z3.BoolVal(len(closed) == 0))))
        ex.oblige(st, 'client_closed_exactly_when_its_entry_is_dropped', z3.Implies(
            z3.And(active, z3.Length(U1) == 0, Val.is_ref(self.client.e)), z3.BoolVal(len(closed) == 1)))
        ex.oblige(st, 'unknown_address_changes_nothing', z3.Implies(z3.Not(active), z3.And(
            z3.Select(dk1, self.key) == z3.Select(self.dk0, self.key), U1 == self.U0, z3.BoolVal(len(closed) == 0))))


@register
class PoolGetClient(_Pool):
    id = 'C08.pool_get_soap_client'
    target = f'{SP}:SoapClientPool.get_soap_client'
    doc = ('SoapClientPool.get_soap_client: an address without entry gets a new client from the factory, stored with '
           'this user; an address with an entry returns that entry\'s client and registers the user once; other '
           'addresses are untouched')

    def setup(self, b):
        self.key = self.mk_pool(b)
        self.acc = b.obj('accepted_encodings')
        return self.o, [self.netloc, self.acc, self.usr], {}

    def callees(self, ex):
        def factory(ex_, st, args, kwargs):
            c = st.alloc('SoapClient')
            st.ghost['c:new_client'] = c
            st.ghost['c:factory_args'] = (st.box(args[0]), st.box(args[1]))
            return c
        return {'self._soap_client_factory': Pure(factory, name='soap client factory (netloc, accepted encodings)')}

    inline = (f'{SP}:_SoapClientEntry.__init__',)

    def post(self, ex, st0, st, outcome, b):
        if outcome[0] == 'exc':
            ex.oblige(st, 'never_raises', z3.BoolVal(False), info={'exc': repr(outcome[1])})
            return
        dk1 = z3.Select(st.get_arr('DK'), self.clients.e)
        dv1 = z3.Select(st.get_arr('DV'), self.clients.e)
        usr = Val.ref(self.usr.e)
        r = st.box(outcome[1])
        k = z3.Const('k!pool', Val)
        ex.oblige(st, 'other_addresses_untouched', z3.ForAll([k], z3.Implies(k != self.key, z3.And(
            z3.Select(dk1, k) == z3.Select(self.dk0, k), z3.Select(dv1, k) == z3.Select(self.dv0, k)))))
        new = st.ghost.get('c:new_client')
        if new is None:
            ex.oblige(st, 'existing_entry_returns_its_client', z3.And(self.known, r == self.client.e,
                                                                      z3.Select(dv1, self.key) == Val.ref(self.entry.e)))
            U1 = st.list_seq(self.users)
            ex.oblige(st, 'user_registered_once', z3.And(z3.Contains(U1, z3.Unit(usr)), z3.Or(
                U1 == self.U0, z3.And(z3.Not(z3.Contains(self.U0, z3.Unit(usr))), U1 == z3.Concat(self.U0, z3.Unit(usr))))))
        else:
            fa = st.ghost['c:factory_args']
            e1 = z3.Select(dv1, self.key)
            ex.oblige(st, 'new_client_only_for_unknown_address', z3.Not(self.known))
            ex.oblige(st, 'new_client_made_for_this_address_and_returned', z3.And(
                r == Val.ref(new.e), fa[0] == self.key, fa[1] == Val.ref(self.acc.e)))
            ex.oblige(st, 'new_entry_stored_with_this_user', z3.And(
                z3.Select(dk1, self.key), Val.is_ref(e1),
                z3.Select(st.get_arr('f:soap_client'), Val.oid(e1)) == Val.ref(new.e),
                z3.Select(st.get_arr('L'), Val.oid(z3.Select(st.get_arr('f:usr_idents'), Val.oid(e1)))) == z3.Unit(usr)))


@register
class ActionFilterTokens(FnCheck):
    id = 'C08.action_filter_tokens'
    prop = 'C08'
    tag = 'S'
    opaque_ok = True
    target = f'{SB}:ActionBasedSubscription.__init__'
    doc = ('ActionBasedSubscription.__init__: the action filter of a subscription is the list of white-space separated '
           'tokens of the wse:Filter text (an xs:list of URIs may be separated by any XML white space - blanks, tabs, '
           'line breaks, several in a row): exactly str.split() without separator is appended to actions_filter, once')
    trusted = ('str.split() without argument splits at runs of white space and yields no empty tokens',)
    field_types = {'text': 'str'}

    def setup(self, b):
        self.text = b.str('filter_text')
        self.ft = b.obj('filter_type', text=self.text)
        self.o = b.obj('self', cls=(SB, 'ActionBasedSubscription'))
        b.st.ghost['ext'] = ()
        return self.o, [], {}

    def hooks(self, ex):
        chk = self

        class H:
            tracked_names = ('filter_type', 'extend')

            @staticmethod
            def on_attr_read(ex_, st, o, attr, node):
                if attr == 'filter_type' and o.path == 'self':
                    return [(st, chk.ft)]          # the subscription was created with a filter
                return None

            @staticmethod
            def on_call(ex_, st, fv, keys, args, kwargs, node):
                if fv.t == 'method' and fv.name in ('extend', 'append', '__iadd__') and (getattr(fv.recv, 'path', '') or '').endswith('actions_filter'):
                    a = ex_.concrete_kind(st, args[0], ('ref',))
                    text_now = z3.Select(st.get_arr('f:text'), chk.ft.e)      # the filter text at the time of the call
                    if a.kind == 'any':
                        a = V('ref', Val.oid(a.e))
                    st.ghost['ext'] = st.ghost['ext'] + ((fv.name, st.list_seq(a) if a.kind == 'ref' else None, text_now),)
                    return [(st, NONE)]
                return None
        return H

    def post(self, ex, st0, st, outcome, b):
        if outcome[0] == 'exc':
            return
        ext = st.ghost['ext']
        ok = len(ext) == 1 and ext[0][0] == 'extend' and ext[0][1] is not None
        ws_split = models.uf('str_split', StrS, StrS, SeqVal)(Val.s(ext[0][2]), z3.StringVal(' \x00ws')) if ok else None
        ex.oblige(st, 'filter_is_the_whitespace_separated_token_list',
                  z3.Implies(Val.is_str(ext[0][2]), ext[0][1] == ws_split) if ok else z3.BoolVal(False),
                  info={'calls': str([e[0] for e in ext])})
