"""C07 - Get responses are consistent snapshots under concurrent transactions."""
from __future__ import annotations

import z3

from contracts.lib import is_lock

from pyvc.api import (FnCheck, LoopSpec, Pure, Inline, register, Build, V, Val, SeqVal, IntS, RealS, BoolS, StrS, NONE,
                      Raise, Unsupported, fresh, vany, vint, vreal, vbool, vstr, vref, as_int, unbox_as, truthy, field)

GS = 'sdc11073.provider.porttypes.getserviceimpl'
CS = 'sdc11073.provider.porttypes.contextserviceimpl'
MB = 'sdc11073.mdib.mdibbase'
TABLES = ('states', 'context_states', 'descriptions')


class SnapshotHooks:
    """Ghost: lock depth of mdib_lock and a critical-section counter (epoch); every read of an MDIB table or of the
    version group is logged with (what, inside lock?, epoch)."""
    tracked_names = TABLES + ('mdib_version_group', 'mdib_version', 'sequence_id', 'instance_id',
                              'set_mdib_version_group')

    def __init__(self, mdib_paths=('self._mdib', 'mdib', 'self')):
        self.mdib_paths = mdib_paths

    def on_with_enter(self, ex, st, key, cm, node):
        if is_lock(key, 'mdib_lock'):
            d = st.ghost.get('depth', 0)
            if d == 0:
                st.ghost['epoch'] = st.ghost.get('epoch', 0) + 1
            st.ghost['depth'] = d + 1

    def on_with_exit(self, ex, st, key, cm, node, sig):
        if is_lock(key, 'mdib_lock'):
            st.ghost['depth'] = st.ghost.get('depth', 0) - 1
            if st.ghost['depth'] == 0:
                # a table's own container (mutated in place by later commits) must not leave the section: only copies
                # (list(...), comprehensions, lookups' result lists) may
                leaked = []
                for name, v in st.locals.items():
                    if v.kind not in ('any', 'ref'):
                        continue
                    e = st.box(v) if v.kind == 'any' else Val.ref(v.e)
                    if any(z3.is_true(z3.simplify(e == live)) for live in st.ghost.get('c:live', ())):
                        leaked.append(name)
                ex.oblige(st, 'no_live_table_container_leaves_the_critical_section', z3.BoolVal(not leaked),
                          info={'locals': str(leaked)})

    def log(self, st, what):
        st.ghost['reads'] = st.ghost.get('reads', ()) + ((what, st.ghost.get('depth', 0) > 0, st.ghost.get('epoch', 0)),)

    def on_attr_read(self, ex, st, o, attr, node):
        if attr == 'objects' and o.path and o.path.split('.')[-1] in TABLES:
            v = st.read_field(ex.concrete_kind(st, o, ('ref',)), 'objects')
            st.ghost['c:live'] = st.ghost.get('c:live', ()) + (st.box(v),)
            return [(st, v)]
        if o.path in self.mdib_paths:
            if attr in TABLES:
                self.log(st, attr)
            elif attr == 'mdib_version_group':
                self.log(st, 'version_group')
                g = st.alloc('MdibVersionGroup')
                st.ghost['groups'] = st.ghost.get('groups', ()) + ((g.e, st.ghost.get('depth', 0) > 0, st.ghost.get('epoch', 0)),)
                return [(st, g)]
            elif attr in ('mdib_version', 'sequence_id', 'instance_id'):
                self.log(st, 'version_group')
        return None


def snapshot_obligations(ex, st, need_group=True):
    reads = st.ghost.get('reads', ())
    ex.oblige(st, 'all_mdib_reads_inside_mdib_lock', z3.BoolVal(all(r[1] for r in reads)), info={'reads': str(reads)[:300]})
    epochs = {r[2] for r in reads}
    ex.oblige(st, 'all_mdib_reads_in_one_critical_section', z3.BoolVal(len(epochs) <= 1), info={'reads': str(reads)[:300]})
    if need_group:
        ex.oblige(st, 'version_group_is_read', z3.BoolVal(any(r[0] == 'version_group' for r in reads)))


class _Handler(FnCheck):
    prop = 'C07'
    tag = 'S'
    opaque_ok = True
    mdib_paths = ('self._mdib',)

    def setup(self, b):
        self.mdib = b.obj('mdib_object')
        self.o = b.obj('self', cls=self.cls, _mdib=self.mdib)
        return self.o, [b.obj('request_data')], {}

    def hooks(self, ex):
        return SnapshotHooks(self.mdib_paths)

    def callees(self, ex):
        def set_group(ex_, st, args, kwargs):
            st.ghost['set_group'] = st.ghost.get('set_group', ()) + (st.box(args[0]),)
            return NONE
        alloc = lambda n: Pure(lambda e, s, a, k: s.alloc(n), name=n)   # noqa: E731
        return {'*.set_mdib_version_group': Pure(set_group, name='response.set_mdib_version_group'),
                '*.from_node': alloc('Request'), '*.mk_reply_soap_message': alloc('CreatedMessage'),
                '*.GetMdStateResponse': alloc('Response'), '*.GetContextStatesResponse': alloc('Response'),
                '*.GetMdDescriptionResponse': alloc('Response'), '*.GetMdibResponse': alloc('Response')}

    def post(self, ex, st0, st, outcome, b):
        if outcome[0] == 'exc':
            return
        snapshot_obligations(ex, st)
        sg = st.ghost.get('set_group', ())
        groups = st.ghost.get('groups', ())
        ex.oblige(st, 'response_version_group_set_once', z3.BoolVal(len(sg) == 1))
        if len(sg) == 1 and groups:
            ex.oblige(st, 'response_carries_the_version_group_read_in_that_section',
                      z3.Or(*[z3.And(sg[0] == Val.ref(g), z3.BoolVal(inside)) for g, inside, _ in groups]))


@register
class GetMdState(_Handler):
    id = 'C07.get_md_state'
    cls = (GS, 'GetService')
    target = f'{GS}:GetService._on_get_md_state'
    doc = ('GetMdState: every read of the state tables and the read of the version group happen inside one mdib_lock '
           'critical section, and the version group written into the response is the one read there')


@register
class GetContextStates(_Handler):
    id = 'C07.get_context_states'
    cls = (CS, 'ContextService')
    target = f'{CS}:ContextService._on_get_context_states'
    doc = 'GetContextStates: same snapshot obligations as C07.get_md_state'


@register
class GetMdDescription(FnCheck):
    id = 'C07.get_md_description'
    prop = 'C07'
    tag = 'S'
    opaque_ok = True
    target = f'{GS}:GetService.mk_get_mddescription_response_message'
    doc = ('GetMdDescription: handle checks, reconstruction of the description and the version group are taken in one '
           'mdib_lock section; the response carries the version group returned together with the description')

    def setup(self, b):
        self.mdib = b.obj('mdib')
        self.o = b.obj('self', cls=(GS, 'GetService'))
        return self.o, [b.obj('request_data'), self.mdib, b.obj('requested_handles')], {}

    def hooks(self, ex):
        return SnapshotHooks(('mdib',))

    def callees(self, ex):
        def set_group(ex_, st, args, kwargs):
            st.ghost['set_group'] = st.ghost.get('set_group', ()) + (st.box(args[0]),)
            return NONE

        def reconstruct(ex_, st, args, kwargs):
            # contract C07.reconstruct_md_description: (node, version group) of one critical section (re-entrant lock)
            g = st.alloc('MdibVersionGroup')
            st.ghost['reads'] = st.ghost.get('reads', ()) + (('descriptions', st.ghost.get('depth', 0) > 0, st.ghost.get('epoch', 0) if st.ghost.get('depth', 0) > 0 else -1),
                                                            ('version_group', st.ghost.get('depth', 0) > 0, st.ghost.get('epoch', 0) if st.ghost.get('depth', 0) > 0 else -1))
            st.ghost['groups'] = st.ghost.get('groups', ()) + ((g.e, True, st.ghost.get('epoch', 0) if st.ghost.get('depth', 0) > 0 else -1),)
            st.ghost['c:reconstructed'] = g
            return V('tuple', py=(st.alloc('Element'), g))
        alloc = lambda n: Pure(lambda e, s, a, k: s.alloc(n), name=n)   # noqa: E731
        return {'*.set_mdib_version_group': Pure(set_group, name='response.set_mdib_version_group'),
                '*.reconstruct_md_description': Pure(reconstruct, name='MdibBase.reconstruct_md_description (C07.reconstruct_md_description)'),
                '*.GetMdDescriptionResponse': alloc('Response'), '*.mk_reply_soap_message': alloc('CreatedMessage'),
                '*.get_one': Pure(lambda e, s, a, k: vany(fresh(Val, 'descr'), maybe_none=True), name='index get_one')}

    def post(self, ex, st0, st, outcome, b):
        if outcome[0] == 'exc':
            return
        snapshot_obligations(ex, st)
        sg = st.ghost.get('set_group', ())
        ex.oblige(st, 'response_version_group_set_once', z3.BoolVal(len(sg) == 1))
        rec = st.ghost.get('c:reconstructed')
        if len(sg) == 1 and rec is not None:
            ex.oblige(st, 'description_and_version_group_from_same_reconstruction', sg[0] == Val.ref(rec.e))
        elif len(sg) == 1:
            groups = st.ghost.get('groups', ())
            ex.oblige(st, 'version_group_read_inside_lock', z3.Or(*[z3.And(sg[0] == Val.ref(g), z3.BoolVal(i)) for g, i, _ in groups])
                      if groups else z3.BoolVal(False))


@register
class GetMdib(FnCheck):
    id = 'C07.get_mdib'
    prop = 'C07'
    tag = 'S'
    opaque_ok = True
    target = f'{GS}:GetService._on_get_mdib'
    doc = ('GetMdib: the response carries exactly the version group returned by reconstruct_mdib[_with_context_states] '
           'together with the MDIB node (one critical section, C07.reconstruct_*) and reads nothing else from the MDIB')

    def setup(self, b):
        self.mdib = b.obj('mdib_object')
        self.o = b.obj('self', cls=(GS, 'GetService'), _mdib=self.mdib)
        return self.o, [b.obj('request_data')], {}

    def hooks(self, ex):
        return SnapshotHooks(('self._mdib',))

    def callees(self, ex):
        def set_group(ex_, st, args, kwargs):
            st.ghost['set_group'] = st.ghost.get('set_group', ()) + (st.box(args[0]),)
            return NONE

        def reconstruct(ex_, st, args, kwargs):
            g = st.alloc('MdibVersionGroup')
            n = st.alloc('Element')
            st.ghost['rec'] = st.ghost.get('rec', ()) + ((n.e, g.e),)
            return V('tuple', py=(n, g))
        alloc = lambda n: Pure(lambda e, s, a, k: s.alloc(n), name=n)   # noqa: E731
        return {'*.set_mdib_version_group': Pure(set_group, name='response.set_mdib_version_group'),
                '*.reconstruct_mdib': Pure(reconstruct, name='reconstruct_mdib (C07.reconstruct_mdib)'),
                '*.reconstruct_mdib_with_context_states': Pure(reconstruct, name='reconstruct_mdib_with_context_states'),
                '*.GetMdibResponse': alloc('Response'), '*.mk_reply_soap_message': alloc('CreatedMessage')}

    def hooks(self, ex):
        outer = SnapshotHooks(('self._mdib',))

        class H:
            tracked_names = outer.tracked_names + ('Mdib',)
            on_with_enter = outer.on_with_enter
            on_with_exit = outer.on_with_exit
            on_attr_read = outer.on_attr_read

            @staticmethod
            def on_attr_write(ex_, st, o, attr, val, node):
                if attr == 'Mdib':
                    st.ghost['mdib_node'] = st.box(val)
                return None
        return H

    def post(self, ex, st0, st, outcome, b):
        if outcome[0] == 'exc':
            return
        rec = st.ghost.get('rec', ())
        sg = st.ghost.get('set_group', ())
        ex.oblige(st, 'reconstructed_exactly_once', z3.BoolVal(len(rec) == 1))
        ex.oblige(st, 'no_other_mdib_reads', z3.BoolVal(not st.ghost.get('reads', ())))
        if len(rec) == 1 and len(sg) == 1 and 'mdib_node' in st.ghost:
            ex.oblige(st, 'node_and_version_group_from_the_same_reconstruction', z3.And(
                sg[0] == Val.ref(rec[0][1]), st.ghost['mdib_node'] == Val.ref(rec[0][0])))
        else:
            ex.oblige(st, 'node_and_version_group_from_the_same_reconstruction', z3.BoolVal(False))


def _mk_reconstruct(name, inner):
    class Reconstruct(FnCheck):
        id = f'C07.{name}'
        prop = 'C07'
        tag = 'S'
        opaque_ok = True
        target = f'{MB}:MdibBase.{name}'
        doc = (f'{name}: the DOM tree is built ({inner}) and the version group is read inside the same mdib_lock '
               'critical section; both are returned together')

        def setup(self, b):
            self.o = b.obj('self', cls=(MB, 'MdibBase'))
            return self.o, [], {}

        def hooks(self, ex):
            return SnapshotHooks(('self',))

        def callees(self, ex):
            def build(ex_, st, args, kwargs):
                st.ghost['reads'] = st.ghost.get('reads', ()) + (('tables', st.ghost.get('depth', 0) > 0, st.ghost.get('epoch', 0)),)
                n = st.alloc('Element')
                st.ghost['c:node'] = n
                return n
            return {f'{MB}:MdibBase.{inner}': Pure(build, name=f'{inner} (serialises descriptors/states of the tables)')}

        def post(self, ex, st0, st, outcome, b):
            if outcome[0] == 'exc':
                return
            snapshot_obligations(ex, st)
            r = outcome[1]
            groups = st.ghost.get('groups', ())
            ok = r.kind == 'tuple' and len(r.py) == 2 and 'c:node' in st.ghost and len(groups) == 1
            ex.oblige(st, 'returns_node_and_group_of_that_section', z3.BoolVal(ok) if not ok else z3.And(
                st.box(r.py[0]) == Val.ref(st.ghost['c:node'].e), st.box(r.py[1]) == Val.ref(groups[0][0]), z3.BoolVal(groups[0][1])))
    Reconstruct.__name__ = f'Reconstruct_{name}'
    return Reconstruct


for _n, _i in (('reconstruct_mdib', '_reconstruct_mdib'), ('reconstruct_mdib_with_context_states', '_reconstruct_mdib'),
               ('reconstruct_md_description', '_reconstruct_md_description')):
    register(_mk_reconstruct(_n, _i))


# Get handlers serialise the collected state containers after leaving the critical section; that is a snapshot only
# because a commit never writes to a stored state object (it queues copies and replaces the table entry).  The provider
# functions that prepare those copies are under contract in C02; the ones relevant here are re-checked under C07.
from contracts import C02 as _c02   # noqa: E402


@register
class CommitQueuesCopiesOfStates(_c02.UpdateCorrespondingStateNotInTx):
    id = 'C07.descriptor_commit_never_writes_the_stored_state'
    prop = 'C07'


# The snapshot argument also rests on (a) copy-on-write: a transaction getter hands out mk_copy() of the stored state - a
# copy that shares no nested data with the stored object, so a handler that serialises after the lock still sees the
# committed values - and (b) every commit, of every transaction kind, holding mdib_lock from the creation of the
# transaction to the publication of its result. Both are under contract elsewhere (C03.mk_copy, C02.transaction_manager);
# they are re-checked under C07 because a change to either breaks this property first.
from contracts import C03 as _c03   # noqa: E402


@register
class CopyOnWriteIsDeep(_c03.MkCopy):
    id = 'C07.copy_on_write_shares_nothing'
    prop = 'C07'


@register
class EveryCommitHoldsMdibLock(_c02.TransactionManager):
    id = 'C07.every_commit_holds_mdib_lock'
    prop = 'C07'


# GetMdState / GetContextStates serialise the selected state objects AFTER the critical section. That is a snapshot
# only if writing a state to XML depends on nothing but the state object's own members: descriptors are updated in
# place by later commits, so a serialiser that looks at (or synchronises with) descriptor_container would mix versions.
import ast as _ast   # noqa: E402
from pyvc.api import ScanCheck   # noqa: E402

_SERIALISERS = ('mk_state_node', 'mk_node', 'update_node', 'as_etree_node', 'update_xml_value')


@register
class StateSerialisationIsSelfContained(ScanCheck):
    id = 'C07.state_serialisation_reads_only_the_state'
    prop = 'C07'
    doc = ('exhaustive scan of mdib/statecontainers.py and mdib/containerbase.py: no method a state container is '
           'written to XML with (mk_state_node, mk_node, update_node and overrides in any state class) reads '
           'descriptor_container / source_mds, calls a version-changing method or assigns a member of the state (except giving a handle-less multi state its '
           'handle; stored states always have one) - '
           'what is serialised after the lock is exactly what the state object held inside it')

    def scan(self, repo):
        out = []
        n_methods = 0
        for modname in ('sdc11073.mdib.statecontainers', 'sdc11073.mdib.containerbase'):
            mod = repo.module(modname)
            for cname, cdef in sorted(mod.classes.items()):
                for fn in cdef.body:
                    if not isinstance(fn, (_ast.FunctionDef, _ast.AsyncFunctionDef)) or fn.name not in _SERIALISERS:
                        continue
                    n_methods += 1
                    bad = []
                    for n in _ast.walk(fn):
                        if isinstance(n, _ast.Attribute) and n.attr in ('descriptor_container', 'source_mds'):
                            bad.append(f'line {n.lineno}: reads .{n.attr}')
                        if isinstance(n, _ast.Call) and isinstance(n.func, _ast.Attribute) and n.func.attr in (
                                'update_descriptor_version', 'increment_state_version', 'increment_descriptor_version',
                                'update_from_other_container', 'update_from_node'):
                            bad.append(f'line {n.lineno}: calls {n.func.attr}()')
                        if isinstance(n, _ast.Attribute) and isinstance(n.ctx, (_ast.Store, _ast.Del)) \
                                and isinstance(n.value, _ast.Name) and n.value.id == 'self' and n.attr not in ('node', 'Handle'):
                            bad.append(f'line {n.lineno}: assigns self.{n.attr}')
                    out.append((f'serialiser.{cname}.{fn.name}', not bad, {'class': cname, 'method': fn.name, 'findings': '; '.join(bad)}))
        out.append(('serialisers_found', n_methods >= 4, {'methods': n_methods}))
        return out


def _rereg_c07(base, new_id, doc):
    cls = type('C07_' + base.__name__, (base,), {'id': new_id, 'prop': 'C07', 'doc': doc})
    register(cls)


_rereg_c07(_c02.WriteEntity, 'C07.entity_write_commits_a_deep_copy',
           'StateTransactionBase.write_entity (C02.write_entity re-checked): the state queued for commit is a DEEP copy of '
           'the entity state - a shallow copy would share MetricValue etc. with the entity object the application keeps, and '
           'the state stored at MdibVersion N would change content without a commit while a Get answer is being written')
_rereg_c07(_c02.ContextWriteEntity, 'C07.context_entity_write_commits_deep_copies',
           'ContextStateTransaction.write_entity (C02.context_write_entity re-checked): every context state queued for '
           'commit is a deep copy of the entity state')
