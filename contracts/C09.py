"""C09 - operation invocations follow the BICEPS invocation-state protocol end to end."""
from __future__ import annotations

import z3

from pyvc.api import (FnCheck, LoopSpec, Pure, Inline, register, Build, V, Val, SeqVal, IntS, RealS, BoolS, StrS, NONE,
                      Raise, Unsupported, fresh, vany, vint, vreal, vbool, vstr, vref, as_int, unbox_as, truthy, field)

PI = 'sdc11073.provider.providerimpl'
PT = 'sdc11073.provider.porttypes.porttypebase'
SCO = 'sdc11073.provider.sco'
MT = 'sdc11073.xml_types.msg_types'

# invocation states as the string values of the enum members (read from msg_types at verification time)
STATES = {}


def load_states(repo):
    import ast
    if STATES:
        return STATES
    mod = repo.module(MT)
    cdef = mod.classes['InvocationState']
    for n in cdef.body:
        if isinstance(n, ast.Assign) and isinstance(n.targets[0], ast.Name):
            v = n.value
            if isinstance(v, ast.Constant):
                STATES[n.targets[0].id] = v.value
            elif isinstance(v, ast.Tuple) and v.elts and isinstance(v.elts[0], ast.Constant):
                STATES[n.targets[0].id] = v.elts[0].value
    return STATES


def state_val(name):
    return Val.str(z3.StringVal(STATES[name]))


def is_final(v):
    return z3.And(v != state_val('WAIT'), v != state_val('START'))


class LockHooks:
    """Ghost lock depth for `with <lock>:` statements."""
    tracked_names = ()

    def on_with_enter(self, ex, st, key, cm, node):
        held = dict(st.ghost.get('held', ()))
        held[key] = held.get(key, 0) + 1
        st.ghost['held'] = tuple(sorted(held.items()))

    def on_with_exit(self, ex, st, key, cm, node, sig):
        held = dict(st.ghost.get('held', ()))
        held[key] = held.get(key, 0) - 1
        st.ghost['held'] = tuple(sorted(held.items()))


def held(st, key):
    return dict(st.ghost.get('held', ())).get(key, 0)


@register
class GenerateTransactionId(FnCheck):
    id = 'C09.generate_transaction_id'
    prop = 'C09'
    target = f'{PI}:SdcProvider.generate_transaction_id'
    doc = ('generate_transaction_id: result == counter + 1 and the counter becomes that value, read-modify-write inside '
           '_transaction_id_lock => ids strictly increasing and unique per provider')
    trusted = ('threading.Lock gives mutual exclusion',)

    def setup(self, b):
        self.old = b.int('old_id')
        self.o = b.obj('self', cls=(PI, 'SdcProvider'), _transaction_id=self.old)
        return self.o, [], {}

    def hooks(self, ex):
        chk = self

        class H(LockHooks):
            tracked_names = ('_transaction_id',)

            def on_attr_read(self, ex_, st, o, attr, node):
                if attr == '_transaction_id':
                    ex_.oblige(st, 'counter_read_under_lock', z3.BoolVal(held(st, 'self._transaction_id_lock') > 0))
                return None

            def on_attr_write(self, ex_, st, o, attr, val, node):
                if attr == '_transaction_id':
                    ex_.oblige(st, 'counter_written_under_lock', z3.BoolVal(held(st, 'self._transaction_id_lock') > 0))
                return None
        return H()

    def post(self, ex, st0, st, outcome, b):
        if outcome[0] == 'exc':
            ex.oblige(st, 'never_raises', z3.BoolVal(False))
            return
        ex.oblige(st, 'result_is_next_id', as_int(ex, st, outcome[1]) == self.old.e + 1)
        ex.oblige(st, 'counter_advanced', field(st, self.o, '_transaction_id') == Val.int(self.old.e + 1))


@register
class HandleOperationRequest(FnCheck):
    id = 'C09.service_handle_request'
    prop = 'C09'
    opaque_ok = True
    target = f'{PT}:ServiceWithOperations._handle_operation_request'
    doc = ('every Set/Activate request gets a fresh transaction id in its response; an unknown operation handle is '
           'answered Fail + error information without invoking any handler (no MDIB write, no report); otherwise the '
           'response state is the state returned by the provider')

    def setup(self, b):
        load_states(b.ex.repo)
        st = b.st
        self.known = b.bool('operation_registered')
        self.op = b.obj('operation')
        self.info = b.obj('invocation_info')
        self.resp = b.obj('set_response', InvocationInfo=self.info)
        self.o = b.obj('self', cls=(PT, 'ServiceWithOperations'))
        b.distinct(self.op, self.info, self.resp, self.o)
        st.ghost['dispatched'] = 0
        return self.o, [b.obj('request_data'), b.obj('request'), self.resp], {}

    def callees(self, ex):
        def get_op(ex_, st, args, kwargs):
            return vany(z3.If(self.known.e, Val.ref(self.op.e), Val.none), maybe_none=True)

        def gen_id(ex_, st, args, kwargs):
            t = fresh(IntS, 'tid')
            st.ghost['c:tid'] = t
            return vint(t)

        def dispatch(ex_, st, args, kwargs):
            st.ghost['dispatched'] = st.ghost['dispatched'] + 1
            st.ghost['c:dispatch_args'] = (st.box(args[0]), st.box(args[3]))
            r = fresh(Val, 'state')
            st.ghost['c:returned'] = r
            return vany(r)
        return {'*.get_operation_by_handle': Pure(get_op, name='SdcProvider.get_operation_by_handle'),
                '*.generate_transaction_id': Pure(gen_id, name='generate_transaction_id (C09.generate_transaction_id)'),
                '*.handle_operation_request': Pure(dispatch, name='SdcProvider.handle_operation_request (C09.sco_handle_request)'),
                '*.add_error_message': Pure(lambda e, s, a, k: (s.ghost.__setitem__('c:errmsg', True), NONE)[1]),
                '*.mk_reply_soap_message': Pure(lambda e, s, a, k: s.alloc('CreatedMessage'))}

    def hooks(self, ex):
        class H:
            tracked_names = ('InvocationState', 'InvocationError', 'TransactionId')

            @staticmethod
            def on_attr_write(ex_, st, o, attr, val, node):
                st.ghost['written'] = st.ghost.get('written', ()) + (attr,)
                return None
        return H

    def post(self, ex, st0, st, outcome, b):
        if outcome[0] == 'exc':
            ex.oblige(st, 'never_raises', z3.BoolVal(False), info={'exc': repr(outcome[1])})
            return
        tid = st.ghost.get('c:tid')
        ex.oblige(st, 'transaction_id_assigned', field(st, self.info, 'TransactionId') == Val.int(tid)
                  if tid is not None else z3.BoolVal(False))
        disp = st.ghost['dispatched']
        ex.oblige(st, 'handler_invoked_iff_operation_known', z3.BoolVal(disp == 1) == self.known.e)
        state = field(st, self.info, 'InvocationState')
        if disp == 0:
            written = st.ghost.get('written', ())
            ex.oblige(st, 'unknown_operation_fails_with_error', z3.BoolVal(
                bool(st.ghost.get('c:errmsg')) and 'InvocationState' in written and 'InvocationError' in written))
        else:
            ex.oblige(st, 'response_state_is_returned_state', state == st.ghost['c:returned'])
            ex.oblige(st, 'dispatch_uses_same_operation_and_id', z3.And(
                st.ghost['c:dispatch_args'][0] == Val.ref(self.op.e), st.ghost['c:dispatch_args'][1] == Val.int(tid)))


class _NotifyLog:
    """Ghost log of notify_operation(operation, tid, state, versions, target=None, error=None, error_message=None)."""

    @staticmethod
    def summary():
        def notify(ex_, st, args, kwargs):
            entry = (st.box(args[1]), st.box(args[2]),
                     kwargs.get('error') is not None or len(args) > 5,
                     kwargs.get('error_message') is not None or len(args) > 6)
            e = st.fork()
            e.ghost['notify'] = e.ghost.get('notify', ()) + (entry + ('raised',),)
            st.ghost['notify'] = st.ghost.get('notify', ()) + (entry + ('delivered',),)
            return [(e, Raise(ex_.mk_exc('*', 'notify_operation'))), (st, NONE)]
        return Pure(notify, name='SetService.notify_operation (ghost log; may raise)')


@register
class ScoHandleRequest(FnCheck):
    id = 'C09.sco_handle_request'
    prop = 'C09'
    opaque_ok = True
    target = f'{SCO}:ScoOperationsRegistry.handle_operation_request'
    doc = ('queued processing: the request is enqueued with its transaction id, the response is Wait and nothing is '
           'notified yet; direct processing: exactly one notification, carrying the final state that is also '
           'returned; a raising handler yields one Fail notification with error and error message and Fail is returned')
    trusted = ('operation handlers return a final invocation state (not Wait/Start)',)

    def setup(self, b):
        load_states(b.ex.repo)
        st = b.st
        self.delayed = b.bool('delayed_processing')
        self.op = b.obj('operation', delayed_processing=self.delayed)
        self.tid = b.int('transaction_id')
        self.o = b.obj('self', cls=(SCO, 'ScoOperationsRegistry'))
        self.result_state = b.any('handler_state')
        st.assume(z3.And(Val.is_str(self.result_state.e), is_final(self.result_state.e)))
        return self.o, [self.op, b.any('request'), b.any('operation_request'), self.tid], {}

    def callees(self, ex):
        def execute(ex_, st, args, kwargs):
            r = st.alloc('ExecuteResult')
            st.write_field(r, 'invocation_state', self.result_state)
            st.write_field(r, 'operation_target_handle', vany(fresh(Val, 'target')))
            st.ghost['executed'] = st.ghost.get('executed', 0) + 1
            return [(st.fork(), Raise(ex_.mk_exc('*', 'execute_operation'))), (st, r)]

        def enqueue(ex_, st, args, kwargs):
            st.ghost['enqueued'] = st.ghost.get('enqueued', ()) + ((st.box(args[0]), st.box(args[3])),)
            return [(st.fork(), Raise(ex_.mk_exc('queue.Full', 'enqueue_operation'))), (st, NONE)]
        return {'*.execute_operation': Pure(execute, name='operation handler (may raise anything)'),
                '*.enqueue_operation': Pure(enqueue, name='_OperationsWorker.enqueue_operation (may raise queue.Full)'),
                '*.notify_operation': _NotifyLog.summary()}

    def hooks(self, ex):
        return None

    module_constants = {}

    def post(self, ex, st0, st, outcome, b):
        log = st.ghost.get('notify', ())
        enq = st.ghost.get('enqueued', ())
        WAIT, FAILED = state_val('WAIT'), state_val('FAILED')

        def sval(v):
            # enum members are modelled as opaque constants by the engine; compare through the contract's own table
            return v
        if outcome[0] == 'exc':
            org = outcome[1].origin
            ex.oblige(st, 'only_transport_failures_escape', z3.BoolVal('notify_operation' in org or 'enqueue_operation' in org),
                      info={'exc': repr(outcome[1])})
            return
        r = st.box(outcome[1])
        ex.oblige(st, 'queued_iff_delayed', z3.BoolVal(len(enq) == 1) == self.delayed.e)
        if enq:
            ex.oblige(st, 'queued_with_same_operation_and_id', z3.And(enq[0][0] == Val.ref(self.op.e), enq[0][1] == Val.int(self.tid.e)))
            ex.oblige(st, 'queued_notifies_nothing_yet', z3.BoolVal(len(log) == 0 and st.ghost.get('executed', 0) == 0))
            ex.oblige(st, 'queued_response_is_wait', r == self.enum(ex, 'WAIT'))
        else:
            attempts = log
            log = tuple(e for e in attempts if e[4] == 'delivered')
            ex.oblige(st, 'direct_exactly_one_notification', z3.BoolVal(len(log) == 1 and len(attempts) <= 2))
            if len(log) == 1:
                ex.oblige(st, 'direct_notification_has_transaction_id', log[0][0] == Val.int(self.tid.e))
                ex.oblige(st, 'direct_response_equals_reported_final_state', r == log[0][1])
                raised = st.ghost.get('executed', 0) == 0 or log[0][2]
                if log[0][2] or log[0][3]:
                    ex.oblige(st, 'raising_handler_reports_fail_with_error', z3.And(
                        log[0][1] == self.enum(ex, 'FAILED'), z3.BoolVal(log[0][2] and log[0][3])))
                else:
                    ex.oblige(st, 'direct_reports_handler_state', log[0][1] == self.result_state.e)

    @staticmethod
    def enum(ex, name):
        return state_val(name)


@register
class WorkerIteration(FnCheck):
    id = 'C09.worker_iteration'
    prop = 'C09'
    opaque_ok = True
    target = f'{SCO}:_OperationsWorker.run'
    doc = ('queued processing, arbitrary worker iteration: for a dequeued request the notifications are exactly Wait, '
           'Start, then one final state, all with the request\'s transaction id; the final state is the handler\'s, or '
           'Fail with error + error message when the handler raises; nothing escapes the loop body')
    trusted = ScoHandleRequest.trusted

    def setup(self, b):
        load_states(b.ex.repo)
        st = b.st
        self.tid = b.int('transaction_id')
        self.op = b.obj('operation')
        self.result_state = b.any('handler_state')
        st.assume(z3.And(Val.is_str(self.result_state.e), is_final(self.result_state.e)))
        self.o = b.obj('self', cls=(SCO, '_OperationsWorker'))
        return self.o, [], {}

    def callees(self, ex):
        def q_get(ex_, st, args, kwargs):
            st.ghost['dequeued'] = st.ghost.get('dequeued', 0) + 1
            empty, stop = st.fork(), st.fork()
            st.ghost['got_request'] = True
            return [(empty, Raise(ex_.mk_exc('queue.Empty', 'queue.get'))), (stop, vstr('stop_sco')),
                    (st, V('tuple', py=(self.tid, self.op, vany(fresh(Val, 'request')), b_obj(st, 'operation_request'))))]

        def b_obj(st, name):
            return st.alloc(name)

        def execute(ex_, st, args, kwargs):
            r = st.alloc('ExecuteResult')
            st.write_field(r, 'invocation_state', self.result_state)
            st.write_field(r, 'operation_target_handle', vany(fresh(Val, 'target')))
            st.ghost['executed'] = st.ghost.get('executed', 0) + 1
            return [(st.fork(), Raise(ex_.mk_exc('*', 'execute_operation'))), (st, r)]
        return {'self._operations_queue.get': Pure(q_get, name='Queue.get: Empty | "stop_sco" | request tuple'),
                '*.execute_operation': Pure(execute, name='operation handler (may raise anything)'),
                '*.notify_operation': _NotifyLog.summary(),
                '*.check_invocation_timeouts': Pure(lambda e, s, a, k: NONE, raises=('*',)),
                'time.sleep': Pure(lambda e, s, a, k: NONE)}

    def loops(self, ex):
        def end_of_iteration(ex_, st, env):
            if env['_phase'] == 'preserve' and st.ghost.get('got_request'):
                log = st.ghost.get('notify', ())
                if all(e[4] == 'delivered' for e in log):
                    # every report could be delivered: the request must have got its final state in this iteration
                    ex_.oblige(st, 'dequeued_request_always_gets_a_final_state', z3.And(
                        z3.BoolVal(len(log) == 3), is_final(log[2][1]) if len(log) == 3 else z3.BoolVal(False)), kind='loop',
                        info={'notifications': len(log)})
            return z3.BoolVal(True)
        return {0: LoopSpec(inv=end_of_iteration, havoc_heap=[])}

    def post(self, ex, st0, st, outcome, b):
        if outcome[0] == 'exc':
            ex.oblige(st, 'never_raises', z3.BoolVal(False), info={'exc': repr(outcome[1])})

    def hooks(self, ex):
        chk = self

        class H:
            tracked_names = ('notify_operation', 'execute_operation')

            @staticmethod
            def on_loop_havoc(ex_, st, node):
                st.ghost['notify'] = ()
                st.ghost['executed'] = 0
                st.ghost['got_request'] = False
        return H

    def finish(self, ex, st0, outcomes, b):
        pass


# the per-iteration obligations are attached where the iteration ends: the loop head cut point. The engine ends a path
# there, so they are emitted from a wrapper of the notification summary: after the final notification.
_orig_summary = _NotifyLog.summary


def _checked_summary(chk):
    base = _orig_summary()

    def notify(ex_, st, args, kwargs):
        outs = base.fn(ex_, st, args, kwargs)
        for s, r in outs:
            log = s.ghost.get('notify', ())
            delivered = [e for e in log if e[4] == 'delivered']
            all_ok = len(delivered) == len(log)
            n = len(log)
            want = [state_val('WAIT'), state_val('START')]
            # order: k-th attempted notification of the iteration
            if n <= 2:
                ex_.oblige(s, f'notification_{n}_is_{"wait" if n == 1 else "start"}', z3.And(log[n - 1][1] == want[n - 1], log[n - 1][0] == Val.int(chk.tid.e)))
            elif n == 3:
                final = log[2]
                ex_.oblige(s, 'third_notification_is_final_with_same_id', z3.And(is_final(final[1]), final[0] == Val.int(chk.tid.e)))
                if final[2] or final[3]:
                    ex_.oblige(s, 'raising_handler_reports_fail_with_error', z3.And(final[1] == state_val('FAILED'), z3.BoolVal(final[2] and final[3])))
                    ex_.oblige(s, 'fail_only_after_handler_raised_or_report_failed', z3.BoolVal(True))
                else:
                    ex_.oblige(s, 'final_is_handler_state', final[1] == chk.result_state.e)
            else:
                # a 4th attempt is only legal as the Fail report after the final report itself could not be delivered
                ex_.oblige(s, 'at_most_one_delivered_final', z3.BoolVal(n == 4 and log[2][4] == 'raised' and
                                                                       sum(1 for e in log[2:] if e[4] == 'delivered') <= 1))
        return outs
    return Pure(notify, name='SetService.notify_operation (ghost log + order obligations)')


def _worker_callees(self, ex, _old=WorkerIteration.callees):
    d = _old(self, ex)
    d['*.notify_operation'] = _checked_summary(self)
    return d


WorkerIteration.callees = _worker_callees


CO = 'sdc11073.consumer.operations'


class _ConsumerBase(FnCheck):
    prop = 'C09'
    opaque_ok = True
    feasibility_timeout_ms = 400
    container_hints = {'self._transactions': 'dict', 'self._last_operation_invoked_reports': 'list'}
    LOCK = 'self._transactions_lock'

    def mk_manager(self, b):
        load_states(b.ex.repo)
        st = b.st
        ids = b.ex.ctx.builtin_class_ids
        self.tr = b.obj('transactions')
        st.assume(z3.Select(st.get_arr('C'), self.tr.e) == ids['dict'])
        st.assume(z3.Select(st.get_arr('DN'), self.tr.e) >= 0)
        self.recent = b.obj('recent_reports')
        st.assume(z3.Select(st.get_arr('C'), self.recent.e) == ids['list'])
        self.recent_seq = z3.Select(st.get_arr('L'), self.recent.e)
        self.o = b.obj('self', cls=(CO, 'OperationsManager'), _transactions=self.tr,
                       _last_operation_invoked_reports=self.recent)
        b.distinct(self.tr, self.recent, self.o)
        return self.o

    def part_tid(self, st, p):
        info = z3.Select(st.get_arr('f:InvocationInfo'), Val.oid(p))
        return z3.Select(st.get_arr('f:TransactionId'), Val.oid(info))

    def part_state(self, st, p):
        info = z3.Select(st.get_arr('f:InvocationInfo'), Val.oid(p))
        return z3.Select(st.get_arr('f:InvocationState'), Val.oid(info))

    def base_hooks(self, ex):
        chk = self

        class H(LockHooks):
            tracked_names = ('set_result',)

            def on_attr_read(self, ex_, st, o, attr, node):
                # `msg_types.InvocationState` (data model looked up at run time) is the enum class of msg_types.py
                if attr == 'InvocationState' and o.path and o.path.split('.')[-1] == 'msg_types':
                    return [(st, V('class', py=(MT, 'InvocationState')))]
                return None
        h = H()
        ex.ctx.membership['self.nonFinalOperationStates'] = lambda st, item: z3.Or(item == state_val('WAIT'), item == state_val('START'))
        return h

    def set_result_summary(self):
        def fn(ex_, st, args, kwargs):
            st.ghost['completed'] = st.ghost.get('completed', ()) + (st.box(args[0]),)
            ex_.oblige(st, 'future_completed_under_lock', z3.BoolVal(held(st, self.LOCK) > 0))
            return NONE
        return Pure(fn, name='Future.set_result (ghost log; requires: not done)')

    def mk_result_summary(self):
        def fn(ex_, st, args, kwargs):
            r = st.alloc('OperationResult')
            st.ghost['c:result_args'] = (st.box(args[0]), st.box(args[1]), st.box(args[2]))
            return r
        return Pure(fn, name='_mk_operation_result')


@register
class CallOperation(_ConsumerBase):
    id = 'C09.consumer_call_operation'
    target = f'{CO}:OperationsManager.call_operation'
    doc = ('call_operation: under the transactions lock, the returned future is completed at most once; a Fail/Cancelled '
           'response completes it immediately; it is registered for later completion iff it was not completed here. '
           '(Which report part completes it, for every order of response and reports: [F] C09.consumer_all_orders)')

    def setup(self, b):
        st = b.st
        o = self.mk_manager(b)
        self.tid = b.int('response_tid')
        self.state = b.str('response_state')
        self.info = b.obj('response_info', TransactionId=self.tid, InvocationState=self.state)
        self.resp = b.obj('response', InvocationInfo=self.info)
        b.distinct(self.info, self.resp, o, self.tr, self.recent)
        return o, [b.obj('hosted_service_client'), b.obj('message')], {}

    def hooks(self, ex):
        return self.base_hooks(ex)

    def callees(self, ex):
        def future(ex_, st, args, kwargs):
            f = st.alloc('Future')
            st.ghost['c:future'] = f
            return f
        return {'concurrent.futures.Future': Pure(future, name='Future()'), 'Future': Pure(future, name='Future()'),
                '*.post_message': Pure(lambda e, s, a, k: s.alloc('ReceivedMessage'), name='post_message', raises=('*',)),
                '*.from_node': Pure(lambda e, s, a, k: self.resp, name='AbstractSetResponse.from_node (C05)'),
                '*.set_result': self.set_result_summary(),
                f'{CO}:OperationsManager._mk_operation_result': self.mk_result_summary(),
                f'{CO}:OperationResult': Pure(lambda e, s, a, k: (s.ghost.__setitem__('c:direct_parts', s.box(a[5])), s.alloc('OperationResult'))[1], name='OperationResult(...)'),
                f'{CO}:OperationData': Pure(self._opdata, name='OperationData(...)'),
                'weakref.ref': Pure(lambda e, s, a, k: s.alloc('weakref'), name='weakref.ref')}

    def _opdata(self, ex_, st, args, kwargs):
        o = st.alloc('OperationData')
        st.write_field(o, 'report_parts', args[2])
        st.write_field(o, 'set_response', args[1])
        return o

    def post(self, ex, st0, st, outcome, b):
        if outcome[0] == 'exc':
            ex.oblige(st, 'only_transport_failures_escape', z3.BoolVal('post_message' in outcome[1].origin),
                      info={'exc': repr(outcome[1])})
            return
        completed = st.ghost.get('completed', ())
        ex.oblige(st, 'completed_at_most_once', z3.BoolVal(len(completed) <= 1))
        S = lambda n: self.state.e == z3.StringVal(STATES[n])   # noqa: E731
        failed = z3.Or(S('FAILED'), S('CANCELLED'), S('CANCELLED_MANUALLY'))
        tid = Val.int(self.tid.e)
        ex.oblige(st, 'failed_response_completes_immediately', z3.Implies(failed, z3.BoolVal(len(completed) == 1)))
        registered = z3.Select(z3.Select(st.get_arr('DK'), self.tr.e), tid)
        was = z3.Select(z3.Select(st0.get_arr('DK'), self.tr.e), tid)
        ex.oblige(st, 'registered_iff_not_completed', z3.Implies(z3.Not(was), registered == z3.BoolVal(len(completed) == 0)))
        ex.oblige(st, 'returns_the_future', st.box(outcome[1]) == Val.ref(st.ghost['c:future'].e))
        if 'c:direct_parts' in st.ghost:
            # completion from the response alone (no report part): only a failed / cancelled response may do that -
            # a successful one must wait for its final report part ("... with the final state and all related parts")
            ex.oblige(st, 'completion_without_report_only_for_failed_or_cancelled_response', failed)
        if 'c:result_args' in st.ghost:
            part, resp, parts = st.ghost['c:result_args']
            ex.oblige(st, 'completion_carries_this_response', resp == Val.ref(self.resp.e))
            ex.oblige(st, 'completing_part_is_a_final_part', z3.And(
                self.part_state(st, part) != state_val('WAIT'), self.part_state(st, part) != state_val('START')))


@register
class OnOperationInvokedReport(_ConsumerBase):
    id = 'C09.consumer_on_report'
    target = f'{CO}:OperationsManager.on_operation_invoked_report'
    doc = ('on_operation_invoked_report (arbitrary report part): under the transactions lock; a part of a registered '
           'transaction is appended to its parts; a final part removes the registration before the future is completed '
           '(so it cannot be completed twice) and completes it with that part; a part of an unregistered transaction '
           'is remembered for a later call_operation')

    def setup(self, b):
        o = self.mk_manager(b)
        self.parts = b.obj('report_parts_list')
        b.st.assume(z3.Select(b.st.get_arr('C'), self.parts.e) == b.ex.ctx.builtin_class_ids['list'])
        self.report = b.obj('report', ReportPart=self.parts)
        return o, [b.obj('message_data')], {}

    def hooks(self, ex):
        return self.base_hooks(ex)

    def loops(self, ex):
        return {0: LoopSpec(inv=None, havoc_heap=[])}

    def callees(self, ex):
        def set_result(ex_, st, args, kwargs):
            ex_.oblige(st, 'future_completed_under_lock', z3.BoolVal(held(st, self.LOCK) > 0))
            tid = st.ghost.get('c:popped')
            ex_.oblige(st, 'registration_removed_before_completion', z3.BoolVal(tid is not None) if tid is None else
                       z3.Not(z3.Select(z3.Select(st.get_arr('DK'), self.tr.e), tid)))
            st.ghost['completed'] = st.ghost.get('completed', 0) + 1
            ex_.oblige(st, 'at_most_one_completion_per_part', z3.BoolVal(st.ghost['completed'] == 1))
            return NONE

        def pop(ex_, st, args, kwargs):
            from pyvc import models
            k = args[0]
            st.ghost['c:popped'] = st.box(k)
            v = vany(z3.Select(z3.Select(st.get_arr('DV'), self.tr.e), st.box(k)))
            models.dict_del(ex_, st, self.tr, k)
            return v
        return {'*.from_node': Pure(lambda e, s, a, k: self.report, name='OperationInvokedReport.from_node (C05)'),
                '*.set_result': Pure(set_result, name='Future.set_result'),
                'self._transactions.pop': Pure(pop, name='dict.pop'),
                '*.future_ref': Pure(lambda e, s, a, k: vany(fresh(Val, 'future'), maybe_none=True), name='weakref()'),
                '*.append': Pure(lambda e, s, a, k: NONE, name='list/deque.append'),
                f'{CO}:OperationsManager._mk_operation_result': self.mk_result_summary()}

    def post(self, ex, st0, st, outcome, b):
        if outcome[0] == 'exc':
            ex.oblige(st, 'never_raises', z3.BoolVal(False), info={'exc': repr(outcome[1])})


@register
class EnqueueOperation(FnCheck):
    id = 'C09.enqueue_operation'
    prop = 'C09'
    target = f'{SCO}:_OperationsWorker.enqueue_operation'
    doc = ('enqueue_operation: a normal return means the request was put on the worker queue exactly once, as the tuple '
           '(transaction id, operation, request, operation request) that the worker unpacks; a full queue is reported '
           'to the caller (queue.Full escapes - the request is never dropped silently after the caller was promised '
           'processing); the wait for a free slot is bounded (non-blocking put or a positive finite time-out), so a '
           'stuck worker cannot hang the request thread')
    trusted = ('queue.Queue.put / put_nowait enqueue the item or raise queue.Full',)

    def setup(self, b):
        self.o = b.obj('self', cls=(SCO, '_OperationsWorker'))
        self.op, self.req, self.opreq = b.obj('operation'), b.obj('request'), b.obj('operation_request')
        self.tid = b.int('transaction_id')
        b.distinct(self.o, self.op, self.req, self.opreq)
        b.st.ghost['puts'] = ()
        return self.o, [self.op, self.req, self.opreq, self.tid], {}

    def callees(self, ex):
        def mk(kind):
            def put(ex_, st, args, kwargs):
                item = args[0] if args else None
                block = kwargs.get('block', args[1] if len(args) > 1 else None)
                timeout = kwargs.get('timeout', args[2] if len(args) > 2 else None)
                if kind == 'put_nowait':
                    bounded = z3.BoolVal(True)
                else:
                    nonblocking = z3.Not(truthy(block, st)) if block is not None else z3.BoolVal(False)
                    if timeout is None or timeout.kind == 'none':
                        finite = z3.BoolVal(False)
                    else:
                        t = ex_.concrete_kind(st, timeout, ('int', 'real'))
                        finite = (t.e > 0) if t.kind in ('int', 'real') else z3.BoolVal(False)
                    bounded = z3.Or(nonblocking, finite)
                full = st.fork()
                full.ghost['puts'] = st.ghost['puts'] + ((kind, item, bounded, 'full'),)
                st.ghost['puts'] = st.ghost['puts'] + ((kind, item, bounded, 'enqueued'),)
                return [(full, Raise(ex_.mk_exc('queue.Full', 'Queue.' + kind))), (st, NONE)]
            return put
        return {'self._operations_queue.put': Pure(mk('put'), name='Queue.put (ghost log; may raise queue.Full)', trusted=True),
                'self._operations_queue.put_nowait': Pure(mk('put_nowait'), name='Queue.put_nowait (ghost log; may raise queue.Full)', trusted=True)}

    def post(self, ex, st0, st, outcome, b):
        puts = st.ghost['puts']
        ex.oblige(st, 'wait_for_a_free_slot_is_bounded', z3.And(*[p[2] for p in puts]) if puts else z3.BoolVal(True))
        if outcome[0] == 'exc':
            ex.oblige(st, 'only_queue_full_escapes', z3.BoolVal(outcome[1].cls == 'queue.Full'), info={'exc': repr(outcome[1])})
            return
        done = [p for p in puts if p[3] == 'enqueued']
        ex.oblige(st, 'normal_return_means_enqueued_exactly_once', z3.BoolVal(len(done) == 1),
                  info={'puts': str([(p[0], p[3]) for p in puts])})
        if len(done) == 1:
            item = done[0][1]
            ok = item is not None and item.kind == 'tuple' and len(item.py) == 4
            ex.oblige(st, 'queued_item_is_what_the_worker_unpacks', z3.And(
                st.box(item.py[0]) == Val.int(self.tid.e), st.box(item.py[1]) == Val.ref(self.op.e),
                st.box(item.py[2]) == Val.ref(self.req.e), st.box(item.py[3]) == Val.ref(self.opreq.e)) if ok else z3.BoolVal(False))


# --------------------------------------------------------------------------------------------------------------------
# "a handler that raises yields Fail WITH error information": the error code / message are attached by the callers of
# execute_operation in sco.py (C09.sco_handle_request, C09.worker_iteration) from the exception they catch - so the
# exception of the handler has to reach them, whatever its class
OPS = 'sdc11073.provider.operations'


@register
class ExecuteOperationIsTransparent(FnCheck):
    id = 'C09.execute_operation_is_transparent'
    prop = 'C09'
    opaque_ok = True
    target = f'{OPS}:OperationDefinitionBase.execute_operation'
    container_hints = {'self.calls': 'list'}
    doc = ('OperationDefinitionBase.execute_operation: the operation handler is called exactly once with the request; '
           'what it returns is returned unchanged, and an exception it raises - of WHATEVER class - propagates to the '
           'caller (sco.py turns it into the Fail report with error code and message); execute_operation neither '
           'swallows it nor replaces the result')

    def setup(self, b):
        calls = b.obj('calls')
        b.st.assume(z3.Select(b.st.get_arr('C'), calls.e) == b.ex.ctx.builtin_class_ids['list'])
        self.result = b.obj('handler_result')
        self.o = b.obj('self', cls=(OPS, 'OperationDefinitionBase'), calls=calls)
        b.st.ghost['handler_calls'] = 0
        return self.o, [b.obj('soap_request'), b.obj('operation_request', argument=b.any('argument'))], {}

    def callees(self, ex):
        def handler(ex_, st, args, kwargs):
            st.ghost['handler_calls'] = st.ghost['handler_calls'] + 1
            outs = []
            for cls in ('ValueError', 'RuntimeError', 'KeyError', '*'):
                outs.append((st.fork(), Raise(ex_.mk_exc(cls, 'operation handler'))))
            outs.append((st, self.result))
            return outs
        return {'self._operation_handler': Pure(handler, name='operation handler (application code: returns or raises anything)'),
                f'{OPS}:ExecuteParameters': Pure(lambda e, s, a, k: s.alloc('ExecuteParameters'), name='ExecuteParameters(...)'),
                'time.time': Pure(lambda e, s, a, k: V('real', fresh(RealS, 'now')), name='time.time')}

    def post(self, ex, st0, st, outcome, b):
        n = st.ghost['handler_calls']
        ex.oblige(st, 'handler_called_exactly_once', z3.BoolVal(n == 1))
        if outcome[0] == 'exc':
            ex.oblige(st, 'only_the_handler_raises', z3.BoolVal('operation handler' in outcome[1].origin), info={'exc': repr(outcome[1])})
            return
        ex.oblige(st, 'result_of_the_handler_is_returned_unchanged', st.box(outcome[1]) == Val.ref(self.result.e))

    def finish(self, ex, st0, outcomes, b):
        raised = {oc[1].cls for _, oc in outcomes if oc[0] == 'exc' and 'operation handler' in oc[1].origin}
        ex.oblige(st0, 'every_handler_exception_propagates', z3.BoolVal({'ValueError', 'RuntimeError', 'KeyError', '*'} <= raised),
                  info={'propagated': sorted(raised)})
