"""C12 - instances never share mutable state or alter the defaults of later instances."""
from __future__ import annotations

import ast

import z3

from pyvc.api import (FnCheck, ScanCheck, LoopSpec, Pure, Inline, register, Build, V, Val, SeqVal, IntS, RealS, BoolS,
                      StrS, NONE, Raise, Unsupported, fresh, vany, vint, vreal, vbool, vstr, vref, as_int, unbox_as,
                      truthy, field)
from pyvc.state import FRESH_BASE

XS = 'sdc11073.xml_types.xml_structure'
SHARED = ('_default_py_value', '_implied_py_value')


@register
class InitInstanceData(FnCheck):
    id = 'C12.init_instance_data'
    prop = 'C12'
    target = f'{XS}:_XmlStructureBaseProperty.init_instance_data'
    optional_fields = ('_default_py_value',)
    doc = ('init_instance_data: what is stored into a new instance is copy.deepcopy of the descriptor\'s default - a '
           'fresh object, never the default itself; nothing is stored when there is no default; the descriptor is not '
           'written')
    trusted = ('copy.deepcopy returns a structure disjoint from its argument',)

    def setup(self, b):
        self.has = b.bool('has_default')
        self.dflt = b.obj('default_object')
        self.o = b.obj('self', cls=(XS, '_XmlStructureBaseProperty'), _local_var_name=b.str('local_var_name'),
                       _default_py_value=vany(z3.If(self.has.e, Val.ref(self.dflt.e), Val.none), maybe_none=True))
        self.inst = b.obj('instance')
        return self.o, [self.inst], {}

    def callees(self, ex):
        def deep(ex_, st, args, kwargs):
            r = st.alloc('DeepCopy')
            st.ghost['deep'] = (r.e, st.box(args[0]))
            return r

        def setattr_(ex_, st, args, kwargs):
            st.ghost['sets'] = st.ghost.get('sets', ()) + ((st.box(args[0]), st.box(args[1]), st.box(args[2])),)
            return NONE
        return {'copy.deepcopy': Pure(deep, name='copy.deepcopy', trusted=True), 'setattr': Pure(setattr_, name='setattr')}

    def post(self, ex, st0, st, outcome, b):
        if outcome[0] == 'exc':
            ex.oblige(st, 'never_raises', z3.BoolVal(False))
            return
        sets = st.ghost.get('sets', ())
        ex.oblige(st, 'stores_iff_default_exists', z3.BoolVal(len(sets) == 1) == self.has.e)
        if sets:
            deep = st.ghost.get('deep')
            ex.oblige(st, 'stored_value_is_a_deep_copy_of_the_default', z3.BoolVal(deep is not None) if deep is None else z3.And(
                sets[0][0] == Val.ref(self.inst.e), sets[0][2] == Val.ref(deep[0]), deep[1] == Val.ref(self.dflt.e),
                sets[0][2] != Val.ref(self.dflt.e)))
        ex.oblige(st, 'descriptor_default_untouched', field(st, self.o, '_default_py_value') == field(st0, self.o, '_default_py_value'))


def _uses(fn):
    """(attr, node, parent chain) for every load of self._default_py_value / self._implied_py_value in fn."""
    parents = {}
    for p in ast.walk(fn):
        for c in ast.iter_child_nodes(p):
            parents[id(c)] = p
    out = []
    for n in ast.walk(fn):
        if isinstance(n, ast.Attribute) and n.attr in SHARED and isinstance(n.value, ast.Name) and n.value.id == 'self':
            chain = []
            cur = n
            while id(cur) in parents:
                cur = parents[id(cur)]
                chain.append(cur)
            out.append((n.attr, n, chain))
    return out


def _is_deepcopy(call):
    return isinstance(call, ast.Call) and ast.unparse(call.func) in ('copy.deepcopy', 'deepcopy')


@register
class SharedDefaultFlow(ScanCheck):
    id = 'C12.shared_default_flow'
    prop = 'C12'
    doc = ('every property-descriptor class in xml_structure.py (exhaustive scan of all methods): the descriptor-level '
           'objects _default_py_value / _implied_py_value are written only in __init__; in the methods that produce '
           'instance values (get_py_value_from_node, init_instance_data, update_from_node) a default is only ever used '
           'as the argument of copy.deepcopy or compared with None; __get__ may return the implied value, which must '
           'therefore be immutable ([F] C12.implied_values_immutable)')

    PRODUCERS = ('get_py_value_from_node', 'init_instance_data', 'update_from_node')

    def scan(self, repo):
        mod = repo.module(XS)
        out = []
        n_classes = 0
        for cdef in mod.classes.values():
            n_classes += 1
            for fn in [n for n in cdef.body if isinstance(n, ast.FunctionDef)]:
                # writes
                for n in ast.walk(fn):
                    if isinstance(n, (ast.Assign, ast.AugAssign, ast.AnnAssign)):
                        tgts = n.targets if isinstance(n, ast.Assign) else [n.target]
                        for t in tgts:
                            if isinstance(t, ast.Attribute) and t.attr in SHARED:
                                out.append((f'write.{cdef.name}.{fn.name}.{t.attr}', fn.name == '__init__',
                                            {'line': n.lineno}))
                seen = {}
                for attr, node, chain in sorted(_uses(fn), key=lambda u: (u[1].lineno, u[1].col_offset)):
                    if isinstance(node.ctx, ast.Store):
                        continue
                    k = seen[attr] = seen.get(attr, 0) + 1
                    parent = chain[0] if chain else None
                    safe_compare = isinstance(parent, ast.Compare) and all(isinstance(o, (ast.Is, ast.IsNot)) for o in parent.ops)
                    in_deepcopy = isinstance(parent, ast.Call) and _is_deepcopy(parent) and node in parent.args
                    if fn.name in self.PRODUCERS:
                        out.append((f'use.{cdef.name}.{fn.name}.{attr}.{k}', safe_compare or in_deepcopy,
                                    {'line': node.lineno, 'how': ast.unparse(parent)[:80] if parent else ''}))
                    elif fn.name == '__get__':
                        # returning the implied value is the documented behaviour; a default must not be returned
                        out.append((f'use.{cdef.name}.__get__.{attr}.{k}',
                                    attr == '_implied_py_value' or safe_compare or in_deepcopy, {'line': node.lineno}))
                    elif fn.name != '__init__' and attr == '_default_py_value':
                        # any other method (__set__, update_xml_value, ...): the shared default object may be compared
                        # (is / == / in a condition) or deep-copied, never stored, returned or passed on
                        in_test = isinstance(parent, (ast.Compare, ast.BoolOp, ast.UnaryOp, ast.If, ast.IfExp)) and \
                            not (isinstance(parent, ast.IfExp) and node in (parent.body, parent.orelse))
                        # reading it into a local is fine in a method that cannot store anything into an instance
                        stores = any((isinstance(c, ast.Call) and ((isinstance(c.func, ast.Name) and c.func.id == 'setattr')
                                                                   or (isinstance(c.func, ast.Attribute) and c.func.attr in ('__set__', '__setattr__'))))
                                     or (isinstance(c, ast.Attribute) and isinstance(c.ctx, ast.Store) and isinstance(c.value, ast.Name)
                                         and c.value.id in ('instance', 'self')) for c in ast.walk(fn))
                        local_read = isinstance(parent, ast.Assign) and all(isinstance(t, ast.Name) for t in parent.targets) \
                            and not stores and not any(isinstance(c, ast.Return) and c.value is not None
                                                   and not (isinstance(c.value, ast.Constant) and c.value.value is None) for c in ast.walk(fn))
                        out.append((f'use.{cdef.name}.{fn.name}.{attr}.{k}', in_test or in_deepcopy or local_read,
                                    {'line': node.lineno, 'how': ast.unparse(parent)[:80] if parent else ''}))
        out.append(('classes_scanned', n_classes > 30, {'classes': n_classes}))
        return out


# --------------------------------------------------------------------------------------------------------------------
# "containers obtained independently never share mutable state": update_from_other_container hands every member over
# as a copy - whatever its value (an empty list is as mutable as a full one). Proved under C01, re-checked here.
from contracts import C01 as _c01   # noqa: E402


def _rereg_c12(base, new_id, doc):
    cls = type('C12_' + base.__name__, (base,), {'id': new_id, 'prop': 'C12', 'doc': doc})
    register(cls)


_rereg_c12(_c01.UpdateFromOther, 'C12.update_from_other_hands_over_copies',
           'ContainerBase._update_from_other (C01.update_from_other re-checked): every member that is not skipped is '
           'written to self as copy.copy of the value read from the other container - for EVERY value (a short cut for '
           'falsy values would hand an empty list over by reference), and nothing of the other container is written')


@register
class NoCustomCopyHooks(ScanCheck):
    id = 'C12.no_custom_copy_hooks_in_data_types'
    prop = 'C12'
    doc = ('frame: no class of the data-type / container modules (xml_types/*, mdib/*containers*, mdib/containerbase) '
           'defines __deepcopy__, __copy__, __reduce__, __reduce_ex__, __getstate__ or __setstate__: copy.deepcopy - on '
           'which mk_copy, the entity getters and the default-value isolation rest - copies these objects member by member '
           'at every depth; a hand-written copy hook could re-use nested objects (the only hooks in the package are those '
           'of xml_utils.QName, an immutable value)')

    HOOKS = {'__deepcopy__', '__copy__', '__reduce__', '__reduce_ex__', '__getstate__', '__setstate__'}

    def scan(self, repo):
        import os
        found, n = [], 0
        root = os.path.join(repo.roots[0], 'sdc11073')
        for sub in ('xml_types', 'mdib'):
            for fn in sorted(os.listdir(os.path.join(root, sub))):
                if not fn.endswith('.py') or (sub == 'mdib' and 'container' not in fn):
                    continue
                n += 1
                with open(os.path.join(root, sub, fn)) as f:
                    tree = ast.parse(f.read())
                for node in ast.walk(tree):
                    if isinstance(node, (ast.FunctionDef, ast.AsyncFunctionDef)) and node.name in self.HOOKS:
                        found.append((f'{sub}/{fn}', node.name, node.lineno))
                    if isinstance(node, ast.Assign) and any(isinstance(t, ast.Name) and t.id in self.HOOKS for t in node.targets):
                        found.append((f'{sub}/{fn}', ast.unparse(node.targets[0]), node.lineno))
        return [('modules_scanned', n >= 10, {'n': n}),
                ('no_copy_hook_defined', not found, {'found': str(found)[:300]})]
