"""C17 - HTTP body framing and content coding are lossless and honour negotiation."""
from __future__ import annotations

import z3

from pyvc.api import (FnCheck, LoopSpec, Pure, Inline, register, Build, V, Val, SeqVal, IntS, RealS, BoolS, StrS, NONE,
                      Raise, Unsupported, fresh, vany, vint, vbool, vbytes, vstr, vref, as_int, unbox_as)
from pyvc import models
from . import streams

RD = 'sdc11073.httpserver.httpreader'
RH = 'sdc11073.httpserver.httprequesthandler'
CRLF = z3.StringVal('\r\n')


def hexf(n):
    return models.uf('fmt_hex', IntS, StrS)(n)


def chunks_spec():
    """HTTP/1.1 chunked coding of body b with chunk size c (RFC 9112 section 7.1), as a recursive spec function."""
    f = z3.RecFunction('chunks', StrS, IntS, StrS)
    b, c = z3.String('b'), z3.Int('c')
    n = z3.If(z3.Length(b) < c, z3.Length(b), c)
    z3.RecAddDefinition(f, [b, c], z3.If(
        z3.Length(b) == 0, z3.StringVal('0\r\n\r\n'),
        z3.Concat(hexf(n), CRLF, z3.SubString(b, 0, n), CRLF, f(z3.SubString(b, n, z3.Length(b) - n), c))))
    return f


def bytesio_summaries():
    def ctor(ex, st, args, kwargs):
        o = st.alloc('BytesIO')
        st.write_field(o, '__buf__', args[0] if args else vbytes(b''))
        return o

    def write(ex, st, args, kwargs):
        recv = st.ghost.get('c:bytesio')
        cur = unbox_as(st.read_field(recv, '__buf__'), 'bytes')
        data = ex.concrete_kind(st, args[0], ('bytes',))
        if data.kind != 'bytes':
            raise Unsupported('BytesIO.write(non-bytes)')
        st.write_field(recv, '__buf__', vbytes(z3.Concat(cur.e, data.e)))
        return vint(z3.Length(data.e))

    def getvalue(ex, st, args, kwargs):
        recv = st.ghost.get('c:bytesio')
        return unbox_as(st.read_field(recv, '__buf__'), 'bytes')
    return ctor, write, getvalue


@register
class MkChunks(FnCheck):
    id = 'C17.mk_chunks'
    prop = 'C17'
    target = f'{RD}:mk_chunks'
    doc = ('mk_chunks(body, c) for c >= 1 returns exactly the HTTP/1.1 chunked coding chunks(body, c) (hex size CRLF '
           'data CRLF ..., all data chunks non-empty, terminated by 0 CRLF CRLF); terminates; never raises')
    trusted = ('format(n, "x") is an uninterpreted hex numeral with hex(0) == "0"',
               'str.encode() of hex digits + CRLF is the identity (ASCII)', 'io.BytesIO.write appends, getvalue returns the buffer')

    def setup(self, b):
        st = b.st
        self.body = b.bytes('body')
        self.c = b.int('chunk_size')
        st.assume(self.c.e >= 1)
        self.chunks = chunks_spec()
        st.assume(hexf(z3.IntVal(0)) == z3.StringVal('0'))
        n = z3.Int('n!enc')
        enc = models.uf('str_encode', StrS, StrS)
        st.assume(z3.ForAll([n], enc(z3.Concat(hexf(n), CRLF)) == z3.Concat(hexf(n), CRLF)))
        return None, [self.body, self.c], {}

    def callees(self, ex):
        def ctor(ex_, st, args, kwargs):
            o = st.alloc('BytesIO')
            st.write_field(o, '__buf__', vbytes(b''))
            st.ghost['c:bytesio'] = o
            return o
        _, write, getvalue = bytesio_summaries()
        return {'io.BytesIO': Pure(ctor, name='BytesIO()', trusted=True),
                '*.write': Pure(write, name='BytesIO.write', trusted=True),
                '*.getvalue': Pure(getvalue, name='BytesIO.getvalue', trusted=True)}

    def _buf(self, st):
        return unbox_as(st.read_field(st.ghost['c:bytesio'], '__buf__'), 'bytes').e

    def loops(self, ex):
        def inv(ex_, st, env):
            tail = ex_.concrete_kind(st, st.locals['tail'], ('bytes',))
            if tail.kind != 'bytes':
                return z3.And(Val.is_bytes(tail.e),
                              z3.Concat(self._buf(st), self.chunks(Val.y(tail.e), self.c.e)) == self.chunks(self.body.e, self.c.e))
            return z3.Concat(self._buf(st), self.chunks(tail.e, self.c.e)) == self.chunks(self.body.e, self.c.e)

        def variant(ex_, st, env):
            tail = ex_.concrete_kind(st, st.locals['tail'], ('bytes',))
            e = tail.e if tail.kind == 'bytes' else Val.y(tail.e)
            return z3.Length(e) + 1
        return {0: LoopSpec(inv=inv, variant=variant, havoc_heap=['f:__buf__'])}

    def post(self, ex, st0, st, outcome, b):
        if outcome[0] == 'exc':
            ex.oblige(st, 'never_raises', z3.BoolVal(False), info={'exc': repr(outcome[1])})
            return
        r = ex.concrete_kind(st, outcome[1], ('bytes',))
        ex.oblige(st, 'result_is_chunked_coding', r.e == self.chunks(self.body.e, self.c.e) if r.kind == 'bytes'
                  else z3.BoolVal(False))


@register
class CompressIfSupported(FnCheck):
    id = 'C17.compress_choice'
    prop = 'C17'
    target = f'{RH}:DispatchingRequestHandler._compress_if_supported'
    doc = ('the response coding is the first member of the parsed Accept-Encoding list that is enabled locally: '
           'Content-Encoding is sent at most once, only for a coding in accepted AND supported, the body is then '
           'compress(coding, body); otherwise the body is unchanged and no accepted coding is supported')
    container_hints = {'accepted_enc': 'list'}

    def setup(self, b):
        st = b.st
        self.body = b.bytes('response_bytes')
        self.acc = z3.Const('accepted', SeqVal)
        self.supported = z3.Const('supported', z3.ArraySort(Val, BoolS))
        # the locally enabled codings: a list object (for code that walks it) whose members are exactly `supported`
        self.sup_seq = z3.Const('supported_seq', SeqVal)
        sup_list = b.obj('supported_encodings')
        st.assume(z3.Select(st.get_arr('C'), sup_list.e) == b.ex.ctx.builtin_class_ids['list'])
        st.assume(z3.Select(st.get_arr('L'), sup_list.e) == self.sup_seq)
        x, jx = z3.Const('x!sup', Val), z3.Int('j!sup')
        st.assume(z3.ForAll([jx], z3.Implies(z3.And(0 <= jx, jx < z3.Length(self.sup_seq)), z3.Select(self.supported, self.sup_seq[jx]))))
        st.assume(z3.ForAll([x], z3.Implies(z3.Select(self.supported, x), z3.Contains(self.sup_seq, z3.Unit(x)))))
        server = b.obj('server', supported_encodings=sup_list)
        slf = b.obj('self', cls=(RH, 'DispatchingRequestHandler'), server=server)
        b.distinct(slf, server, sup_list)
        self.compress = z3.Function('compress', Val, StrS, StrS)
        st.ghost['hdr_n'] = z3.IntVal(0)
        st.ghost['hdr_enc'] = Val.none
        return slf, [self.body], {}

    def callees(self, ex):
        def parse_header(ex_, st, args, kwargs):
            r = st.alloc('list')
            st.set_list_seq(r, self.acc)
            return r

        def contains_supported(ex_, st, args, kwargs):
            return vbool(z3.Select(self.supported, st.box(args[0])))

        def compress(ex_, st, args, kwargs):
            payload = ex_.concrete_kind(st, args[1], ('bytes',))
            return vbytes(self.compress(st.box(args[0]), payload.e))

        def send_header(ex_, st, args, kwargs):
            name = z3.simplify(args[0].e) if args[0].kind == 'str' else None
            if name is not None and z3.is_string_value(name) and name.as_string().lower() == 'content-encoding':
                st.ghost['hdr_n'] = st.ghost['hdr_n'] + 1
                st.ghost['hdr_enc'] = st.box(args[1])
            return NONE
        return {
            'sdc11073.httpserver.compression:CompressionHandler.parse_header':
                Pure(parse_header, name='parse_header -> accepted list (contract: C17.parse_header [B])'),
            'sdc11073.httpserver.compression:CompressionHandler.compress_payload':
                Pure(compress, name='compress_payload = uninterpreted compress(coding, body)', trusted=True),
            '*.send_header': Pure(send_header, name='send_header (ghost: Content-Encoding headers)'),
            '*.get': Pure(lambda ex_, st, a, k: vany(fresh(Val, 'hdr')), name='headers.get'),
        }

    def hooks(self, ex):
        # `x in self.server.supported_encodings` : membership in an abstract set
        ex.ctx.membership['self.server.supported_encodings'] = lambda st, item: z3.Select(self.supported, item)
        return None

    def loops(self, ex):
        def inv(ex_, st, env):
            k, seq = env['_k'], env['_seq']
            j = z3.Int('j!acc')
            rb = ex_.concrete_kind(st, st.locals['response_bytes'], ('bytes',))
            rbe = rb.e if rb.kind == 'bytes' else Val.y(rb.e)
            return z3.And(z3.ForAll([j], z3.Implies(z3.And(0 <= j, j < k), z3.Not(z3.Select(self.supported, seq[j])))),
                          st.ghost['hdr_n'] == 0, rbe == self.body.e,
                          *([Val.is_bytes(rb.e)] if rb.kind != 'bytes' else []))
        return {0: LoopSpec(inv=inv, havoc_heap=[])}

    def post(self, ex, st0, st, outcome, b):
        if outcome[0] == 'exc':
            return
        r = ex.concrete_kind(st, outcome[1], ('bytes',))
        n, enc = st.ghost['hdr_n'], st.ghost['hdr_enc']
        jj = z3.Int('j!has')
        acc_has = lambda e: z3.Exists([jj], z3.And(0 <= jj, jj < z3.Length(self.acc), self.acc[jj] == e))   # noqa: E731
        ex.oblige(st, 'at_most_one_content_encoding', n <= 1)
        ex.oblige(st, 'coding_accepted_and_enabled', z3.Implies(n == 1, z3.And(acc_has(enc), z3.Select(self.supported, enc))))
        ex.oblige(st, 'body_is_compressed_with_announced_coding',
                  z3.Implies(n == 1, r.e == self.compress(enc, self.body.e)) if r.kind == 'bytes' else z3.BoolVal(False))
        j = z3.Int('j!post')
        ex.oblige(st, 'identity_only_if_nothing_acceptable', z3.Implies(n == 0, z3.And(
            r.e == self.body.e if r.kind == 'bytes' else z3.BoolVal(False),
            z3.ForAll([j], z3.Implies(z3.And(0 <= j, j < z3.Length(self.acc)),
                                      z3.Not(z3.Select(self.supported, self.acc[j])))))))


class _ReadBody(FnCheck):
    prop = 'C17'
    hdr_callee = '*.get'

    def setup(self, b):
        st = b.st
        cls = V('class', py=(RD, 'HTTPReader'))
        self.msg = b.obj('http_message')
        self.sup = b.any('supported_encodings', maybe_none=True)
        self.sup_set = z3.Const('sup_set', z3.ArraySort(Val, BoolS))
        self.avail_set = z3.Const('avail_set', z3.ArraySort(Val, BoolS))
        self.decomp = z3.Function('decompress', Val, Val, Val)
        self.hdr = z3.Function('header', StrS, Val)
        st.ghost['n_decompress'] = z3.IntVal(0)
        st.ghost['rem'] = z3.String('stream_bytes')
        # headers are None or str
        for k in ('transfer-encoding', 'content-length', 'content-encoding'):
            h = self.hdr(z3.StringVal(k))
            st.assume(z3.Or(Val.is_none(h), Val.is_str(h)))
        # the optional argument is None or a list
        st.assume(z3.Or(Val.is_none(self.sup.e), z3.And(Val.is_ref(self.sup.e),
                  z3.Select(st.get_arr('C'), Val.oid(self.sup.e)) == b.ex.ctx.builtin_class_ids['list'])))
        st.assume(z3.Implies(Val.is_ref(self.sup.e), z3.And(Val.oid(self.sup.e) > 0, Val.oid(self.sup.e) < 10 ** 9)))
        # a non-empty list has a member (link between the abstract set and truthiness)
        x = z3.Const('x!m', Val)
        st.assume(z3.Implies(z3.And(Val.is_ref(self.sup.e), z3.Length(z3.Select(st.get_arr('L'), Val.oid(self.sup.e))) == 0),
                             z3.ForAll([x], z3.Not(z3.Select(self.sup_set, x)))))
        return cls, [self.msg, self.sup], {}

    def hooks(self, ex):
        ex.ctx.membership['supported_encodings'] = lambda st, item: z3.Select(self.sup_set, item)
        ex.ctx.membership['CompressionHandler.available_encodings'] = lambda st, item: z3.Select(self.avail_set, item)
        return None

    def callees(self, ex):
        def get_header(ex_, st, args, kwargs):
            name = args[0]
            v = vany(self.hdr(name.e), maybe_none=True)
            return v

        def read_all(ex_, st, args, kwargs):
            return vany(fresh(Val, 'body'))

        def dechunk(ex_, st, args, kwargs):
            return [(st.fork(), Raise(ex_.mk_exc('DechunkError', 'dechunk'))), (st, vany(fresh(Val, 'dechunked')))]

        def decompress(ex_, st, args, kwargs):
            st.ghost['n_decompress'] = st.ghost['n_decompress'] + 1
            st.ghost['dec_args'] = (st.box(args[0]), st.box(args[1]))
            return [(st.fork(), Raise(ex_.mk_exc('zlib.error', 'decompress'))),
                    (st, vany(self.decomp(st.box(args[0]), st.box(args[1]))))]
        return {
            self.hdr_callee: Pure(get_header, name='header lookup (uninterpreted)'),
            '*.read': Pure(read_all, name='stream.read -> bytes', raises=('OSError',)),
            f'{RD}:HTTPReader._read_dechunk': Pure(dechunk, name='_read_dechunk contract (C13.dechunk_terminates)'),
            'sdc11073.httpserver.compression:CompressionHandler.decompress_payload':
                Pure(decompress, name='decompress_payload (uninterpreted; may raise on corrupt data)', trusted=True),
        }

    def post(self, ex, st0, st, outcome, b):
        enc = self.hdr(z3.StringVal('content-encoding'))
        enc_given = z3.And(Val.is_str(enc), z3.Length(Val.s(enc)) > 0)
        use_sup = z3.And(Val.is_ref(self.sup.e), z3.Length(z3.Select(st0.get_arr('L'), Val.oid(self.sup.e))) > 0)
        member = z3.If(use_sup, z3.Select(self.sup_set, enc), z3.Select(self.avail_set, enc))
        n = st.ghost['n_decompress']
        if outcome[0] == 'ret':
            ex.oblige(st, 'unsupported_coding_never_accepted', z3.Implies(enc_given, member))
            ex.oblige(st, 'decoded_with_announced_coding', z3.Implies(enc_given, z3.And(
                n == 1, st.box(outcome[1]) == self.decomp(enc, st.ghost.get('dec_args', (enc, Val.none))[1]),
                st.ghost.get('dec_args', (Val.none, Val.none))[0] == enc)))
            ex.oblige(st, 'identity_when_no_coding', z3.Implies(z3.Not(enc_given), n == 0))
        elif outcome[1].cls == 'DecompressError':
            ex.oblige(st, 'reject_only_unsupported', z3.And(enc_given, z3.Not(member), n == 0))


@register
class ReadRequestBody(_ReadBody):
    id = 'C17.read_request_body'
    target = f'{RD}:HTTPReader.read_request_body'
    doc = ('request side: a Content-Encoding that is not enabled raises DecompressError without calling any decoder; '
           'an enabled one is decoded exactly once with the announced coding; no Content-Encoding => no decoding')


@register
class ReadResponseBody(_ReadBody):
    id = 'C17.read_response_body'
    target = f'{RD}:HTTPReader.read_response_body'
    hdr_callee = '*.getheader'

    def loops(self, ex):
        # the read-until-EOF loop only appends to its own fresh list: the caller's list argument is untouched (frame)
        def inv(ex_, st, env):
            e = env['_entry']
            oid = Val.oid(self.sup.e)
            return z3.And(z3.Implies(Val.is_ref(self.sup.e),
                                     z3.Select(st.get_arr('L'), oid) == z3.Select(e.get_arr('L'), oid)),
                          st.ghost['n_decompress'] == 0)
        return {0: LoopSpec(inv=inv, havoc_heap=['L'])}
    doc = 'response side: same obligations as C17.read_request_body'


# ---------------------------------------------------------------------------------------------------------------
# "enabled locally" is a live configuration: provider / consumer own one list of enabled codings, hand that very list
# to their http server and soap clients, and set_used_compression() changes it in place. The coding choice proved above
# (C17.compress_choice, C17.read_*_body) speaks about the *current* configuration only if nobody takes a private copy.
HS = 'sdc11073.httpserver.httpserverimpl'
SC = 'sdc11073.pysoap.soapclient'


class _KeepsTheList(FnCheck):
    prop = 'C17'
    opaque_ok = True
    tag = 'S'
    stable_fields = ('supported_encodings',)
    arg_names: tuple = ()
    cls = None

    def setup(self, b):
        ids = b.ex.ctx.builtin_class_ids
        self.enc = b.obj('supported_encodings')
        b.st.assume(z3.Select(b.st.get_arr('C'), self.enc.e) == ids['list'])
        self.seq0 = z3.Select(b.st.get_arr('L'), self.enc.e)
        self.o = b.obj('self', cls=self.cls)
        b.distinct(self.o, self.enc)
        kwargs = {}
        args = []
        for n in self.arg_names:
            if n == 'supported_encodings':
                args.append(self.enc)
            else:
                args.append(b.any(n))
        return self.o, args, kwargs

    def post(self, ex, st0, st, outcome, b):
        if outcome[0] == 'exc':
            return
        ex.oblige(st, 'keeps_the_callers_list_object', field(st, self.o, 'supported_encodings') == Val.ref(self.enc.e))


from pyvc.api import field, truthy   # noqa: E402
from pyvc.state import FRESH_BASE   # noqa: E402


@register
class HttpServerKeepsList(_KeepsTheList):
    id = 'C17.http_server_uses_live_configuration'
    cls = (HS, '_ThreadingHTTPServer')
    target = f'{HS}:_ThreadingHTTPServer.__init__'
    arg_names = ('logger', 'server_address', 'chunk_size', 'supported_encodings')
    doc = ('_ThreadingHTTPServer.__init__ stores the very list object it is given as supported_encodings (no copy, no '
           'conversion): later in-place changes of the enabled codings are seen by the request handlers')


@register
class HttpServerThreadKeepsList(_KeepsTheList):
    id = 'C17.http_server_thread_uses_live_configuration'
    cls = (HS, 'HttpServerThreadBase')
    target = f'{HS}:HttpServerThreadBase.__init__'
    arg_names = ('my_ipaddress', 'ssl_context', 'supported_encodings', 'logger')
    doc = 'HttpServerThreadBase.__init__ stores the very list object it is given as supported_encodings'


@register
class SoapClientKeepsList(_KeepsTheList):
    id = 'C17.soap_client_uses_live_configuration'
    cls = (SC, 'SoapClient')
    target = f'{SC}:SoapClient.__init__'
    arg_names = ('netloc', 'socket_timeout', 'logger', 'ssl_context', 'sdc_definitions', 'msg_reader', 'supported_encodings')
    doc = 'SoapClient.__init__ stores the very list object it is given as supported_encodings (when one is given)'


@register
class HttpServerThreadPassesList(FnCheck):
    id = 'C17.http_server_thread_passes_live_configuration'
    prop = 'C17'
    opaque_ok = True
    tag = 'S'
    target = f'{HS}:HttpServerThreadBase.run'
    doc = 'HttpServerThreadBase.run creates the http server with the list object stored in self.supported_encodings'

    def setup(self, b):
        self.enc = b.obj('supported_encodings')
        self.o = b.obj('self', cls=(HS, 'HttpServerThreadBase'), supported_encodings=self.enc)
        b.distinct(self.o, self.enc)
        b.st.ghost['srv'] = ()
        return self.o, [], {}

    def callees(self, ex):
        def server(ex_, st, args, kwargs):
            enc = kwargs.get('supported_encodings', args[3] if len(args) > 3 else None)
            st.ghost['srv'] = st.ghost['srv'] + ((st.box(enc) if enc is not None else None),)
            return [(st.fork(), Raise(ex_.mk_exc('OSError', 'bind'))), (st, st.alloc('HTTPServer'))]
        return {f'{HS}:_ThreadingHTTPServer': Pure(server, name='_ThreadingHTTPServer(...) (C17.http_server_uses_live_configuration)')}

    def post(self, ex, st0, st, outcome, b):
        srv = st.ghost['srv']
        if outcome[0] == 'exc' and not srv:
            return
        ex.oblige(st, 'server_created_with_the_stored_list', z3.BoolVal(False) if len(srv) != 1 or srv[0] is None
                  else srv[0] == Val.ref(self.enc.e))


def _mk_set_used_compression(qual, cid, who):
    class SetUsedCompression(FnCheck):
        id = cid
        prop = 'C17'
        target = qual
        doc = (f'{who}.set_used_compression(*codings) changes the list of enabled codings in place: the list object '
               'shared with the http server / soap clients stays the same and afterwards holds exactly the given codings')

        def setup(self, b):
            ids = b.ex.ctx.builtin_class_ids
            self.lst = b.obj('_compression_methods')
            b.st.assume(z3.Select(b.st.get_arr('C'), self.lst.e) == ids['list'])
            self.o = b.obj('self', _compression_methods=self.lst)
            b.distinct(self.o, self.lst)
            self.a, self.b_ = b.str('coding1'), b.str('coding2')
            return self.o, [self.a, self.b_], {}

        def post(self, ex, st0, st, outcome, b):
            if outcome[0] == 'exc':
                ex.oblige(st, 'never_raises', z3.BoolVal(False), info={'exc': repr(outcome[1])})
                return
            ex.oblige(st, 'same_list_object', field(st, self.o, '_compression_methods') == Val.ref(self.lst.e))
            ex.oblige(st, 'list_holds_exactly_the_given_codings', st.list_seq(self.lst) == z3.Concat(
                z3.Unit(Val.str(self.a.e)), z3.Unit(Val.str(self.b_.e))))
    SetUsedCompression.__name__ = 'SetUsedCompression_' + who
    return SetUsedCompression


register(_mk_set_used_compression('sdc11073.provider.providerimpl:SdcProvider.set_used_compression',
                                  'C17.provider_set_used_compression', 'SdcProvider'))
register(_mk_set_used_compression('sdc11073.consumer.consumerimpl:SdcConsumer.set_used_compression',
                                  'C17.consumer_set_used_compression', 'SdcConsumer'))


# ---------------------------------------------------------------------------------------------------------------
# the coding registry: a coding name selects the handler registered under exactly that (case-insensitive) name
CH = 'sdc11073.httpserver.compression'


class _Registry(FnCheck):
    prop = 'C17'
    container_hints = {'CompressionHandler.handlers': 'dict', 'cls.handlers': 'dict'}

    def setup_registry(self, b):
        st = b.st
        self.alg = b.str('algorithm')
        self.lower = models.uf('str_lower', StrS, StrS)
        return V('class', py=(CH, 'CompressionHandler'))

    def registry(self, ex, st):
        """(domain, values) of the class-level handlers dict as the engine names it"""
        mod = ex.repo.module(CH)
        v = ex.eval_constant(mod, ex.repo.class_attr(CH, 'CompressionHandler', 'handlers')[1],
                             f'{CH}:CompressionHandler.handlers', 'CompressionHandler.handlers', None)
        return z3.Select(st.get_arr('DK'), v.e), z3.Select(st.get_arr('DV'), v.e)


@register
class GetHandler(_Registry):
    id = 'C17.get_handler'
    target = f'{CH}:CompressionHandler.get_handler'
    doc = ('get_handler(coding): returns the handler registered under the lower-cased coding name, and only that one; a '
           'coding without registered handler raises CompressionError (the message is then rejected, never decoded with '
           'another coding)')
    trusted = ('str.lower is a function',)

    def setup(self, b):
        cls = self.setup_registry(b)
        return cls, [self.alg], {}

    def post(self, ex, st0, st, outcome, b):
        dk, dv = self.registry(ex, st0)
        key = Val.str(self.lower(self.alg.e))
        known = z3.And(z3.Select(dk, key), truthy(vany(z3.Select(dv, key)), st0))
        if outcome[0] == 'exc':
            ex.oblige(st, 'only_compression_error', z3.BoolVal(outcome[1].cls == 'CompressionError'), info={'exc': repr(outcome[1])})
            ex.oblige(st, 'rejected_only_without_registered_handler', z3.Not(known))
            return
        ex.oblige(st, 'returns_the_handler_registered_for_that_coding', z3.And(known, st.box(outcome[1]) == z3.Select(dv, key)))


def _mk_codec(fn):
    class Codec(_Registry):
        id = f'C17.{fn}'
        target = f'{CH}:CompressionHandler.{fn}'
        doc = (f'CompressionHandler.{fn}(coding, payload): the result is what the handler selected by get_handler(coding) '
               f'(C17.get_handler) returns for exactly this payload; an unknown coding raises CompressionError before any '
               'handler is touched')

        def setup(self, b):
            cls = self.setup_registry(b)
            self.payload = b.bytes('payload')
            self.F = z3.Function('handler_' + fn, Val, StrS, StrS)
            b.st.ghost['calls'] = ()
            return cls, [self.alg, self.payload], {}

        def callees(self, ex):
            def get_handler(ex_, st, args, kwargs):
                h = st.alloc('Handler')
                st.ghost['c:handler'] = h
                st.ghost['c:asked'] = st.box(args[0])
                return [(st.fork(), Raise(ex_.mk_exc('CompressionError', 'get_handler'))), (st, h)]

            def codec(ex_, st, args, kwargs):
                p = ex_.concrete_kind(st, args[0], ('bytes',))
                st.ghost['calls'] = st.ghost['calls'] + ((st.ghost.get('c:recv'), st.box(args[0])),)
                return vbytes(self.F(st.ghost.get('c:recv'), p.e)) if p.kind == 'bytes' else vany(fresh(Val, 'out'))
            return {f'{CH}:CompressionHandler.get_handler': Pure(get_handler, name='get_handler (C17.get_handler)'),
                    f'*.{fn}': Pure(codec, name=f'handler.{fn} (zlib / lz4: trusted)', trusted=True)}

        def hooks(self, ex):
            class H:
                tracked_names = ()

                @staticmethod
                def on_call(ex_, st, fv, keys, args, kwargs, node):
                    if fv.t == 'method':
                        st.ghost['c:recv'] = st.box(fv.recv)
                    return None
            return H

        def post(self, ex, st0, st, outcome, b):
            calls = st.ghost['calls']
            if outcome[0] == 'exc':
                ex.oblige(st, 'unknown_coding_touches_no_handler', z3.BoolVal(len(calls) == 0 and outcome[1].cls == 'CompressionError'),
                          info={'exc': repr(outcome[1])})
                return
            h = st.ghost.get('c:handler')
            ok = len(calls) == 1 and h is not None
            ex.oblige(st, 'one_call_of_the_selected_handler_with_this_payload', z3.And(
                st.ghost['c:asked'] == Val.str(self.alg.e), calls[0][0] == Val.ref(h.e), calls[0][1] == Val.bytes(self.payload.e),
                st.box(outcome[1]) == Val.bytes(self.F(Val.ref(h.e), self.payload.e))) if ok else z3.BoolVal(False))
    Codec.__name__ = 'Codec_' + fn
    return Codec


register(_mk_codec('compress_payload'))
register(_mk_codec('decompress_payload'))


@register
class ClientRequestFraming(FnCheck):
    id = 'C17.client_request_framing'
    prop = 'C17'
    opaque_ok = True
    target = f'{SC}:SoapClient._send_soap_request'
    container_hints = {'self.request_encodings': 'list', 'self.supported_encodings': 'list'}
    xml_local = 'xml'
    self_cls = (SC, 'SoapClient')
    doc = ('SoapClient._send_soap_request, up to the moment the request is handed to the http connection: the header '
           'dict is built for THIS request (a new object - nothing of an earlier request can remain in it); '
           'Content-Encoding is present exactly when some coding the peer accepts (request_encodings) is enabled locally '
           '(supported_encodings), it names the FIRST such coding and the body is compress(that coding, xml); otherwise '
           'the xml goes out unchanged; the body is framed either by Content-Length = len(body) or, for a positive chunk '
           'size, as mk_chunks(body, size) with transfer-encoding: chunked - never both')

    def setup(self, b):
        st = b.st
        L = b.ex.ctx.builtin_class_ids['list']
        self.xml = b.bytes('xml')
        self.req = z3.Const('request_encodings', SeqVal)
        self.sup_seq = z3.Const('supported_seq', SeqVal)
        self.supported = z3.Const('supported', z3.ArraySort(Val, BoolS))
        req_list, sup_list = b.obj('request_encodings'), b.obj('supported_encodings')
        for o, s in ((req_list, self.req), (sup_list, self.sup_seq)):
            st.assume(z3.Select(st.get_arr('C'), o.e) == L)
            st.assume(z3.Select(st.get_arr('L'), o.e) == s)
        x, jx = z3.Const('x!sup', Val), z3.Int('j!sup')
        st.assume(z3.ForAll([jx], z3.Implies(z3.And(0 <= jx, jx < z3.Length(self.sup_seq)), z3.And(
            z3.Select(self.supported, self.sup_seq[jx]), Val.is_str(self.sup_seq[jx])))))
        st.assume(z3.ForAll([x], z3.Implies(z3.Select(self.supported, x), z3.Contains(self.sup_seq, z3.Unit(x)))))
        jr = z3.Int('j!req')
        st.assume(z3.ForAll([jr], z3.Implies(z3.And(0 <= jr, jr < z3.Length(self.req)), Val.is_str(self.req[jr]))))
        self.chunk = b.int('chunk_size')
        self.conn = b.obj('http_connection')
        self.o = b.obj('self', cls=self.self_cls, request_encodings=req_list, supported_encodings=sup_list,
                       _chunk_size=self.chunk, _http_connection=self.conn, _netloc=b.str('netloc'))
        b.distinct(self.o, req_list, sup_list, self.conn)
        self.compress = z3.Function('compress', Val, StrS, StrS)
        self.chunks = z3.Function('mk_chunks', StrS, IntS, StrS)
        self.first_fresh = None
        return self.o, [b.str('path'), self.xml, b.str('log_msg')], {}

    def callees(self, ex):
        def compress(ex_, st, args, kwargs):
            payload = ex_.concrete_kind(st, args[1], ('bytes',))
            return vbytes(self.compress(st.box(args[0]), payload.e))

        def chunks(ex_, st, args, kwargs):
            payload = ex_.concrete_kind(st, args[0], ('bytes',))
            return vbytes(self.chunks(payload.e, as_int(ex_, st, args[1])))

        def request(ex_, st, args, kwargs):
            st.ghost['c:request'] = (st.box(kwargs['body']), kwargs['headers'], st)
            return Raise(ex_.mk_exc('HTTPException', 'request handed over (end of the part under contract)'))

        def join(ex_, st, args, kwargs):
            return vstr(fresh(StrS, 'joined'))
        return {'sdc11073.httpserver.compression:CompressionHandler.compress_payload':
                Pure(compress, name='compress_payload = uninterpreted compress(coding, body) (C17.compress_payload)', trusted=True),
                f'{RD}:mk_chunks': Pure(chunks, name='mk_chunks = uninterpreted chunks(body, size) (C17.mk_chunks)'),
                f'{SC}:mk_chunks': Pure(chunks, name='mk_chunks = uninterpreted chunks(body, size) (C17.mk_chunks)'),
                'mk_chunks': Pure(chunks, name='mk_chunks = uninterpreted chunks(body, size) (C17.mk_chunks)'),
                '*.request': Pure(request, name='HTTPConnection.request(method, path, body=, headers=)'),
                '*.join': Pure(join, name='str.join'),
                f'{SC}:SoapClient._close_without_lock': Pure(lambda e, s, a, k: NONE, name='_close_without_lock'),
                'logging.getLogger': Pure(lambda e, s, a, k: s.alloc('Logger'), name='logging.getLogger')}

    def hooks(self, ex):
        ex.ctx.membership['self.supported_encodings'] = lambda st, item: z3.Select(self.supported, item)
        return None

    def loops(self, ex):
        def inv(ex_, st, env):
            k, seq = env['_k'], env['_seq']
            if seq is None:      # the loop does not walk a list the contract knows (request_encodings)
                return z3.BoolVal(False)
            j = z3.Int('j!acc')
            x = ex_.concrete_kind(st, st.locals[self.xml_local], ('bytes',))
            xe = x.e if x.kind == 'bytes' else Val.y(x.e)
            return z3.And(z3.ForAll([j], z3.Implies(z3.And(0 <= j, j < k), z3.Not(z3.Select(self.supported, seq[j])))),
                          xe == self.xml.e, *([Val.is_bytes(x.e)] if x.kind != 'bytes' else []))
        return {0: LoopSpec(inv=inv, havoc_heap=[])}

    def finish(self, ex, st0, outcomes, b):
        ex.oblige(st0, 'some_path_reaches_the_hand_over', z3.BoolVal(bool(getattr(self, '_reached', False))))

    def post(self, ex, st0, st, outcome, b):
        req = st.ghost.get('c:request')
        if req is None:
            # no request on this path: only acceptable when the function left with an exception before the hand-over
            # (e.g. the utf-8 assertion of the asynchronous client); a normal return without a request is not
            ex.oblige(st, 'request_is_handed_to_the_connection', z3.BoolVal(outcome[0] == 'exc'), info={'outcome': repr(outcome[1])})
            return
        self._reached = True
        ex.oblige(st, 'request_is_handed_to_the_connection', z3.BoolVal(True))
        body, headers, rst = req
        m = models
        hdr = ex.concrete_kind(rst, headers, ('ref',))
        ex.oblige(rst, 'header_dict_is_built_for_this_request', hdr.e >= FRESH_BASE if hdr.kind == 'ref' else z3.BoolVal(False))
        if hdr.kind != 'ref':
            return
        key = lambda s: vstr(z3.StringVal(s))   # noqa: E731
        has = lambda s: m.dict_has(rst, hdr, key(s))   # noqa: E731
        val = lambda s: m.dict_val(rst, hdr, key(s))   # noqa: E731
        j, i = z3.Int('j!p'), z3.Int('i!p')
        n = z3.Length(self.req)
        first = lambda jj: z3.And(0 <= jj, jj < n, z3.Select(self.supported, self.req[jj]),   # noqa: E731
                                  z3.ForAll([i], z3.Implies(z3.And(0 <= i, i < jj), z3.Not(z3.Select(self.supported, self.req[i])))))
        none_ok = z3.ForAll([i], z3.Implies(z3.And(0 <= i, i < n), z3.Not(z3.Select(self.supported, self.req[i]))))
        ce = has('Content-Encoding')
        ex.oblige(rst, 'content_encoding_iff_some_accepted_coding_is_enabled', ce == z3.Not(none_ok))
        ex.oblige(rst, 'content_encoding_names_the_first_acceptable_coding', z3.Implies(ce, z3.Exists([j], z3.And(
            first(j), val('Content-Encoding') == self.req[j]))))
        payload = z3.If(ce, self.compress(val('Content-Encoding'), self.xml.e), self.xml.e)
        chunked = self.chunk.e > 0
        ex.oblige(rst, 'body_is_the_announced_coding_of_the_xml_in_the_announced_framing', z3.And(
            Val.is_bytes(body), Val.y(body) == z3.If(chunked, self.chunks(payload, self.chunk.e), payload)))
        ex.oblige(rst, 'exactly_one_framing_header', z3.And(
            has('transfer-encoding') == chunked, has('Content-Length') == z3.Not(chunked),
            z3.Implies(chunked, val('transfer-encoding') == Val.str(z3.StringVal('chunked')))))
        ex.oblige(rst, 'content_length_is_the_length_of_the_body_sent', z3.Implies(z3.Not(chunked), z3.And(
            Val.is_str(val('Content-Length')), Val.s(val('Content-Length')) == models.uf('py_str_int', IntS, StrS)(z3.Length(payload)))))


@register
class AsyncClientRequestFraming(ClientRequestFraming):
    id = 'C17.async_client_request_framing'
    xml_local = 'xml_request'
    self_cls = ('sdc11073.pysoap.soapclient_async', 'SoapClientAsync')
    target = 'sdc11073.pysoap.soapclient_async:SoapClientAsync.async_post_message_to'
    doc = ('SoapClientAsync.async_post_message_to, up to the hand-over to the aiohttp session: same obligations as '
           'C17.client_request_framing (new header dict per request, Content-Encoding iff / first acceptable coding, '
           'body = announced coding of the serialised message, exactly one framing header)')

    def setup(self, b):
        o, args, kw = super().setup(b)
        msg = b.obj('created_message')
        return o, [args[0], msg], {}

    def callees(self, ex):
        d = super().callees(ex)

        def chunks(ex_, st, args, kwargs):
            payload = ex_.concrete_kind(st, args[0], ('bytes',))
            size = args[1] if len(args) > 1 else kwargs['chunk_size']
            return vbytes(self.chunks(payload.e, as_int(ex_, st, size)))

        def post(ex_, st, args, kwargs):
            st.ghost['c:post_kwargs'] = dict(kwargs)
            st.ghost['c:request'] = (st.box(kwargs['data']), kwargs['headers'], st)
            return Raise(ex_.mk_exc('ClientError', 'request handed over (end of the part under contract)'))
        A = 'sdc11073.pysoap.soapclient_async'
        d.update({'*.serialize': Pure(lambda e, s, a, k: self.xml, name='CreatedMessage.serialize() -> the xml'),
                  '*.post': Pure(post, name='ClientSession.post(path, data=, headers=)'),
                  f'{A}:mk_chunks': Pure(chunks, name='mk_chunks (C17.mk_chunks)'), 'mk_chunks': Pure(chunks, name='mk_chunks (C17.mk_chunks)'),
                  f'{RD}:mk_chunks': Pure(chunks, name='mk_chunks (C17.mk_chunks)'),
                  f'{A}:SoapClientAsync.is_closed': Pure(lambda e, s, a, k: vbool(False), name='is_closed (connected)'),
                  'time.perf_counter': Pure(lambda e, s, a, k: V('real', fresh(RealS, 't')), name='perf_counter')})
        return d


import ast as _ast   # noqa: E402
import builtins as _builtins   # noqa: E402
from pyvc.api import ScanCheck   # noqa: E402


@register
class CodecsAreStateless(ScanCheck):
    id = 'C17.codecs_are_stateless'
    prop = 'C17'
    doc = ('every coding handler (subclass of AbstractDataCompressor in httpserver/compression.py) is a pair of pure '
           'functions of the payload: compress_payload / decompress_payload are staticmethods whose bodies use only their '
           'parameter, locals created in the call, builtins and the codec libraries (zlib, lz4) - no class attribute, '
           'no module-level object, no global statement - and the class holds no state besides `algorithms`. So two '
           'messages coded at the same time (handler threads, notification threads) cannot influence each other; the '
           'round trip of ONE message through the library functions is the bounded check C17.coding_roundtrip')

    LIBS = {'zlib', 'lz4', 'gzip'}

    def scan(self, repo):
        mod = repo.module(CH)
        out, n = [], 0
        for cname, cd in mod.classes.items():
            if not any(_ast.unparse(b) == 'AbstractDataCompressor' for b in cd.bases):
                continue
            n += 1
            state = [(_ast.unparse(t)) for s in cd.body if isinstance(s, (_ast.Assign, _ast.AnnAssign))
                     for t in (s.targets if isinstance(s, _ast.Assign) else [s.target]) if _ast.unparse(t) != 'algorithms']
            out.append((f'{cname}.no_class_level_state', not state, {'attributes': str(state)}))
            for fname in ('compress_payload', 'decompress_payload'):
                fns = [f for f in cd.body if isinstance(f, _ast.FunctionDef) and f.name == fname]
                if not fns:
                    out.append((f'{cname}.{fname}.defined', False, {}))
                    continue
                fn = fns[0]
                static = any(_ast.unparse(d) == 'staticmethod' for d in fn.decorator_list)
                params = {a.arg for a in fn.args.args + fn.args.kwonlyargs}
                assigned = {t.id for s in _ast.walk(fn) if isinstance(s, (_ast.Assign, _ast.AnnAssign, _ast.AugAssign))
                            for t in _ast.walk(s.targets[0] if isinstance(s, _ast.Assign) else s.target) if isinstance(t, _ast.Name)}
                used = {x.id for x in _ast.walk(fn) if isinstance(x, _ast.Name) and isinstance(x.ctx, _ast.Load)}
                foreign = sorted(u for u in used if u not in params and u not in assigned and u not in self.LIBS
                                 and not hasattr(_builtins, u))
                scoped = any(isinstance(x, (_ast.Global, _ast.Nonlocal)) for x in _ast.walk(fn))
                out.append((f'{cname}.{fname}.pure_function_of_the_payload',
                            static and not foreign and not scoped and params == {'payload'},
                            {'staticmethod': static, 'foreign_names': str(foreign), 'params': str(sorted(params))}))
        out.append(('handlers_found', n >= 2, {'n': n}))
        return out


@register
class UnreadBodyClosesTheConnection(ScanCheck):
    id = 'C17.unreadable_request_closes_the_connection'
    prop = 'C17'
    doc = ('do_POST: the request body is read inside one try block (self._read_request()); EVERY handler of that try - '
           'whatever exception class it catches (bad length, broken chunk framing, unsupported or corrupt content coding) - '
           'sets close_connection = True before it answers: after a failed read the position in the stream is unknown, '
           'bytes of the unread body must never be parsed as the next request of a kept-alive connection')

    def scan(self, repo):
        mod = repo.module('sdc11073.httpserver.httprequesthandler')
        cd = mod.classes['DispatchingRequestHandler']
        fn = next((f for f in cd.body if isinstance(f, _ast.FunctionDef) and f.name == 'do_POST'), None)
        if fn is None:
            return [('do_POST_found', False, {})]
        tries = [t for t in _ast.walk(fn) if isinstance(t, _ast.Try)
                 and any(isinstance(c, _ast.Call) and _ast.unparse(c.func) == 'self._read_request' for s in t.body for c in _ast.walk(s))]
        reads = [c for c in _ast.walk(fn) if isinstance(c, _ast.Call) and _ast.unparse(c.func) == 'self._read_request']
        out = [('body_is_read_once_inside_a_try_block', len(tries) == 1 and len(reads) == 1, {'tries': len(tries), 'reads': len(reads)})]
        if len(tries) != 1:
            return out
        bad = []
        for h in tries[0].handlers:
            closes = any(isinstance(s, _ast.Assign) and _ast.unparse(s.targets[0]) == 'self.close_connection'
                         and isinstance(s.value, _ast.Constant) and s.value.value is True for s in h.body)
            answers = any(isinstance(c, _ast.Call) and _ast.unparse(c.func) in ('self._send_plain_response', 'self.send_response', 'self.send_error')
                          for s in h.body for c in _ast.walk(s))
            leaves = any(isinstance(s, (_ast.Return, _ast.Raise)) for s in h.body)
            if not (closes and answers and leaves):
                bad.append((_ast.unparse(h.type) if h.type is not None else 'bare', closes, answers, leaves))
        out.append(('every_failed_read_closes_the_connection_and_answers', bool(tries[0].handlers) and not bad, {'handlers': str(bad)}))
        catch_all = any(h.type is None or _ast.unparse(h.type) in ('Exception', 'BaseException') for h in tries[0].handlers)
        out.append(('every_exception_of_the_read_is_handled', catch_all, {}))
        return out
