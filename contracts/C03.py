"""C03 - transactions are atomic and the data they hand out is isolated from the MDIB."""
from __future__ import annotations

import ast

import z3

from pyvc.api import (FnCheck, ScanCheck, LoopSpec, Pure, Inline, register, Build, V, Val, SeqVal, IntS, RealS, BoolS, StrS, NONE,
                      Raise, Unsupported, fresh, vany, vint, vreal, vbool, vstr, vref, as_int, unbox_as, truthy, field)
from pyvc.state import FRESH_BASE

CB = 'sdc11073.mdib.containerbase'
MB = 'sdc11073.mdib.mdibbase'
PR = 'sdc11073.provider.periodicreports'
DEEP = z3.Function('deepcopy_of', Val, Val)     # copy.deepcopy(x): a value sharing no mutable part with x (trusted)


def deepcopy_summary():
    def fn(ex, st, args, kwargs):
        src = st.box(args[0])
        r = st.alloc('DeepCopy')
        st.ghost['deep'] = st.ghost.get('deep', ()) + ((r.e, src),)
        return r
    return Pure(fn, name='copy.deepcopy: fresh object graph, no mutable part shared with the argument', trusted=True)


def deep_of(st, v):
    """source of a deepcopy result, or None."""
    for oid, src in st.ghost.get('deep', ()):
        if z3.is_true(z3.simplify(oid == (v.e if v.kind == 'ref' else Val.oid(v.e)))):
            return src
    return None


@register
class MkCopy(FnCheck):
    id = 'C03.mk_copy'
    prop = 'C03'
    tag = 'S'
    opaque_ok = True
    target = f'{CB}:ContainerBase.mk_copy'
    doc = ('mk_copy: the result is a new object; for every container property (arbitrary property of the sorted list) '
           'the copy receives copy.deepcopy of the original\'s value under the same name - so no nested mutable value is '
           'shared between the copy and the original; nothing of the original is written')
    trusted = ('copy.copy allocates a new object; copy.deepcopy returns a structure disjoint from its argument',)

    def setup(self, b):
        self.o = b.obj('self', cls=(CB, 'ContainerBase'))
        b.st.ghost['sets'] = ()
        return self.o, [], {}

    def callees(self, ex):
        def shallow(ex_, st, args, kwargs):
            c = st.alloc('ShallowCopy')
            st.ghost['c:copied'] = c
            st.ghost['c:copy_src'] = st.box(args[0])
            return c

        def props(ex_, st, args, kwargs):
            r = st.alloc('list')
            st.set_list_seq(r, z3.Const('props', SeqVal))
            return r

        def getattr_(ex_, st, args, kwargs):
            v = vany(fresh(Val, 'propval'))
            st.ghost['c:got'] = st.ghost.get('c:got', ()) + ((st.box(args[0]), st.box(args[1]), v.e),)
            return v

        def setattr_(ex_, st, args, kwargs):
            st.ghost['sets'] = st.ghost.get('sets', ()) + ((st.box(args[0]), st.box(args[1]), args[2]),)
            return NONE
        return {'copy.copy': Pure(shallow, name='copy.copy: new object with the same slot values', trusted=True),
                'copy.deepcopy': deepcopy_summary(),
                f'{CB}:ContainerBase.sorted_container_properties': Pure(props, name='sorted_container_properties (C05)'),
                'getattr': Pure(getattr_, name='getattr(obj, name)'), 'setattr': Pure(setattr_, name='setattr(obj, name, value)'),
                '*.copy_element': Pure(lambda e, s, a, k: s.alloc('Element'), name='xml_utils.copy_element')}

    def hooks(self, ex):
        class H:
            tracked_names = ('setattr', 'getattr', 'deepcopy')

            @staticmethod
            def on_loop_havoc(ex_, st, node):
                st.ghost['sets'] = ()
                st.ghost['c:got'] = ()
                st.ghost['deep'] = ()

            @staticmethod
            def on_attr_write(ex_, st, o, attr, val, node):
                st.ghost['writes'] = st.ghost.get('writes', ()) + ((st.box(o), attr),)
                return None
        return H

    def loops(self, ex):
        def body(ex_, st, env):
            if env['_phase'] != 'preserve':
                return z3.BoolVal(True)
            sets, got, deep = st.ghost.get('sets', ()), st.ghost.get('c:got', ()), st.ghost.get('deep', ())
            copied = st.ghost.get('c:copied')
            ob = lambda n, f: ex_.oblige(st, 'property.' + n, f, kind='loop')   # noqa: E731
            ob('exactly_one_slot_written', z3.BoolVal(len(sets) == 1 and len(got) == 1 and len(deep) == 1))
            if len(sets) == 1 and len(got) == 1 and len(deep) == 1:
                tgt, name, val = sets[0]
                ob('written_on_the_copy', tgt == Val.ref(copied.e))
                ob('read_from_the_original_same_property', z3.And(got[0][0] == Val.ref(self.o.e), got[0][1] == name))
                ob('value_is_deepcopy_of_original_value', z3.And(
                    z3.BoolVal(val.kind == 'ref'), (val.e if val.kind == 'ref' else Val.oid(val.e)) == deep[0][0],
                    deep[0][1] == got[0][2]))
            return z3.BoolVal(True)
        return {0: LoopSpec(inv=body, havoc_heap=[])}

    def finish(self, ex, st0, outcomes, b):
        names = {o.name for o in ex.ctx.obligations}
        ex.oblige(st0, 'every_property_slot_is_rewritten_with_a_deep_copy',
                  z3.BoolVal('property.value_is_deepcopy_of_original_value' in names))

    def post(self, ex, st0, st, outcome, b):
        if outcome[0] == 'exc':
            return
        r = ex.concrete_kind(st, outcome[1], ('ref',))
        ex.oblige(st, 'result_is_a_new_object', z3.And(r.e >= FRESH_BASE, r.e == st.ghost['c:copied'].e,
                                                       st.ghost['c:copy_src'] == Val.ref(self.o.e)))
        ex.oblige(st, 'original_is_never_written', z3.BoolVal(all(
            z3.is_false(z3.simplify(t == Val.ref(self.o.e))) for t, _ in st.ghost.get('writes', ()))))


@register
class MkEntity(FnCheck):
    id = 'C03.mk_entity'
    prop = 'C03'
    tag = 'S'
    opaque_ok = True
    target = f'{MB}:EntityGetter._mk_entity'
    doc = ('EntityGetter._mk_entity: the entity handed to the application is built from copy.deepcopy of the stored '
           'descriptor and copy.deepcopy of the stored state(s) - never from the table members themselves')
    trusted = MkCopy.trusted

    def setup(self, b):
        self.is_ctx = b.bool('is_context_descriptor')
        self.d = b.obj('descriptor', is_context_descriptor=self.is_ctx, Handle=b.str('handle'))
        self.o = b.obj('self', cls=(MB, 'EntityGetter'))
        return self.o, [self.d], {}

    def callees(self, ex):
        def lookup(ex_, st, args, kwargs):
            r = st.alloc('StoredStates')
            st.ghost['c:stored'] = r
            return r

        def entity(name):
            def fn(ex_, st, args, kwargs):
                st.ghost['c:entity'] = (name, args[1], args[2])
                return st.alloc(name)
            return Pure(fn, name=f'{name}(mdib, descriptor, state(s))')
        return {'copy.deepcopy': deepcopy_summary(), '*.get': Pure(lookup, name='index get (C11)'),
                '*.get_one': Pure(lookup, name='index get_one (C11)'),
                f'{MB}:Entity': entity('Entity'), f'{MB}:MultiStateEntity': entity('MultiStateEntity')}

    def post(self, ex, st0, st, outcome, b):
        if outcome[0] == 'exc':
            return
        ent = st.ghost.get('c:entity')
        ex.oblige(st, 'entity_constructed', z3.BoolVal(ent is not None))
        if ent is None:
            return
        name, dv, sv = ent
        ex.oblige(st, 'entity_kind_follows_descriptor_kind', z3.BoolVal(name == 'MultiStateEntity') == self.is_ctx.e)
        dsrc, ssrc = deep_of(st, dv), deep_of(st, sv)
        ex.oblige(st, 'descriptor_is_deep_copy_of_stored_descriptor', z3.BoolVal(dsrc is not None) if dsrc is None
                  else dsrc == Val.ref(self.d.e))
        ex.oblige(st, 'states_are_deep_copy_of_stored_states', z3.BoolVal(ssrc is not None) if ssrc is None
                  else ssrc == Val.ref(st.ghost['c:stored'].e))


def _mk_getter(name, with_none):
    class Getter(FnCheck):
        id = f'C03.entity_getter.{name}'
        prop = 'C03'
        tag = 'S'
        opaque_ok = True
        target = f'{MB}:EntityGetter.{name}'
        doc = (f'EntityGetter.{name}: the table is read and the entities are built (via _mk_entity, i.e. deep copies) '
               'inside mdib_lock; the result contains only such copies')

        def setup(self, b):
            self.mdib = b.obj('mdib')
            self.o = b.obj('self', cls=(MB, 'EntityGetter'), _mdib=self.mdib)
            return self.o, ([b.any('key')] if name != 'items' else []), {}

        def callees(self, ex):
            def mk(ex_, st, args, kwargs):
                st.ghost['mk'] = st.ghost.get('mk', ()) + (held(st),)
                e = st.alloc('EntityCopy')
                return e

            def lookup(ex_, st, args, kwargs):
                st.ghost['reads'] = st.ghost.get('reads', ()) + (held(st),)
                if with_none:
                    return vany(fresh(Val, 'descr'), maybe_none=True)
                r = st.alloc('list')
                st.set_list_seq(r, fresh(SeqVal, 'descriptors'))
                return r
            ex.ctx.map_functions['self._mk_entity'] = z3.Function('mk_entity', Val, Val)
            return {f'{MB}:EntityGetter._mk_entity': Pure(mk, name='_mk_entity (C03.mk_entity)'),
                    '*.get_one': Pure(lookup, name='index get_one (C11)'), '*.get': Pure(lookup, name='index get (C11)')}

        def hooks(self, ex):
            class H:
                tracked_names = ('objects',)

                @staticmethod
                def on_with_enter(ex_, st, key, cm, node):
                    st.ghost['locks'] = st.ghost.get('locks', ()) + (key,)

                @staticmethod
                def on_with_exit(ex_, st, key, cm, node, sig):
                    st.ghost['locks'] = st.ghost.get('locks', ())[:-1]

                @staticmethod
                def on_map(ex_, st, fname, seq):
                    st.ghost['mk'] = st.ghost.get('mk', ()) + (held(st),)

                @staticmethod
                def on_attr_read(ex_, st, o, attr, node):
                    if attr == 'objects':
                        st.ghost['reads'] = st.ghost.get('reads', ()) + (held(st),)
                    return None
            return H

        def post(self, ex, st0, st, outcome, b):
            if outcome[0] == 'exc':
                return
            ex.oblige(st, 'table_read_inside_mdib_lock', z3.BoolVal(all(st.ghost.get('reads', (False,)))))
            mk = st.ghost.get('mk', ())
            ex.oblige(st, 'copies_made_inside_mdib_lock', z3.BoolVal(all(mk)))
            if not with_none:
                ex.oblige(st, 'result_built_by_mk_entity', z3.BoolVal(len(mk) >= 1))
    Getter.__name__ = f'Getter_{name}'
    return Getter


def held(st):
    return any(_c02.is_lock(k, 'mdib_lock') for k in st.ghost.get('locks', ()))


for _n, _wn in (('by_handle', True), ('by_node_type', False), ('by_parent_handle', False)):
    register(_mk_getter(_n, _wn))


@register
class StoreForPeriodicReport(FnCheck):
    id = 'C03.periodic_store'
    prop = 'C03'
    tag = 'S'
    target = f'{PR}:PeriodicReportsHandler._store_for_periodic_report'
    doc = ('states retained for periodic reports are copies (mk_copy, C03.mk_copy) of the committed states, labelled '
           'with exactly the version passed in, appended under the periodic-reports lock')

    def setup(self, b):
        st = b.st
        self.o = b.obj('self', cls=(PR, 'PeriodicReportsHandler'))
        self.version = b.int('mdib_version')
        self.updates = b.obj('state_updates')
        st.assume(z3.Select(st.get_arr('C'), self.updates.e) == b.ex.ctx.builtin_class_ids['list'])
        self.useq = z3.Select(st.get_arr('L'), self.updates.e)
        self.dest = b.obj('destination_list')
        st.assume(z3.Select(st.get_arr('C'), self.dest.e) == b.ex.ctx.builtin_class_ids['list'])
        b.distinct(self.o, self.updates, self.dest)
        return self.o, [self.version, self.updates, self.dest], {}

    def hooks(self, ex):
        chk = self

        class H:
            tracked_names = ('mk_copy',)

            @staticmethod
            def on_with_enter(ex_, st, key, cm, node):
                st.ghost['locks'] = st.ghost.get('locks', ()) + (key,)

            @staticmethod
            def on_with_exit(ex_, st, key, cm, node, sig):
                st.ghost['locks'] = st.ghost.get('locks', ())[:-1]

            @staticmethod
            def on_call(ex_, st, fv, keys, args, kwargs, node):
                if fv.t == 'method' and fv.name == 'append' and fv.recv.path == 'destination_list':
                    st.ghost['locks_at_append'] = st.ghost.get('locks', ())
                return None
        return H

    def callees(self, ex):
        COPY = z3.Function('mk_copy_of', Val, Val)

        def periodic(ex_, st, args, kwargs):
            o = st.alloc('PeriodicStates')
            st.write_field(o, 'mdib_version', args[0])
            st.write_field(o, 'states', args[1])
            st.ghost['c:locks_at_store'] = st.ghost.get('locks', ())
            return o
        self.COPY = COPY
        ex.ctx.map_functions['.mk_copy'] = COPY
        return {f'{PR}:PeriodicStates': Pure(periodic, name='PeriodicStates(version, states)'),
                'PeriodicStates': Pure(periodic, name='PeriodicStates(version, states) namedtuple')}

    def post(self, ex, st0, st, outcome, b):
        if outcome[0] == 'exc':
            ex.oblige(st, 'never_raises', z3.BoolVal(False), info={'exc': repr(outcome[1])})
            return
        d0, d1 = z3.Select(st0.get_arr('L'), self.dest.e), z3.Select(st.get_arr('L'), self.dest.e)
        ex.oblige(st, 'one_entry_appended', z3.And(z3.Length(d1) == z3.Length(d0) + 1, z3.SubSeq(d1, 0, z3.Length(d0)) == d0))
        entry = d1[z3.Length(d0)]
        ex.oblige(st, 'labelled_with_passed_version', z3.Select(st.get_arr('f:mdib_version'), Val.oid(entry)) == Val.int(self.version.e))
        stored = z3.Select(st.get_arr('L'), Val.oid(z3.Select(st.get_arr('f:states'), Val.oid(entry))))
        j = z3.Int('j!ps')
        ex.oblige(st, 'stores_copies_of_all_states_in_order', z3.And(
            z3.Length(stored) == z3.Length(self.useq),
            z3.ForAll([j], z3.Implies(z3.And(0 <= j, j < z3.Length(self.useq)), stored[j] == self.COPY(self.useq[j])))))
        ex.oblige(st, 'caller_list_untouched', z3.Select(st.get_arr('L'), self.updates.e) == self.useq)
        ex.oblige(st, 'stored_under_reports_lock', z3.BoolVal(any(k.endswith('_periodic_reports_lock') for k in st.ghost.get('locks_at_append', ()))))


class _EntityUpdate(FnCheck):
    """entity.update(): the entity is refreshed from PRIVATE COPIES of the stored objects (update_from_other_container
    copies members one level deep only, so its argument must already be a copy made with mk_copy)."""
    prop = 'C03'
    tag = 'S'
    opaque_ok = True
    LOGGED = ('mk_copy', 'update_from_other_container', 'get_one', 'get', 'pop', 'items', 'values', 'keys')
    inline = (f'{MB}:_EntityBase.handle', f'{MB}:_EntityBase.update')

    def setup(self, b):
        self.descr = b.obj('entity.descriptor', Handle=b.str('handle'))
        self.state = b.obj('entity.state')
        self.states = b.obj('entity.states')
        b.st.assume(z3.Select(b.st.get_arr('C'), self.states.e) == b.ex.ctx.builtin_class_ids['dict'])
        b.st.assume(z3.Select(b.st.get_arr('DN'), self.states.e) >= 0)
        self.o = b.obj('self', cls=self.cls, descriptor=self.descr, state=self.state, states=self.states)
        b.distinct(self.o, self.descr, self.state, self.states)
        b.st.ghost['calls'] = ()
        return self.o, [], {}

    def hooks(self, ex):
        chk = self

        class H:
            tracked_names = chk.LOGGED

            @staticmethod
            def on_loop_havoc(ex_, st, node):
                st.ghost['calls'] += (('#loop', ex_.loop_ordinal(node)),)

            @staticmethod
            def on_call(ex_, st, fv, keys, args, kwargs, node):
                name = getattr(fv, 'name', None) or (fv.fn.name if fv.t == 'repo' else None)
                if name not in chk.LOGGED:
                    return None
                if fv.t == 'method' and fv.recv.kind == 'ref' and fv.recv.cls in ('dict', 'list'):
                    return None     # plain container operations of the entity's own dict are modelled as such
                recv = fv.recv if fv.t == 'method' else getattr(fv, 'self_v', None)
                rb = st.box(recv) if recv is not None else None
                if name == 'mk_copy':
                    c = st.alloc('Copy')
                    st.ghost['copies'] = st.ghost.get('copies', ()) + ((c.e, rb),)
                    st.ghost['calls'] += ((name, rb, ()),)
                    return [(st, c)]
                if name in ('items', 'values', 'keys', 'pop'):
                    if fv.t == 'method' and fv.recv.kind == 'ref' and fv.recv.cls is not None:
                        return None
                    # view of the opaque dict of stored states: some sequence, nothing is modified
                    r = st.alloc('list')
                    st.set_list_seq(r, fresh(SeqVal, 'view'))
                    return [(st, r)]
                st.ghost['calls'] += ((name, rb, tuple(st.box(a) for a in args)),)
                if name == 'get_one':
                    r = st.alloc('Stored')
                    st.ghost['stored'] = st.ghost.get('stored', ()) + (r.e,)
                    return [(st, r)]
                if name == 'get':
                    if rb is not None and z3.is_true(z3.simplify(rb == Val.ref(chk.states.e))):
                        return None
                    if len(args) == 2:      # index lookup .get(handle, []): the list of stored states
                        r = st.alloc('list')
                        st.set_list_seq(r, fresh(SeqVal, 'stored_states'))
                        return [(st, r)]
                    # dict of stored states by handle: a stored state or None
                    absent = st.fork()
                    r = st.alloc('Stored')
                    st.ghost['stored'] = st.ghost.get('stored', ()) + (r.e,)
                    return [(absent, NONE), (st, r)]
                return [(st, NONE)]

            @staticmethod
            def on_call_value(ex_, st, f, args, kwargs, node):
                # method calls on values of unknown type (elements of opaque containers)
                import ast as _ast
                if not isinstance(node.func, _ast.Attribute) or node.func.attr not in ('mk_copy', 'update_from_other_container', 'get'):
                    return None
                recv_node = node.func.value
                outs = []
                for s2, rv in ex_.ev(recv_node, st):
                    if isinstance(rv, Raise):
                        continue
                    rb = s2.box(rv)
                    if node.func.attr == 'mk_copy':
                        c = s2.alloc('Copy')
                        s2.ghost['copies'] = s2.ghost.get('copies', ()) + ((c.e, rb),)
                        s2.ghost['calls'] += (('mk_copy', rb, ()),)
                        outs.append((s2, c))
                    elif node.func.attr == 'get':
                        # lookup in the (opaque) dict of stored states: a stored state or None
                        absent = s2.fork()
                        outs.append((absent, NONE))
                        r = s2.alloc('Stored')
                        s2.ghost['stored'] = s2.ghost.get('stored', ()) + (r.e,)
                        outs.append((s2, r))
                    else:
                        s2.ghost['calls'] += (('update_from_other_container', rb, tuple(s2.box(a) for a in args)),)
                        outs.append((s2, NONE))
                return outs or None
        return H

    def check_updates(self, ex, st, calls, ob):
        """every update_from_other_container in `calls` gets a copy made by mk_copy in the same call sequence."""
        copies = [c for c, _ in st.ghost.get('copies', ())]
        for c in calls:
            if c[0] != 'update_from_other_container':
                continue
            ob('refreshed_from_a_private_copy_never_from_the_stored_object',
               z3.Or(*[c[2][0] == Val.ref(cp) for cp in copies]) if copies else z3.BoolVal(False))


def _mk_entity_update(idn, cls, doc, loops=None):
    def post(self, ex, st0, st, outcome, b):
        if outcome[0] == 'exc':
            return
        calls = [c for c in st.ghost['calls'] if c[0] != '#loop']
        ob = lambda n, f: ex.oblige(st, n, f)   # noqa: E731
        self.check_updates(ex, st, calls, ob)
        n_upd = sum(1 for c in calls if c[0] == 'update_from_other_container')
        if self.min_updates:
            ob('entity_members_are_refreshed', z3.BoolVal(n_upd >= self.min_updates))
    ns = {'id': f'C03.entity_update.{idn}', 'cls': (MB, cls), 'target': f'{MB}:{cls}.update', 'doc': doc, 'post': post,
          'min_updates': 1}
    if loops:
        ns['loops'] = loops
    return register(type('EntityUpdate_' + idn, (_EntityUpdate,), ns))


_mk_entity_update('base', '_EntityBase', '_EntityBase.update(): the descriptor of the entity is refreshed from a private copy '
                  '(mk_copy) of the stored descriptor, never from the stored object itself')
_mk_entity_update('single_state', 'Entity', 'Entity.update(): descriptor and state are refreshed from private copies of the '
                  'stored descriptor / the stored state looked up by the descriptor handle')


def _multi_loops(self, ex):
    def refresh(ex_, st, env):
        if env['_phase'] != 'preserve':
            return z3.BoolVal(True)
        calls = st.ghost['calls']
        heads = [i for i, c in enumerate(calls) if c == ('#loop', 0)]
        own = [c for c in calls[heads[-1] + 1:] if c[0] != '#loop'] if heads else []
        self.check_updates(ex_, st, own, lambda n, f: ex_.oblige(st, 'state.' + n, f, kind='loop'))
        return z3.BoolVal(True)

    def add(ex_, st, env):
        if env['_phase'] != 'preserve':
            return z3.BoolVal(True)
        # a state that is new to the entity is inserted as a copy of the stored one
        d = self.states
        copies = [c for c, _ in st.ghost.get('copies', ())]
        dv = z3.Select(st.get_arr('DV'), d.e)
        dk = z3.Select(st.get_arr('DK'), d.e)
        dv0 = z3.Select(env['_entry'].get_arr('DV'), d.e)
        k = z3.Const('k!eu', Val)
        new_vals_are_copies = z3.ForAll([k], z3.Implies(z3.And(z3.Select(dk, k), z3.Select(dv, k) != z3.Select(dv0, k)),
                                                         z3.Or(*[z3.Select(dv, k) == Val.ref(c) for c in copies]) if copies else z3.BoolVal(False)))
        ex_.oblige(st, 'state.new_states_enter_the_entity_as_private_copies', new_vals_are_copies, kind='loop')
        return z3.BoolVal(True)
    return {0: LoopSpec(inv=refresh, havoc_heap=[]), 1: LoopSpec(inv=add, havoc_heap=[])}


_mk_entity_update('multi_state', 'MultiStateEntity', 'MultiStateEntity.update(): the descriptor and every state the entity '
                  'already holds are refreshed from private copies; states that are new in the MDIB enter the entity as '
                  'private copies (arbitrary iteration of both loops)', loops=_multi_loops)


from contracts import C02 as _c02   # noqa: E402


@register
class DescriptorCommitCopiesState(_c02.UpdateCorrespondingStateNotInTx):
    id = 'C03.descriptor_commit_never_writes_the_stored_state'
    prop = 'C03'


@register
class StateWriteEntities(FnCheck):
    id = 'C03.state_write_entities'
    prop = 'C03'
    tag = 'S'
    opaque_ok = True
    target = 'sdc11073.mdib.transactions:StateTransactionBase.write_entities'
    doc = ('StateTransactionBase.write_entities is all-or-nothing: whatever exception ends the call - a rejection by the '
           'up-front checks (multi-state entity, state of another kind) or one raised by write_entity for a later entity - '
           'the pending updates of the transaction are exactly what they were when the call started; an accepted call makes '
           'one write_entity call per entity')
    trusted = ('write_entity writes only the pending-update dict of the transaction (C02.write_entity)',)
    stable_fields = ('_state_updates',)
    field_types = {'is_multi_state': 'bool'}

    def setup(self, b):
        st = b.st
        self.upd = b.obj('state_updates')
        st.assume(z3.Select(st.get_arr('C'), self.upd.e) == b.ex.ctx.builtin_class_ids['dict'])
        st.assume(z3.Select(st.get_arr('DN'), self.upd.e) >= 0)
        self.o = b.obj('self', cls=('sdc11073.mdib.transactions', 'StateTransactionBase'), _state_updates=self.upd)
        ents = b.obj('entities')
        st.assume(z3.Select(st.get_arr('C'), ents.e) == b.ex.ctx.builtin_class_ids['list'])
        b.distinct(self.o, self.upd, ents)
        st.ghost['calls'] = ()
        self.type_ok = z3.Function('is_correct_state_type', Val, BoolS)
        self.entry = {a: st.get_arr(a) for a in ('DK', 'DV')}
        return self.o, [ents, b.bool('adjust_version_counter')], {}

    def callees(self, ex):
        return {'*._is_correct_state_type': Pure(lambda e, st, a, k: vbool(self.type_ok(st.box(a[0]))),
                                                 name='_is_correct_state_type: pure predicate of the state')}

    def hooks(self, ex):
        chk = self

        class H:
            tracked_names = ('write_entity',)

            @staticmethod
            def on_loop_havoc(ex_, st, node):
                st.ghost['calls'] += (('#loop', ex_.loop_ordinal(node)),)

            @staticmethod
            def on_call(ex_, st, fv, keys, args, kwargs, node):
                name = getattr(fv, 'name', None) or (fv.fn.name if fv.t == 'repo' else None)
                if name != 'write_entity':
                    return None
                st.ghost['calls'] += (('write_entity', st.box(args[0])),)
                # write_entity: arbitrary change of the pending updates, or an exception (possibly after a change)
                for a in ('DK', 'DV', 'DN'):
                    st.set_arr(a, z3.Store(st.get_arr(a), chk.upd.e, fresh(z3.Select(st.get_arr(a), chk.upd.e).sort(), 'written')))
                bad = st.fork()
                return [(bad, Raise(ex_.mk_exc('*', 'raised by write_entity'))), (st, NONE)]
        return H

    def loops(self, ex):
        """Loop specs are assigned by what a loop does (it calls write_entity or not), not by its position, so that a
        re-arrangement of the function is judged by the postconditions and not reported as a changed shape."""
        import ast
        _, _, fn = ex.ctx.repo.find(self.target)
        fors = sorted((n for n in ast.walk(fn) if isinstance(n, (ast.For, ast.While))), key=lambda n: (n.lineno, n.col_offset))

        def own(st, ordinal):
            calls = st.ghost['calls']
            heads = [i for i, c in enumerate(calls) if c == ('#loop', ordinal)]
            return tuple(c for c in calls[heads[-1] + 1:] if c[0] != '#loop') if heads else ()

        def saved_inv(st):
            saved = st.locals.get('saved_updates')
            if saved is not None and saved.kind == 'ref':
                # the private copy taken before the first write still is the content the call started with
                return {'saved_copy_of_the_pending_updates_is_not_written': z3.And(*[
                    z3.Select(st.get_arr(a), saved.e) == z3.Select(self.entry[a], self.upd.e) for a in ('DK', 'DV')])}
            return z3.BoolVal(True)

        def mk_check(ordinal, var):
            def check(ex_, st, env):
                if env['_phase'] == 'preserve' and var in st.locals:
                    ent = st.box(st.locals[var])
                    ex_.oblige(st, 'an_entity_that_passes_the_checks_is_single_state_and_of_the_right_kind', z3.And(
                        z3.Not(Val.b(z3.Select(st.get_arr('f:is_multi_state'), Val.oid(ent)))),
                        self.type_ok(z3.Select(st.get_arr('f:state'), Val.oid(ent)))), kind='loop')
                return saved_inv(st)
            return LoopSpec(inv=check, havoc_heap=[])

        def mk_write(ordinal, var):
            def write(ex_, st, env):
                if env['_phase'] == 'preserve' and var in st.locals:
                    o = own(st, ordinal)
                    ex_.oblige(st, 'one_write_entity_per_entity', z3.And(z3.BoolVal(len(o) == 1), o[0][1] == st.box(st.locals[var]))
                               if len(o) == 1 else z3.BoolVal(False), kind='loop')
                return saved_inv(st)
            return LoopSpec(inv=write, havoc_heap=['DK', 'DV', 'DN'])
        specs = {}
        for i, node in enumerate(fors):
            var = node.target.id if isinstance(node, ast.For) and isinstance(node.target, ast.Name) else ''
            writes = any(isinstance(c, ast.Call) and isinstance(c.func, ast.Attribute) and c.func.attr == 'write_entity'
                         for c in ast.walk(node))
            specs[i] = mk_write(i, var) if writes else mk_check(i, var)
        return specs

    def post(self, ex, st0, st, outcome, b):
        calls = st.ghost['calls']
        if outcome[0] == 'exc':
            exc = outcome[1]
            kq = z3.Const('kq', Val)
            has0 = z3.Select(z3.Select(st0.get_arr('DK'), self.upd.e), kq)
            same = z3.ForAll([kq], z3.And(
                z3.Select(z3.Select(st.get_arr('DK'), self.upd.e), kq) == has0,
                z3.Implies(has0, z3.Select(z3.Select(st.get_arr('DV'), self.upd.e), kq)
                           == z3.Select(z3.Select(st0.get_arr('DV'), self.upd.e), kq))))
            ex.oblige(st, 'any_exception_leaves_the_pending_updates_as_they_were', same, info={'exc': repr(exc)})
            return
        ex.oblige(st, 'accepted_call_went_through_the_writing_loop', z3.BoolVal(any(c[0] == '#loop' for c in calls)))

    def finish(self, ex, st0, outcomes, b):
        origins = {oc[1].origin for _, oc in outcomes if oc[0] == 'exc'}
        ex.oblige(st0, 'rejection_while_writing_is_a_considered_path', z3.BoolVal('raised by write_entity' in origins))


@register
class RemovalTakesEveryState(_c02.RmDescriptorsAndStates):
    id = 'C03.descriptor_removal_removes_every_state_of_the_descriptor'
    prop = 'C03'


# ---------------------------------------------------------------------------------------------------------------
# descriptor transaction API: a call that is rejected leaves the pending updates of the transaction as they were
@register
class AddDescriptorAllOrNothing(_c02._DescrTxBase):
    id = 'C03.add_descriptor'
    prop = 'C03'
    target = f'{_c02.TR}:DescriptorTransaction.add_descriptor'
    field_types = {'DescriptorVersion': 'int'}
    optional_fields = ('source_mds',)
    doc = ('DescriptorTransaction.add_descriptor(descriptor, state): a call that is rejected - handle already in the '
           'transaction, handle already in the MDIB, a state that belongs to another descriptor, a state the transaction '
           'cannot take - leaves the pending descriptor updates exactly as they were (an application that handles the '
           'exception and goes on commits nothing of the rejected call); an accepted call queues exactly this descriptor '
           'as new (old = None) and touches no table')
    replay_fn = 'C03:add_descriptor_rejected'

    def concretize(self, vc, model):
        return {}

    def setup(self, b):
        st = b.st
        o = self.mk(b)
        self.new = b.obj('new_descriptor', Handle=self.handle, DescriptorVersion=b.int('new_version'),
                         source_mds=b.any('source_mds', maybe_none=True))
        self.exists = b.bool('handle_exists_in_mdib')
        self.state_given = b.bool('state_given')
        self.state_handle = b.str('state.DescriptorHandle')
        self.state = b.obj('state_container', DescriptorHandle=self.state_handle)
        b.distinct(o, self.new, self.state, self.upd, self.stored)
        state_v = vany(z3.If(self.state_given.e, Val.ref(self.state.e), Val.none), maybe_none=True, path='state_container')
        st.ghost['c:table_ops'] = ()
        return o, [self.new], {'adjust_descriptor_version': b.bool('adjust'), 'state_container': state_v}

    def hooks(self, ex):
        ex.ctx.membership['self._mdib.descriptions.handle'] = lambda st, item: z3.And(self.exists.e, item == Val.str(self.handle.e)) \
            if False else self.exists.e
        return None

    def callees(self, ex):
        def add_state(ex_, st, args, kwargs):
            # contract of DescriptorTransaction.add_state: queues the state or rejects it without any change
            st.ghost['c:add_state'] = st.box(args[0])
            return [(st.fork(), Raise(ex_.mk_exc('ValueError', 'add_state rejected'))),
                    (st.fork(), Raise(ex_.mk_exc('ApiUsageError', 'add_state rejected'))), (st, NONE)]
        return {f'{_c02.TR}:TransactionItem': self.item_summary(), 'TransactionItem': self.item_summary(),
                '*.set_version': Pure(lambda e, s, a, k: NONE, name='descriptions.set_version(descriptor) (C02.set_version)'),
                '*.set_source_mds': Pure(lambda e, s, a, k: NONE, name='xtra.set_source_mds(descriptor)'),
                f'{_c02.TR}:DescriptorTransaction.add_state': Pure(add_state, name='add_state (queues or rejects without change)')}

    def post(self, ex, st0, st, outcome, b):
        key = Val.str(self.handle.e)
        was = z3.Select(z3.Select(st0.get_arr('DK'), self.upd.e), key)
        if outcome[0] == 'exc':
            ex.oblige(st, 'rejected_call_leaves_the_pending_updates_as_they_were', self.unchanged_queue(st0, st),
                      info={'exc': repr(outcome[1]), 'witness_key': 'rejected-add-descriptor-stays-queued'})
            return
        has, old, new = self.queued(st)
        ex.oblige(st, 'accepted_only_for_a_new_handle', z3.And(z3.Not(was), z3.Not(self.exists.e)))
        ex.oblige(st, 'queued_as_new_descriptor', z3.And(has, Val.is_none(old), new == Val.ref(self.new.e)))
        ex.oblige(st, 'matching_state_is_added', z3.Implies(self.state_given.e, z3.And(
            self.state_handle.e == self.handle.e,
            st.ghost['c:add_state'] == Val.ref(self.state.e) if 'c:add_state' in st.ghost else z3.BoolVal(False))))


class _DescrTxStates(_c02._DescrTxBase):
    """descriptor transaction with a descriptor item for `handle` and one state-update dict"""
    prop = 'C03'
    field_types = {'DescriptorVersion': 'int', 'StateVersion': 'int', 'is_context_descriptor': 'bool', 'is_context_state': 'bool'}

    def mk_states(self, b):
        st = b.st
        ids = b.ex.ctx.builtin_class_ids
        o = self.mk(b)
        self.in_tx = b.bool('descriptor_in_transaction')
        self.tx_descr_version = b.int('tx_descriptor_version')
        self.is_ctx_descr = b.bool('is_context_descriptor')
        self.tx_descr = b.obj('descriptor_in_tx', DescriptorVersion=self.tx_descr_version, Handle=self.handle,
                              is_context_descriptor=self.is_ctx_descr)
        self.tx_item = b.obj('descriptor_item', new=self.tx_descr, old=self.stored)
        key = Val.str(self.handle.e)
        dk, dv = z3.Select(st.get_arr('DK'), self.upd.e), z3.Select(st.get_arr('DV'), self.upd.e)
        st.assume(z3.Select(dk, key) == self.in_tx.e)
        st.assume(z3.Implies(self.in_tx.e, z3.Select(dv, key) == Val.ref(self.tx_item.e)))
        self.supd = b.obj('state_updates')
        st.assume(z3.Select(st.get_arr('C'), self.supd.e) == ids['dict'])
        st.assume(z3.Select(st.get_arr('DN'), self.supd.e) >= 0)
        b.distinct(o, self.tx_descr, self.tx_item, self.supd, self.upd, self.stored)
        return o

    def states_unchanged(self, st0, st):
        k = z3.Const('k!su', Val)
        dk0, dk1 = z3.Select(st0.get_arr('DK'), self.supd.e), z3.Select(st.get_arr('DK'), self.supd.e)
        dv0, dv1 = z3.Select(st0.get_arr('DV'), self.supd.e), z3.Select(st.get_arr('DV'), self.supd.e)
        return z3.ForAll([k], z3.And(z3.Select(dk1, k) == z3.Select(dk0, k),
                                     z3.Implies(z3.Select(dk0, k), z3.Select(dv1, k) == z3.Select(dv0, k))))

    def state_item(self, st, key):
        dk, dv = z3.Select(st.get_arr('DK'), self.supd.e), z3.Select(st.get_arr('DV'), self.supd.e)
        item = Val.oid(z3.Select(dv, key))
        return z3.Select(dk, key), z3.Select(st.get_arr('f:old'), item), z3.Select(st.get_arr('f:new'), item)


@register
class DescrTxGetState(_DescrTxStates):
    id = 'C03.descriptor_transaction_get_state'
    target = f'{_c02.TR}:DescriptorTransaction.get_state'
    doc = ('DescriptorTransaction.get_state(handle): refused without any change for an empty handle, a descriptor that is '
           'not part of the transaction, a context descriptor, or a state that is already part of it; otherwise the caller '
           'gets a COPY of the stored state with StateVersion + 1, queued with the stored state as old; the stored state '
           'is not written')

    def setup(self, b):
        st = b.st
        o = self.mk_states(b)
        self.sv = b.int('stored_state_version')
        self.mstate = b.obj('stored_state', StateVersion=self.sv, DescriptorHandle=self.handle)
        b.distinct(o, self.mstate, self.supd, self.upd)
        return o, [self.handle], {}

    def callees(self, ex):
        def get_one(ex_, st, args, kwargs):
            st.ghost['c:asked'] = st.box(args[0])
            return [(st.fork(), Raise(ex_.mk_exc('KeyError', 'get_one'))), (st, self.mstate)]
        return {f'{_c02.TR}:DescriptorTransaction._get_states_update': Pure(lambda e, s, a, k: self.supd, name='_get_states_update'),
                '*.get_one': Pure(get_one, name='states.descriptor_handle.get_one(handle) (C11; KeyError when unknown)'),
                f'{_c02.TR}:TransactionItem': self.item_summary(), 'TransactionItem': self.item_summary()}

    def hooks(self, ex):
        return _c02.CopyHooks()

    def post(self, ex, st0, st, outcome, b):
        key = Val.str(self.handle.e)
        already = z3.Select(z3.Select(st0.get_arr('DK'), self.supd.e), key)
        if outcome[0] == 'exc':
            ex.oblige(st, 'rejected_call_changes_nothing', z3.And(self.states_unchanged(st0, st), self.unchanged_queue(st0, st),
                                                                Val.i(field(st, self.mstate, 'StateVersion')) == self.sv.e),
                      info={'exc': repr(outcome[1])})
            return
        has, old, new = self.state_item(st, key)
        copies = st.ghost.get('copies', ())
        ex.oblige(st, 'accepted_only_when_the_descriptor_is_in_the_transaction_and_the_state_is_not',
                  z3.And(self.in_tx.e, z3.Not(already), z3.Not(self.is_ctx_descr.e), z3.Length(self.handle.e) > 0))
        ex.oblige(st, 'copy_with_state_version_plus_one_is_queued_and_returned', z3.And(
            has, old == Val.ref(self.mstate.e), new == Val.ref(copies[-1][0]), copies[-1][1] == self.mstate.e,
            Val.i(z3.Select(st.get_arr('f:StateVersion'), copies[-1][0])) == self.sv.e + 1,
            st.box(outcome[1]) == new) if copies else z3.BoolVal(False))
        ex.oblige(st, 'stored_state_not_written', Val.i(field(st, self.mstate, 'StateVersion')) == self.sv.e)
        ex.oblige(st, 'descriptor_queue_untouched', self.unchanged_queue(st0, st))


@register
class DescrTxAddState(_DescrTxStates):
    id = 'C03.descriptor_transaction_add_state'
    target = f'{_c02.TR}:DescriptorTransaction.add_state'
    doc = ('DescriptorTransaction.add_state(state): refused without changing the transaction when the descriptor of the '
           'state is not part of it or a state is already queued under its key; otherwise the state is queued as new '
           '(old = None) under its key (Handle for context states, DescriptorHandle else), refers to the descriptor of '
           'THIS transaction and carries its DescriptorVersion; the remembered version is applied iff requested')

    def setup(self, b):
        st = b.st
        o = self.mk_states(b)
        self.is_ctx = b.bool('state_is_context_state')
        self.shandle = b.any('state.Handle', maybe_none=True)
        st.assume(z3.Or(Val.is_none(self.shandle.e), z3.And(Val.is_str(self.shandle.e), z3.Length(Val.s(self.shandle.e)) > 0)))
        self.state = b.obj('state_container', DescriptorHandle=self.handle, is_context_state=self.is_ctx, Handle=self.shandle,
                           DescriptorVersion=b.int('state_descriptor_version'))
        self.adjust = b.bool('adjust_state_version')
        b.distinct(o, self.state, self.supd, self.upd, self.tx_descr)
        st.ghost['c:set_version'] = ()
        return o, [self.state], {'adjust_state_version': self.adjust}

    optional_fields = ('Handle',)

    def callees(self, ex):
        def set_version(ex_, st, args, kwargs):
            st.ghost['c:set_version'] = st.ghost['c:set_version'] + (st.box(args[0]),)
            return NONE

        def uuid4(ex_, st, args, kwargs):
            u = st.alloc('UUID')
            st.write_field(u, 'hex', vstr(z3.String('fresh_uuid_hex')))
            return u
        return {f'{_c02.TR}:DescriptorTransaction._get_states_update': Pure(lambda e, s, a, k: self.supd, name='_get_states_update'),
                '*.set_version': Pure(set_version, name='table.set_version(state) (C02.set_version)'),
                'uuid.uuid4': Pure(uuid4, name='uuid.uuid4()', trusted=True),
                f'{_c02.TR}:TransactionItem': self.item_summary(), 'TransactionItem': self.item_summary()}

    def post(self, ex, st0, st, outcome, b):
        if outcome[0] == 'exc':
            ex.oblige(st, 'rejected_call_leaves_the_transaction_as_it_was', z3.And(self.states_unchanged(st0, st), self.unchanged_queue(st0, st)),
                      info={'exc': repr(outcome[1])})
            return
        key = z3.If(self.is_ctx.e, field(st, self.state, 'Handle'), Val.str(self.handle.e))
        has, old, new = self.state_item(st, key)
        ex.oblige(st, 'accepted_only_with_its_descriptor_in_the_transaction', self.in_tx.e)
        ex.oblige(st, 'queued_as_new_state_under_its_key', z3.And(has, Val.is_none(old), new == Val.ref(self.state.e),
                                                                 z3.Not(z3.Select(z3.Select(st0.get_arr('DK'), self.supd.e), key))))
        ex.oblige(st, 'refers_to_the_descriptor_of_this_transaction', z3.And(
            field(st, self.state, 'descriptor_container') == Val.ref(self.tx_descr.e),
            Val.i(field(st, self.state, 'DescriptorVersion')) == self.tx_descr_version.e))
        sv = st.ghost['c:set_version']
        ex.oblige(st, 'remembered_version_applied_iff_requested', z3.And(
            z3.Implies(self.adjust.e, z3.BoolVal(len(sv) == 1)), z3.Implies(z3.Not(self.adjust.e), z3.BoolVal(len(sv) == 0))))
        ex.oblige(st, 'descriptor_queue_untouched', self.unchanged_queue(st0, st))


@register
class TransactionBodiesOnlyQueue(ScanCheck):
    id = 'C03.transaction_bodies_never_mutate_the_tables'
    prop = 'C03'
    doc = ('frame over sdc11073.mdib.transactions: every call of a table-mutating method (add_/remove_/update_object[s]'
           '[_no_lock], clear, add_index of MultiKeyLookup and its MDIB subclasses; rm_descriptors_and_states, '
           'rm_descriptor_by_handle, add_description_containers, add_state_containers, clear_states of the MDIB) and '
           'every assignment to an attribute of self._mdib occurs only in the commit step (process_transaction and the '
           '_handle_state_updates helper, which is called from process_transaction only) - no API method a transaction '
           'body can call (get_state, add_state, write_entity, remove_entity, ...) touches a table, so an aborted body '
           'leaves them as they were. Receivers are not resolved (any receiver counts), callee names are matched')

    MUTATORS = {'add_object', 'add_object_no_lock', 'add_objects', 'add_objects_no_lock', 'remove_object',
                'remove_object_no_lock', 'remove_objects', 'remove_objects_no_lock', 'update_object', 'update_object_no_lock',
                'update_objects', 'update_objects_no_lock', 'clear', 'add_index', '_add_object', '_mk_indices', '_rm_indices',
                '_update_indices', '_save_version', 'rm_descriptors_and_states', 'rm_descriptor_by_handle',
                'add_description_containers', 'add_state_containers', 'clear_states'}
    COMMIT = {'process_transaction', '_handle_state_updates'}

    def scan(self, repo):
        out = []
        mod = repo.module('sdc11073.mdib.transactions')
        # the mutator list covers every method of the table classes that is not a pure read (anti-rot: a method added to
        # MultiKeyLookup that is neither listed here nor a known reader and is called from a transaction body is reported)
        mk = repo.module('sdc11073.multikey')
        readers = {'__init__', 'objects', 'lock', '__getattr__', 'find', 'find_no_lock', 'get', 'get_one', 'set_version'}
        table_methods = {n.name for n in mk.classes['MultiKeyLookup'].body if isinstance(n, ast.FunctionDef)}
        unclassified = table_methods - readers - self.MUTATORS
        sites, mdib_writes, unclass_calls, helper_callers = [], [], [], []
        for cname, cd in mod.classes.items():
            for fn in [n for n in cd.body if isinstance(n, ast.FunctionDef)]:
                for n in ast.walk(fn):
                    if isinstance(n, ast.Call) and isinstance(n.func, ast.Attribute):
                        if n.func.attr in self.MUTATORS and not (n.func.attr == 'clear' and not ast.unparse(n.func.value).startswith('self._mdib')):
                            sites.append((cname, fn.name, ast.unparse(n.func), n.lineno))
                        if n.func.attr in unclassified:
                            unclass_calls.append((cname, fn.name, ast.unparse(n.func)))
                        if n.func.attr == '_handle_state_updates':
                            helper_callers.append((cname, fn.name))
                    tgts = []
                    if isinstance(n, ast.Assign):
                        tgts = n.targets
                    elif isinstance(n, (ast.AugAssign, ast.AnnAssign)):
                        tgts = [n.target]
                    elif isinstance(n, ast.Delete):
                        tgts = n.targets
                    for t in tgts:
                        for t2 in (t.elts if isinstance(t, (ast.Tuple, ast.List)) else [t]):
                            base = t2
                            while isinstance(base, (ast.Attribute, ast.Subscript)):
                                base = base.value
                                if ast.unparse(base) == 'self._mdib':
                                    mdib_writes.append((cname, fn.name, ast.unparse(t2), n.lineno))
                                    break
        outside = [s for s in sites if s[1] not in self.COMMIT]
        for s in outside:
            out.append((f'mutation.{s[0]}.{s[1]}', False, {'call': s[2], 'line': s[3]}))
        out.append(('table_mutations_only_in_the_commit_step', not outside, {'outside': str(outside)[:300]}))
        out.append(('commit_step_does_mutate', len(sites) >= 4, {'n': len(sites)}))       # anti-vacuity: the scan sees the commit's writes
        w_out = [w for w in mdib_writes if w[1] not in self.COMMIT]
        out.append(('mdib_attributes_assigned_only_in_the_commit_step', not w_out, {'outside': str(w_out)[:300]}))
        out.append(('state_update_helper_called_from_commit_only', all(f in self.COMMIT for _, f in helper_callers) and helper_callers,
                    {'callers': str(helper_callers)}))
        out.append(('no_unclassified_table_method_called', not unclass_calls, {'calls': str(unclass_calls)[:300]}))
        return out


@register
class ParentPublishedAsCopy(_c02.IncrementParentVersion):
    id = 'C03.parent_descriptor_is_published_as_a_copy'
    prop = 'C03'
    doc = ('_increment_parent_descriptor_version (C02.increment_parent_descriptor_version re-checked): what a descriptor '
           'transaction publishes for the parent of a created / deleted child is a COPY of the stored parent (taken after '
           'the version increment) - a later commit, or a holder of the transaction result, cannot change what was '
           'published, nor the MDIB through it')
