"""C15 - discovery datagrams are retransmitted within the SOAP-over-UDP time envelope."""
from __future__ import annotations

import z3

from pyvc.api import (FnCheck, LoopSpec, Pure, register, Build, V, Val, SeqVal, IntS, RealS, BoolS, NONE, Unsupported, fresh,
                      vany, vint, vreal, vbool, as_int, as_real, field, unbox_as)
from pyvc.state import GHOST_SORTS
from . import lib

MOD = 'sdc11073.wsdiscovery.networkingthread'

GHOST_SORTS['g:q_t'] = z3.ArraySort(IntS, RealS)
GHOST_SORTS['g:q_r'] = z3.ArraySort(IntS, IntS)
GHOST_SORTS['g:q_m'] = z3.ArraySort(IntS, Val)


def _put_summary():
    def fn(ex, st, args, kwargs):
        e = ex.concrete_kind(st, args[0], ('ref',))
        n = st.ghost['q_n']
        t = as_real(ex, st, st.read_field(e, 'send_time'))
        r = as_int(ex, st, st.read_field(e, 'repeat'))
        m = z3.Select(st.get_arr('f:msg'), e.e)
        st.ghost['q_t'] = z3.Store(st.ghost['q_t'], n, t)
        st.ghost['q_r'] = z3.Store(st.ghost['q_r'], n, r)
        st.ghost['q_m'] = z3.Store(st.ghost['q_m'], n, m)
        st.ghost['q_n'] = n + 1
        return NONE
    return Pure(fn, name='queue.put (ghost log)')


def _time_now(ex, st, args, kwargs):
    t = fresh(RealS, 't0')
    st.ghost['c:t0'] = t
    return vreal(t)


def _min(a, b):
    return z3.If(b < a, b, a)


@register
class Schedule(FnCheck):
    id = 'C15.schedule'
    prop = 'C15'
    tag = 'P'
    target = f'{MOD}:NetworkingThread._repeated_enqueue_msg'
    doc = ('1+repeat entries; first delay in [0, max_initial]; first gap in [min, max); every further gap '
           '= min(2*previous, upper); repeat index i+1; quit-event set => nothing enqueued')
    trusted = ('random.randint(a,b) in [a,b]', 'random.randrange(a,b) in [a,b)', 'time.time() is a real',
               'float arithmetic treated as real arithmetic', 'queue.PriorityQueue.put appends (no Full)')

    replay_fn = 'C15:schedule'

    def witness_exprs(self, st, b):
        out = super().witness_exprs(st, b)
        init, gap = self._consts(st)
        if init is not None:
            out['init_draw'] = init
        if gap is not None:
            out['gap_draw'] = gap
        if 'c:t0' in st.ghost:
            out['t0'] = st.ghost['c:t0']
        return out

    def setup(self, b: Build):
        st = b.st
        self.p = {k: b.int(k) for k in ('max_initial_delay_ms', 'repeat', 'min_delay_ms', 'max_delay_ms',
                                         'upper_delay_ms')}
        params = b.obj('delay_params', cls=(MOD, '_UdpRepeatParams'), **self.p)
        slf = b.obj('self', cls=(MOD, 'NetworkingThread'))
        msg = b.any('msg')
        self.msg = msg
        p = {k: v.e for k, v in self.p.items()}
        # requires (type/shape invariant of the parameter set; both concrete sets are checked by C15.params)
        st.assume(z3.And(p['repeat'] >= 0, p['max_initial_delay_ms'] >= 0, 0 <= p['min_delay_ms'],
                         p['min_delay_ms'] < p['max_delay_ms'], p['max_delay_ms'] <= p['upper_delay_ms']))
        st.ghost['q_n'] = z3.IntVal(0)
        st.ghost['q_t'] = z3.Const('q_t0', GHOST_SORTS['g:q_t'])
        st.ghost['q_r'] = z3.Const('q_r0', GHOST_SORTS['g:q_r'])
        st.ghost['q_m'] = z3.Const('q_m0', GHOST_SORTS['g:q_m'])
        return slf, [msg, params], {}

    def callees(self, ex):
        return {
            'self._quit_send_event.is_set': lib.const_bool('quit'),
            'time.time': Pure(_time_now, name='time.time() -> real (ghost t0)', trusted=True),
            'random.randint': lib.rand_int_closed(),
            'random.randrange': lib.rand_range(),
            'self._send_queue.put': _put_summary(),
            'NetworkingThread._EnqueuedMessage': lib.dataclass_ctor(ex.repo, MOD, 'NetworkingThread._EnqueuedMessage'),
        }

    # -- spec pieces shared by invariant and postcondition
    def _consts(self, st):
        draws = dict(st.ghost.get('c:draws', ()))
        init = draws.get('random.randint')
        gap = draws.get('random.randrange')
        return init, gap

    def _schedule(self, st, upto):
        """Spec of the log entries 0..upto (inclusive), stated from the property text."""
        p = {k: v.e for k, v in self.p.items()}
        t, r, m = st.ghost['q_t'], st.ghost['q_r'], st.ghost['q_m']
        U = z3.ToReal(p['upper_delay_ms']) / 1000
        j = z3.Int('j')
        gap = lambda i: t[i] - t[i - 1]   # noqa: E731
        return z3.And(
            z3.ForAll([j], z3.Implies(z3.And(0 <= j, j <= upto), z3.And(r[j] == j + 1, m[j] == self.msg.e))),
            z3.ForAll([j], z3.Implies(z3.And(2 <= j, j <= upto), gap(j) == _min(2 * gap(j - 1), U))),
        )

    def loops(self, ex):
        def inv(ex_, st, env):
            k = env['_k']
            p = {kk: v.e for kk, v in self.p.items()}
            t = st.ghost['q_t']
            try:
                next_send = as_real(ex_, st, st.locals['next_send'])
                delta_t = as_real(ex_, st, st.locals['delta_t'])
            except KeyError as e:
                raise Unsupported(f'loop-carried local {e} not found (renamed?)')
            init, gapdraw = self._consts(st)
            U = z3.ToReal(p['upper_delay_ms']) / 1000
            d0 = z3.ToReal(gapdraw) / 1000
            t0 = st.ghost['c:t0']
            return z3.And(
                st.ghost['q_n'] == k + 1, next_send == t[k],
                t[0] == t0 + z3.ToReal(init) / 1000,
                z3.Implies(k >= 1, t[1] - t[0] == d0),
                delta_t == z3.If(k == 0, d0, _min(2 * (t[k] - t[k - 1]), U)),
                self._schedule(st, k))
        return {0: LoopSpec(inv=inv, havoc_heap=[])}

    def hooks(self, ex):
        class H:
            @staticmethod
            def on_call(ex_, st, fv, keys, args, kwargs, node):
                return None
        return None

    def post(self, ex, st0, st, outcome, b):
        p = {k: v.e for k, v in self.p.items()}
        n = st.ghost['q_n']
        quit_ = st.ghost.get('c:quit')
        if outcome[0] == 'exc':
            ex.oblige(st, 'no_exception', z3.BoolVal(False), info={'exc': repr(outcome[1])})
            return
        init, gapdraw = self._consts(st)
        if init is None:
            # nothing was drawn: only legal when the quit event is set
            ex.oblige(st, 'dropped_only_when_quit', z3.And(quit_ if quit_ is not None else z3.BoolVal(False), n == 0))
            return
        t = st.ghost['q_t']
        t0 = st.ghost['c:t0']
        rep = p['repeat']
        ex.oblige(st, 'count', n == rep + 1)
        ex.oblige(st, 'initial_delay', z3.And(t[0] - t0 >= 0, t[0] - t0 <= z3.ToReal(p['max_initial_delay_ms']) / 1000))
        ex.oblige(st, 'first_gap', z3.Implies(rep >= 1, z3.And(t[1] - t[0] >= z3.ToReal(p['min_delay_ms']) / 1000,
                                                                 t[1] - t[0] < z3.ToReal(p['max_delay_ms']) / 1000)))
        U = z3.ToReal(p['upper_delay_ms']) / 1000
        j = z3.Int('jq')
        ex.oblige(st, 'doubling_capped', z3.ForAll([j], z3.Implies(
            z3.And(2 <= j, j <= rep), t[j] - t[j - 1] == _min(2 * (t[j - 1] - t[j - 2]), U))))
        ex.oblige(st, 'never_above_upper', z3.ForAll([j], z3.Implies(z3.And(1 <= j, j <= rep), t[j] - t[j - 1] <= U)))
        r, m = st.ghost['q_r'], st.ghost['q_m']
        ex.oblige(st, 'repeat_index_and_msg', z3.ForAll([j], z3.Implies(
            z3.And(0 <= j, j <= rep), z3.And(r[j] == j + 1, m[j] == self.msg.e))))
        ex.oblige(st, 'not_quit', z3.Not(quit_) if quit_ is not None else z3.BoolVal(False))


# "Messages the node sent itself are ignored when multicast loops them back": the bookkeeping contracts of the
# receive loop live in contracts/C14.py (duplicate filter); the two that decide this clause are re-checked here.
from contracts import C14 as _c14   # noqa: E402


@register
class OwnIdsPreregistered(_c14.OwnMessageIds):
    id = 'C15.own_ids_preregistered'
    prop = 'C15'
    doc = ('add_outbound_message puts the MessageID of an outgoing message at the NEWEST end of the bounded id memory '
           '(appendleft, the end received ids are added to, so the next received ids evict older entries first) before '
           'the message is enqueued for sending: the looped-back copy is recognised as known')


NT = MOD


@register
class SendLoopNeverEarly(FnCheck):
    id = 'C15.send_loop_never_early'
    prop = 'C15'
    tag = 'S'
    opaque_ok = True
    target = f'{NT}:NetworkingThread._run_send'
    doc = ('_run_send, arbitrary iteration: a queue entry is taken out and transmitted only when its scheduled send_time '
           'has been reached according to time.time() read in that iteration - also while the thread is shutting down - '
           'and what is transmitted is exactly the entry taken out; so no transmission happens before its scheduled '
           'instant and the scheduled gaps (C15.schedule) are lower bounds of the real gaps. The upper deviation (10 ms '
           'polling raster, socket latency) is not decided')

    def setup(self, b):
        st = b.st
        self.T = b.real('head_send_time')
        head = b.obj('queue_head', send_time=self.T)
        qlist = b.obj('queue_list')
        st.assume(z3.Select(st.get_arr('C'), qlist.e) == b.ex.ctx.builtin_class_ids['list'])
        st.assume(z3.Select(st.get_arr('L'), qlist.e) == z3.Concat(z3.Unit(Val.ref(head.e)), z3.Const('queue_tail', SeqVal)))
        self.head = head
        self.q = b.obj('send_queue', queue=qlist)
        self.o = b.obj('self', cls=(NT, 'NetworkingThread'), _send_queue=self.q)
        b.distinct(self.o, self.q, qlist, head)
        st.ghost['log'] = ()
        return self.o, [], {}

    stable_fields = ('send_time', 'queue', '_send_queue')

    def callees(self, ex):
        def now(ex_, st, args, kwargs):
            t = fresh(RealS, 'now')
            st.ghost['log'] += (('time', t),)
            return vreal(t)

        def get(ex_, st, args, kwargs):
            st.ghost['log'] += (('get', None),)
            return self.head

        def send(ex_, st, args, kwargs):
            st.ghost['log'] += (('send', st.box(args[0])),)
            return NONE

        def select(ex_, st, args, kwargs):
            r = st.alloc('list')
            key = st.alloc('SelectorKey')
            st.write_field(key, 'fileobj', st.alloc('socket'))
            st.set_list_seq(r, z3.Unit(Val.ref(key.e)))
            return r
        return {'time.time': Pure(now, name='time.time()'), 'time.sleep': Pure(lambda e, s, a, k: NONE, name='time.sleep'),
                '*.is_set': Pure(lambda e, s, a, k: vbool(fresh(BoolS, 'quit')), name='Event.is_set()'),
                '*.empty': Pure(lambda e, s, a, k: vbool(fresh(BoolS, 'empty')), name='Queue.empty()'),
                'self._send_queue.get': Pure(get, name='Queue.get(): the head entry'),
                f'{NT}:NetworkingThread._send_msg': Pure(send, name='_send_msg(entry, socket)')}

    def hooks(self, ex):
        class H:
            tracked_names = ()

            @staticmethod
            def on_loop_havoc(ex_, st, node):
                if ex_.loop_ordinal(node) == 0:
                    st.ghost['log'] = ()
        return H

    def loops(self, ex):
        def body(ex_, st, env):
            if env['_phase'] != 'preserve':
                return z3.BoolVal(True)
            log = st.ghost['log']
            names = [n for n, _ in log]
            if 'get' in names:
                i = names.index('get')
                times = [v for n, v in log[:i] if n == 'time']
                ex_.oblige(st, 'entry_taken_only_when_its_send_time_is_reached',
                           z3.Or(*[self.T.e <= t for t in times]) if times else z3.BoolVal(False), kind='loop')
            sends = [v for n, v in log if n == 'send']
            ex_.oblige(st, 'only_the_entry_taken_out_is_transmitted', z3.And(
                z3.BoolVal('get' in names or not sends), *[v == Val.ref(self.head.e) for v in sends]), kind='loop')
            return z3.BoolVal(True)
        return {0: LoopSpec(inv=body, havoc_heap=[]), 1: LoopSpec(inv=lambda e, s, env: z3.BoolVal(True), havoc_heap=[])}

    def finish(self, ex, st0, outcomes, b):
        names = {o.name for o in ex.ctx.obligations}
        ex.oblige(st0, 'send_branch_is_analysed', z3.BoolVal('entry_taken_only_when_its_send_time_is_reached' in names))

    def post(self, ex, st0, st, outcome, b):
        pass


# ---------------------------------------------------------------------------------------------------------------
# which parameter set a message is scheduled with: SOAP-over-UDP prescribes MULTICAST_UDP_REPEAT (4) for datagrams to
# the multicast group and UNICAST_UDP_REPEAT (2) for unicast answers
import ast as _ast   # noqa: E402
from pyvc.api import ScanCheck, Raise, vint   # noqa: E402


@register
class RepeatParamsPerDestination(ScanCheck):
    id = 'C15.repeat_params_per_destination'
    prop = 'C15'
    doc = ('every call of NetworkingThread.add_outbound_message in the discovery implementation schedules datagrams '
           'to the multicast group with MULTICAST_REPEAT_PARAMS and datagrams to a unicast address with '
           'UNICAST_REPEAT_PARAMS (exhaustive scan of the call sites); the two parameter sets carry the repeat counts '
           '4 and 2 of SOAP-over-UDP')

    def scan(self, repo):
        out = []
        mod = repo.module('sdc11073.wsdiscovery.wsdimpl')
        nt = repo.module(MOD)
        sites = 0
        for func in [n for n in _ast.walk(mod.tree) if isinstance(n, (_ast.FunctionDef, _ast.AsyncFunctionDef))]:
            k = 0
            for n in _ast.walk(func):
                if not (isinstance(n, _ast.Call) and isinstance(n.func, _ast.Attribute) and n.func.attr == 'add_outbound_message'):
                    continue
                sites += 1
                k += 1
                args = list(n.args) + [kw.value for kw in n.keywords]
                named = {kw.arg: kw.value for kw in n.keywords}
                addr = named.get('addr', n.args[1] if len(n.args) > 1 else None)
                params = named.get('repeat_params', n.args[3] if len(n.args) > 3 else None)
                a_txt = _ast.unparse(addr) if addr is not None else '?'
                p_txt = _ast.unparse(params) if params is not None else '?'
                multicast = a_txt.split('.')[-1] == 'MULTICAST_IPV4_ADDRESS'
                p_name = p_txt.split('.')[-1]
                ok = p_name == ('MULTICAST_REPEAT_PARAMS' if multicast else 'UNICAST_REPEAT_PARAMS')
                out.append((f'site.{func.name}.{k}', ok, {'function': func.name, 'line': n.lineno, 'addr': a_txt, 'params': p_txt}))
        out.append(('call_sites_found', sites >= 6, {'sites': sites}))
        # repeat counts of the two code-defined parameter sets (second field of _UdpRepeatParams)
        for name, want in (('MULTICAST_REPEAT_PARAMS', 4), ('UNICAST_REPEAT_PARAMS', 2)):
            c = nt.constants.get(name)
            val = None
            if isinstance(c, _ast.Call) and len(c.args) >= 2 and isinstance(c.args[1], _ast.Constant):
                val = c.args[1].value
            out.append((f'repeat_count.{name}', val == want, {'value': val, 'soap_over_udp': want}))
        return out


@register
class SendMsgAlwaysTransmits(FnCheck):
    id = 'C15.send_msg_always_transmits'
    prop = 'C15'
    tag = 'S'
    opaque_ok = True
    target = f'{NT}:NetworkingThread._send_msg'
    doc = ('_send_msg(entry, socket): every scheduled queue entry that the send loop hands over is transmitted - exactly '
           'one sendto on the given socket with the serialised message of that entry to the address and port of that '
           'entry - whatever has been received or sent before (no entry of the schedule is skipped, so a message goes '
           'out 1 + repeat times); a socket error is logged and does not escape')

    def setup(self, b):
        self.addr, self.port = b.str('addr'), b.int('port')
        self.cm = b.obj('created_message')
        self.msg = b.obj('outbound_message', created_message=self.cm, addr=self.addr, port=self.port)
        self.q = b.obj('enqueued_message', msg=self.msg, repeat=b.int('repeat'))
        self.sock = b.obj('socket')
        self.o = b.obj('self', cls=(NT, 'NetworkingThread'))
        b.distinct(self.o, self.q, self.msg, self.cm, self.sock)
        b.st.ghost['sent'] = ()
        b.st.ghost['c:data'] = None
        return self.o, [self.q, self.sock], {}

    stable_fields = ('msg', 'created_message', 'addr', 'port')

    def callees(self, ex):
        def serialize(ex_, st, args, kwargs):
            d = vany(fresh(Val, 'datagram'))
            st.ghost['c:ser'] = st.ghost.get('c:ser', ()) + ((st.ghost.get('c:recv'), st.box(d)),)
            return d

        def sendto(ex_, st, args, kwargs):
            dest = args[1] if len(args) > 1 else None
            st.ghost['sent'] = st.ghost['sent'] + ((st.ghost.get('c:recv'), st.box(args[0]),
                                                   tuple(st.box(x) for x in dest.py) if dest is not None and dest.kind == 'tuple' else None),)
            return [(st.fork(), Raise(ex_.mk_exc('OSError', 'sendto'))), (st, vint(fresh(IntS, 'n')))]
        return {'*.serialize': Pure(serialize, name='CreatedMessage.serialize()'),
                '*.sendto': Pure(sendto, name='socket.sendto (may raise OSError)', trusted=True)}

    def hooks(self, ex):
        class H:
            tracked_names = ('sendto', 'serialize')

            @staticmethod
            def on_call(ex_, st, fv, keys, args, kwargs, node):
                if fv.t == 'method':
                    st.ghost['c:recv'] = st.box(fv.recv)
                return None
        return H

    def post(self, ex, st0, st, outcome, b):
        if outcome[0] == 'exc':
            ex.oblige(st, 'socket_errors_do_not_escape', z3.BoolVal(False), info={'exc': repr(outcome[1])})
            return
        sent = st.ghost['sent']
        ser = st.ghost.get('c:ser', ())
        ex.oblige(st, 'exactly_one_transmission', z3.BoolVal(len(sent) == 1), info={'n': len(sent)})
        if len(sent) == 1:
            recv, data, dest = sent[0]
            ex.oblige(st, 'on_the_given_socket', recv == Val.ref(self.sock.e))
            ex.oblige(st, 'the_serialised_message_of_this_entry',
                      z3.Or(*[z3.And(r == Val.ref(self.cm.e), data == d) for r, d in ser if r is not None]) if ser else z3.BoolVal(False))
            ex.oblige(st, 'to_the_address_of_this_entry', z3.And(dest[0] == Val.str(self.addr.e), dest[1] == Val.int(self.port.e))
                      if dest is not None and len(dest) == 2 else z3.BoolVal(False))


@register
class ScheduledDatagramsAreNeverDropped(ScanCheck):
    id = 'C15.scheduled_datagrams_are_never_dropped'
    prop = 'C15'
    doc = ('frame over the networking thread module: a scheduled transmission leaves the send queue only through the one '
           '`get()` of the send loop (_run_send, which then transmits it: C15.send_loop_never_early / send_msg); no other '
           'code clears, drains or replaces the queue, and stopping (join) waits for the send thread WITHOUT a timeout - '
           'the loop ends only when the queue is empty, so every one of the 1 + repeat scheduled transmissions of every '
           'message (Bye included) goes out')

    REMOVERS = {'get', 'get_nowait', 'clear', 'pop', 'popleft', 'task_done', 'remove'}

    def scan(self, repo):
        nt = repo.module(MOD)
        removals, assigns, joins, mutex = [], [], [], []
        for cname, cd in nt.classes.items():
            for fn in [n for n in cd.body if isinstance(n, (_ast.FunctionDef, _ast.AsyncFunctionDef))]:
                for n in _ast.walk(fn):
                    if isinstance(n, _ast.Call) and isinstance(n.func, _ast.Attribute):
                        recv = _ast.unparse(n.func.value)
                        if '_send_queue' in recv and n.func.attr in self.REMOVERS:
                            removals.append((cname, fn.name, _ast.unparse(n.func)))
                        if n.func.attr == 'join' and '_send_thread' in recv:
                            joins.append((fn.name, len(n.args), sorted(k.arg or '**' for k in n.keywords)))
                    if isinstance(n, (_ast.Assign, _ast.AugAssign, _ast.AnnAssign, _ast.Delete)):
                        tgts = n.targets if isinstance(n, (_ast.Assign, _ast.Delete)) else [n.target]
                        for t in tgts:
                            if '_send_queue' in _ast.unparse(t):
                                assigns.append((cname, fn.name, _ast.unparse(t)))
                    if isinstance(n, _ast.Attribute) and n.attr in ('mutex', 'queue') and '_send_queue' in _ast.unparse(n.value) \
                            and fn.name != '_run_send':
                        mutex.append((cname, fn.name, _ast.unparse(n)))
        return [('only_the_send_loop_takes_entries_from_the_queue',
                 removals == [('NetworkingThread', '_run_send', 'self._send_queue.get')], {'sites': str(removals)}),
                ('queue_object_created_once_and_never_replaced',
                 assigns == [('NetworkingThread', '__init__', 'self._send_queue')], {'sites': str(assigns)}),
                ('queue_internals_touched_by_the_send_loop_only', not mutex, {'sites': str(mutex)}),
                ('stopping_waits_for_the_send_thread_without_timeout',
                 joins == [('join', 0, [])], {'sites': str(joins)})]


@register
class SendQueueIsOrderedByDueTime(ScanCheck):
    id = 'C15.send_queue_is_ordered_by_due_time'
    prop = 'C15'
    doc = ('the send loop looks at the HEAD of the priority queue only and waits while that entry is not due '
           '(C15.send_loop_never_early), so every scheduled transmission goes out at its own time only if the queue orders '
           'its entries by due time: _EnqueuedMessage is a dataclass with order=True whose FIRST compared field is '
           'send_time (dataclass ordering compares fields in definition order), the message itself is excluded from the '
           'comparison, the queue is a PriorityQueue, and the two enqueue sites pass the computed send time first')

    def scan(self, repo):
        nt = repo.module(MOD)
        cd = nt.classes['NetworkingThread']
        dc = next((n for n in cd.body if isinstance(n, _ast.ClassDef) and n.name == '_EnqueuedMessage'), None)
        out = []
        if dc is None:
            return [('enqueued_message_class_found', False, {})]
        deco = [_ast.unparse(d) for d in dc.decorator_list]
        ordered = any(d.replace(' ', '') in ('dataclasses.dataclass(order=True)', 'dataclass(order=True)') for d in deco)
        fields = [(s.target.id, _ast.unparse(s.value) if s.value is not None else '') for s in dc.body
                  if isinstance(s, _ast.AnnAssign) and isinstance(s.target, _ast.Name)]
        compared = [n for n, v in fields if 'compare=False' not in v.replace(' ', '')]
        out.append(('entries_are_ordered_dataclass_instances', ordered, {'decorators': str(deco)}))
        out.append(('first_compared_field_is_the_due_time', bool(compared) and compared[0] == 'send_time', {'compared_fields': str(compared)}))
        out.append(('message_is_not_part_of_the_order', 'msg' not in compared, {}))
        init = next((f for f in cd.body if isinstance(f, _ast.FunctionDef) and f.name == '__init__'), None)
        q = [_ast.unparse(s.value) for s in _ast.walk(init) if isinstance(s, _ast.Assign) and _ast.unparse(s.targets[0]) == 'self._send_queue'] if init else []
        out.append(('queue_is_a_priority_queue', len(q) == 1 and q[0].split('(')[0].endswith('PriorityQueue'), {'value': str(q)}))
        # enqueue sites: first positional argument (or send_time=) is the computed time
        names = [n for n, _ in fields]
        sites, bad = 0, []
        for n in _ast.walk(cd):
            if isinstance(n, _ast.Call) and _ast.unparse(n.func).endswith('_EnqueuedMessage'):
                sites += 1
                kw = {k.arg: k.value for k in n.keywords}
                idx = names.index('send_time') if 'send_time' in names else 0
                v = kw.get('send_time', n.args[idx] if len(n.args) > idx else None)
                if v is None or _ast.unparse(v) != 'next_send':
                    bad.append(_ast.unparse(n))
        out.append(('enqueue_sites_pass_the_scheduled_time_as_due_time', sites >= 2 and not bad, {'sites': sites, 'bad': str(bad)}))
        return out
