"""C18 - scalar XML value conversions are exact over the wire value space."""
from __future__ import annotations

import z3

from pyvc.api import (FnCheck, SeqCheck, register, Build, V, Val, IntS, RealS, BoolS, StrS, NONE, Raise, Unsupported,
                      fresh, vany, vint, vreal, vstr, vbool, as_int, as_real, unbox_as, TESTER)
from pyvc import models

MOD = 'sdc11073.xml_types.dataconverters'
TS = f'{MOD}:TimestampConverter'
LIMIT_MS = 2 ** 53 // 1000   # "all non-negative integer millisecond counts up to 2^53/1000"


def numeral_axioms(st, n):
    """Trusted: for the canonical decimal numeral s = str(n): int(s) == n and int(s) does not raise."""
    s_of = models.uf('py_str_int', IntS, StrS)
    i_of = models.uf('py_int_of_10', StrS, IntS)
    ok = models.uf('py_int_ok_10', StrS, BoolS)
    st.assume(z3.And(i_of(s_of(n)) == n, ok(s_of(n))))
    return s_of(n)


def str_injective(st, a, b):
    s_of = models.uf('py_str_int', IntS, StrS)
    st.assume((s_of(a) == s_of(b)) == (a == b))


@register
class TimestampXmlPyXml(SeqCheck):
    id = 'C18.ts_xml_py_xml'
    prop = 'C18'
    targets_list = (f'{TS}.to_py', f'{TS}.to_xml')
    float_model = 'ieee'
    doc = 'for every integer n in [0, 2^53/1000): to_xml(to_py(str(n))) == str(n) under the IEEE-754 error model'
    trusted = ('int(str(n)) == n, str(int) canonical numeral (uninterpreted + axiom)',
               'IEEE-754 double: fl(x op y) = (x op y)(1+d), |d| <= 2^-53; int->float exact below 2^53',
               'round(x): integer with |round(x) - x| <= 1/2')
    replay_fn = 'C18:ts_xml_py_xml'

    def script(self, run, ex, st, b):
        n = b.int('n')
        st.assume(z3.And(n.e >= 0, n.e < LIMIT_MS))
        s = numeral_axioms(st, n.e)
        cls = V('class', py=(MOD, 'TimestampConverter'))
        outs = []
        for s1, r1 in run(st, f'{TS}.to_py', cls, [vstr(s)]):
            if isinstance(r1, Raise):
                ex.oblige(s1, 'to_py_no_exception', z3.BoolVal(False))
                continue
            for s2, r2 in run(s1, f'{TS}.to_xml', None, [r1]):
                if isinstance(r2, Raise):
                    ex.oblige(s2, 'to_xml_no_exception', z3.BoolVal(False))
                    continue
                r2 = ex.concrete_kind(s2, r2, ('str',))
                if r2.kind != 'str':
                    ex.oblige(s2, 'result_is_str', z3.BoolVal(False))
                    continue
                ex.oblige(s2, 'roundtrip_exact', r2.e == s)
                outs.append((s2, ('ret', r2)))
        return outs


@register
class TimestampPyXmlPy(SeqCheck):
    id = 'C18.ts_py_xml_py'
    prop = 'C18'
    targets_list = (f'{TS}.to_xml', f'{TS}.to_py')
    float_model = 'ieee'
    doc = 'for every float p in [0, 2^40]: |to_py(to_xml(p)) - p| < 0.001 under the IEEE-754 error model'
    trusted = TimestampXmlPyXml.trusted + ('range restriction p <= 2^40 s (beyond ~2^42 s a double cannot resolve 1 ms)',)
    replay_fn = 'C18:ts_py_xml_py'

    def script(self, run, ex, st, b):
        p = b.real('p')
        st.assume(z3.And(p.e >= 0, p.e <= 2 ** 40))
        cls = V('class', py=(MOD, 'TimestampConverter'))
        outs = []
        for s1, r1 in run(st, f'{TS}.to_xml', None, [p]):
            if isinstance(r1, Raise):
                ex.oblige(s1, 'to_xml_no_exception', z3.BoolVal(False))
                continue
            r1 = ex.concrete_kind(s1, r1, ('str',))
            # the string written is the canonical numeral of some integer (contract of str(int)); axiom for it
            j = z3.Int('written')
            s_of = models.uf('py_str_int', IntS, StrS)
            s1.assume(r1.e == s_of(j))
            # str() is injective on ints
            for c in z3_int_consts_in(r1.e):
                str_injective(s1, c, j)
            numeral_axioms(s1, j)
            for s2, r2 in run(s1, f'{TS}.to_py', cls, [r1]):
                if isinstance(r2, Raise):
                    ex.oblige(s2, 'to_py_no_exception', z3.BoolVal(False))
                    continue
                r2v = as_real(ex, s2, r2)
                ex.oblige(s2, 'within_one_ms', z3.And(r2v - p.e < z3.RealVal('1/1000'), p.e - r2v < z3.RealVal('1/1000')))
                outs.append((s2, ('ret', r2)))
        return outs


def z3_int_consts_in(e):
    """Arguments `x` of py_str_int(x) occurring in e."""
    out = []
    seen = set()

    def walk(t):
        if t.get_id() in seen:
            return
        seen.add(t.get_id())
        if z3.is_app(t):
            if t.decl().name() == 'py_str_int':
                out.append(t.arg(0))
            for c in t.children():
                walk(c)
    walk(e)
    return out


@register
class IntegerRoundTrip(SeqCheck):
    id = 'C18.int_roundtrip'
    prop = 'C18'
    targets_list = (f'{MOD}:IntegerConverter.to_xml', f'{MOD}:IntegerConverter.to_py')
    doc = 'IntegerConverter: to_py(to_xml(n)) == n for every int n; to_py(None) is None'
    trusted = ('int(str(n)) == n (uninterpreted + axiom)',)

    def script(self, run, ex, st, b):
        n = b.int('n')
        numeral_axioms(st, n.e)
        outs = []
        for s1, r1 in run(st, f'{MOD}:IntegerConverter.to_xml', None, [n]):
            if isinstance(r1, Raise):
                ex.oblige(s1, 'to_xml_no_exception', z3.BoolVal(False))
                continue
            for s2, r2 in run(s1, f'{MOD}:IntegerConverter.to_py', None, [r1]):
                if isinstance(r2, Raise):
                    ex.oblige(s2, 'to_py_no_exception', z3.BoolVal(False))
                    continue
                ex.oblige(s2, 'roundtrip', as_int(ex, s2, r2) == n.e)
                outs.append((s2, ('ret', r2)))
        for s3, r3 in run(st.fork(), f'{MOD}:IntegerConverter.to_py', None, [NONE]):
            ex.oblige(s3, 'none_is_none', z3.BoolVal(not isinstance(r3, Raise) and r3.kind == 'none'))
        return outs


@register
class BooleanRoundTrip(SeqCheck):
    id = 'C18.bool_roundtrip'
    prop = 'C18'
    targets_list = (f'{MOD}:BooleanConverter.to_xml', f'{MOD}:BooleanConverter.to_py')
    doc = 'BooleanConverter: to_xml(b) in {true,false} and to_py(to_xml(b)) == b'

    def script(self, run, ex, st, b):
        v = b.bool('b')
        outs = []
        for s1, r1 in run(st, f'{MOD}:BooleanConverter.to_xml', None, [v]):
            if isinstance(r1, Raise):
                ex.oblige(s1, 'to_xml_no_exception', z3.BoolVal(False))
                continue
            r1 = ex.concrete_kind(s1, r1, ('str',))
            ex.oblige(s1, 'lexical_form', z3.Or(r1.e == z3.StringVal('true'), r1.e == z3.StringVal('false')))
            for s2, r2 in run(s1, f'{MOD}:BooleanConverter.to_py', None, [r1]):
                if isinstance(r2, Raise):
                    ex.oblige(s2, 'to_py_no_exception', z3.BoolVal(False))
                    continue
                r2 = ex.concrete_kind(s2, r2, ('bool',))
                ex.oblige(s2, 'roundtrip', r2.e == v.e if r2.kind == 'bool' else z3.BoolVal(False))
                outs.append((s2, ('ret', r2)))
        return outs


@register
class BooleanLexical(FnCheck):
    id = 'C18.bool_lexical'
    prop = 'C18'
    target = f'{MOD}:BooleanConverter.to_py'
    doc = ('xsd:boolean lexical space is {true,false,1,0}: to_py maps true/1 -> True, false/0 -> False and any other '
           'string is rejected (raises) rather than coerced to a value')
    replay_fn = 'C18:bool_lexical'

    def setup(self, b):
        self.s = b.str('xml_value')
        return None, [self.s], {}

    def post(self, ex, st0, st, outcome, b):
        s = self.s.e
        T = lambda x: s == z3.StringVal(x)   # noqa: E731
        legal_true = z3.Or(T('true'), T('1'))
        legal_false = z3.Or(T('false'), T('0'))
        if outcome[0] == 'ret':
            r = ex.concrete_kind(st, outcome[1], ('bool',))
            if r.kind != 'bool':
                ex.oblige(st, 'returns_bool', z3.BoolVal(False))
                return
            ex.oblige(st, 'true_forms', z3.Implies(legal_true, r.e))
            ex.oblige(st, 'false_forms', z3.Implies(legal_false, z3.Not(r.e)))
            ex.oblige(st, 'illegal_forms_rejected', z3.Or(legal_true, legal_false))
        else:
            ex.oblige(st, 'legal_forms_accepted', z3.Not(z3.Or(legal_true, legal_false)))


# --------------------------------------------------------------------------------------------------------------------
# "malformed values are rejected" also depends on the read path of the container properties handing EVERY present
# lexical value - the empty string included - to its converter (which is where it is rejected or converted)
from pyvc.api import Pure, vany, fresh   # noqa: E402

XS = 'sdc11073.xml_types.xml_structure'


@register
class AttributeReadUsesConverter(FnCheck):
    id = 'C18.attribute_read_hands_every_present_value_to_its_converter'
    prop = 'C18'
    target = f'{XS}:_AttributeBase.get_py_value_from_node'
    container_hints = {'node.attrib': 'dict'}
    doc = ('_AttributeBase.get_py_value_from_node (the read path of every typed XML attribute: timestamps, decimals, '
           'integers / version counters, durations, enums, booleans): an attribute that is PRESENT - with whatever text, '
           'the empty string included - is converted by converter.to_py and the result (or the converter\'s exception) is '
           'the outcome; only an absent attribute (or no node) reads as None. No lexical value is coerced on the way')

    def setup(self, b):
        st = b.st
        self.name = b.str('attribute_name')
        self.attrib = b.obj('attrib')
        st.assume(z3.Select(st.get_arr('C'), self.attrib.e) == b.ex.ctx.builtin_class_ids['dict'])
        st.assume(z3.Select(st.get_arr('DN'), self.attrib.e) >= 0)
        node = b.obj('node', cls='LxmlElement', attrib=self.attrib)
        self.no_node = b.bool('node_is_none')
        # attribute values of an lxml element are strings
        k = z3.Const('k!at', Val)
        dk, dv = z3.Select(st.get_arr('DK'), self.attrib.e), z3.Select(st.get_arr('DV'), self.attrib.e)
        st.assume(z3.ForAll([k], z3.Implies(z3.Select(dk, k), Val.is_str(z3.Select(dv, k)))))
        self.dk, self.dv = dk, dv
        self.topy = z3.Function('converter_to_py', Val, Val)
        self.accepts = z3.Function('converter_accepts', Val, BoolS)
        prop = b.obj('self', cls=(XS, '_AttributeBase'), _attribute_name=self.name, _converter=b.obj('converter'))
        b.distinct(prop, node, self.attrib)
        st.ghost['converted'] = ()
        return prop, [b.obj('instance'), vany(z3.If(self.no_node.e, Val.none, Val.ref(node.e)), maybe_none=True)], {}

    def callees(self, ex):
        def to_py(ex_, st, args, kwargs):
            x = st.box(args[0])
            st.ghost['converted'] = st.ghost['converted'] + (x,)
            bad = st.fork()
            bad.assume(z3.Not(self.accepts(x)))
            st.assume(self.accepts(x))
            return [(bad, Raise(ex_.mk_exc('ValueError', 'converter.to_py'))), (st, vany(self.topy(x)))]
        return {'*.to_py': Pure(to_py, name='converter.to_py: converts or rejects (C18 converter contracts)')}

    def post(self, ex, st0, st, outcome, b):
        key = Val.str(self.name.e)
        present = z3.And(z3.Not(self.no_node.e), z3.Select(self.dk, key))
        text = z3.Select(self.dv, key)
        conv = st.ghost['converted']
        if outcome[0] == 'exc':
            ex.oblige(st, 'only_the_converter_rejects', z3.BoolVal('converter.to_py' in outcome[1].origin), info={'exc': repr(outcome[1])})
            ex.oblige(st, 'rejected_value_is_the_attribute_text', z3.And(present, z3.Not(self.accepts(text))))
            return
        r = st.box(outcome[1])
        ex.oblige(st, 'absent_attribute_reads_as_none', z3.Implies(z3.Not(present), Val.is_none(r)))
        ex.oblige(st, 'present_attribute_is_converted_whatever_its_text', z3.Implies(present, z3.And(
            z3.BoolVal(len(conv) == 1), conv[0] == text if len(conv) == 1 else z3.BoolVal(False), r == self.topy(text))))
