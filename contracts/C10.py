"""C10 - context association invariants hold after any sequence of context changes."""
from __future__ import annotations

import z3

from pyvc.api import (FnCheck, LoopSpec, Pure, Inline, register, Build, V, Val, SeqVal, IntS, RealS, BoolS, StrS, NONE,
                      Raise, Unsupported, fresh, vany, vint, vreal, vbool, vstr, vref, as_int, unbox_as, truthy, field)
from pyvc.state import FRESH_BASE

TR = 'sdc11073.mdib.transactions'
PX = 'sdc11073.mdib.providermdibxtra'
PT = 'sdc11073.xml_types.pm_types'
ASSOC = {'NO_ASSOCIATION': 'No', 'PRE_ASSOCIATION': 'Pre', 'ASSOCIATED': 'Assoc', 'DISASSOCIATED': 'Dis'}


def assoc(name):
    return Val.str(z3.StringVal(ASSOC[name]))


class PmTypesHook:
    """`<x>.pm_types.ContextAssociation` (data model looked up at run time) is the enum class of pm_types.py."""
    tracked_names = ()

    def on_attr_read(self, ex, st, o, attr, node):
        if attr == 'ContextAssociation' and o.path and o.path.split('.')[-1] == 'pm_types':
            return [(st, V('class', py=(PT, 'ContextAssociation')))]
        return None


@register
class EnumValues(FnCheck):
    """The contract's table of enum values is read against the real source (anti-drift)."""
    id = 'C10.enum_values'
    prop = 'C10'
    tag = 'F'
    target = f'{TR}:ContextStateTransaction.process_transaction'   # any function; only the class constants are read

    doc = 'ContextAssociation enum members have the string values the contracts assume'

    def generate(self, repo):
        import ast
        from pyvc.api import VC
        mod = repo.module(PT)
        cdef = mod.classes['ContextAssociation']
        got = {n.targets[0].id: n.value.value for n in cdef.body
               if isinstance(n, ast.Assign) and isinstance(n.value, ast.Constant)}
        vcs = [VC(f'{self.id}.{k}', [], z3.BoolVal(got.get(k) == v), 'scan') for k, v in ASSOC.items()]
        return vcs, {'function': f'{PT}:ContextAssociation', 'trusted': []}


@register
class MkContextState(FnCheck):
    id = 'C10.mk_context_state'
    prop = 'C10'
    target = f'{TR}:ContextStateTransaction.mk_context_state'
    container_hints = {'self._state_updates': 'dict'}
    optional_fields = ()
    doc = ('mk_context_state(descriptor, handle, set_associated=True): the new state is bound to exactly the MdibVersion '
           'this transaction will create (BindingMdibVersion == new_mdib_version), gets a BindingStartTime and is '
           'ASSOCIATED; it is registered in the transaction under its handle (old = None); a handle that already exists '
           'in the MDIB or in the transaction, an unknown or non-context descriptor are rejected without any change')

    def setup(self, b):
        st = b.st
        ids = b.ex.ctx.builtin_class_ids
        self.upd = b.obj('state_updates')
        st.assume(z3.Select(st.get_arr('C'), self.upd.e) == ids['dict'])
        st.assume(z3.Select(st.get_arr('DN'), self.upd.e) >= 0)
        self.nv = b.int('new_mdib_version')
        self.mdib = b.obj('mdib')
        self.o = b.obj('self', cls=(TR, 'ContextStateTransaction'), _mdib=self.mdib, _state_updates=self.upd,
                       new_mdib_version=self.nv)
        self.dh = b.any('descriptor_handle', maybe_none=True)
        st.assume(z3.Or(Val.is_none(self.dh.e), Val.is_str(self.dh.e)))
        self.sh = b.any('context_state_handle', maybe_none=True)
        st.assume(z3.Or(Val.is_none(self.sh.e), z3.And(Val.is_str(self.sh.e), z3.Length(Val.s(self.sh.e)) > 0)))
        self.set_assoc = b.bool('set_associated')
        self.descr_exists, self.is_ctx_descr, self.state_exists = b.bool('descriptor_exists'), b.bool('is_context_descriptor'), b.bool('state_handle_exists')
        self.descr = b.obj('descriptor', is_context_descriptor=self.is_ctx_descr)
        b.distinct(self.upd, self.mdib, self.o, self.descr)
        return self.o, [self.dh, self.sh], {'set_associated': self.set_assoc}

    def hooks(self, ex):
        return PmTypesHook()

    def callees(self, ex):
        def get_one(ex_, st, args, kwargs):
            an = kwargs.get('allow_none')
            allow = an is not None and z3.is_true(z3.simplify(truthy(an, st)))
            which = 'state' if allow else 'descr'
            if which == 'descr':
                st.ghost['c:descr_lookup'] = st.box(args[0])
                miss = st.fork()
                miss.assume(z3.Not(self.descr_exists.e))
                st.assume(self.descr_exists.e)
                return [(miss, Raise(ex_.mk_exc('KeyError', 'get_one'))), (st, self.descr)]
            st.ghost['c:state_lookup'] = st.box(args[0])
            old = st.alloc('ExistingState')
            return [(st, vany(z3.If(self.state_exists.e, Val.ref(old.e), Val.none), maybe_none=True))]

        def mk_state(ex_, st, args, kwargs):
            s = st.alloc('NewContextState')
            st.write_field(s, 'Handle', NONE)
            st.write_field(s, 'BindingMdibVersion', NONE)
            st.write_field(s, 'BindingStartTime', NONE)
            st.write_field(s, 'ContextAssociation', vstr(ASSOC['NO_ASSOCIATION']))
            st.ghost['c:new'] = s
            return s

        def item(ex_, st, args, kwargs):
            o = st.alloc('TransactionItem')
            st.write_field(o, 'old', args[0])
            st.write_field(o, 'new', args[1])
            return o
        return {'*.get_one': Pure(get_one, name='unique index get_one (C11)'),
                '*.mk_state_container': Pure(mk_state, name='data_model.mk_state_container'),
                'sdc11073.mdib.transactionsprotocol:TransactionItem': Pure(item, name='TransactionItem(old, new)'),
                'time.time': Pure(lambda e, s, a, k: vreal(fresh(RealS, 'now'))),
                '*.set_version': Pure(lambda e, s, a, k: NONE, name='set_version (C02.set_version.context_states)'),
                'uuid.uuid4': Pure(self._uuid4, name='uuid4(): object with a non-empty hex string', trusted=True)}

    @staticmethod
    def _uuid4(ex_, st, args, kwargs):
        u = st.alloc('UUID')
        h = fresh(StrS, 'uuid_hex')
        st.assume(z3.Length(h) == 32)
        st.write_field(u, 'hex', vstr(h))
        return u

    def frame(self, ex, st0, st, name):
        ex.oblige(st, name, z3.And(
            z3.Select(st.get_arr('DK'), self.upd.e) == z3.Select(st0.get_arr('DK'), self.upd.e),
            z3.Select(st.get_arr('DV'), self.upd.e) == z3.Select(st0.get_arr('DV'), self.upd.e)))

    def post(self, ex, st0, st, outcome, b):
        in_tr = z3.Select(z3.Select(st0.get_arr('DK'), self.upd.e), self.sh.e)
        dh_ok = z3.And(Val.is_str(self.dh.e), z3.Length(Val.s(self.dh.e)) > 0)
        if outcome[0] == 'exc':
            self.frame(ex, st0, st, 'rejected_call_changes_nothing')
            ex.oblige(st, 'rejection_reasons', z3.BoolVal(outcome[1].cls in ('ValueError', 'KeyError')))
            if outcome[1].cls == 'ValueError':
                ex.oblige(st, 'value_error_has_a_cause', z3.Or(
                    z3.Not(dh_ok), in_tr, z3.Not(self.is_ctx_descr.e), z3.And(Val.is_str(self.sh.e), self.state_exists.e)))
            return
        new = st.ghost.get('c:new')
        ex.oblige(st, 'accepted_only_if_valid', z3.And(dh_ok, z3.Not(in_tr), self.descr_exists.e, self.is_ctx_descr.e,
                                                      z3.Or(Val.is_none(self.sh.e), z3.Not(self.state_exists.e))))
        if new is None:
            ex.oblige(st, 'state_created', z3.BoolVal(False))
            return
        ex.oblige(st, 'returns_the_new_state', st.box(outcome[1]) == Val.ref(new.e))
        h = field(st, new, 'Handle')
        ex.oblige(st, 'handle_is_requested_or_generated', z3.And(z3.Not(Val.is_none(h)), z3.Implies(Val.is_str(self.sh.e), h == self.sh.e)))
        ex.oblige(st, 'associated_state_is_bound_to_new_mdib_version', z3.Implies(self.set_assoc.e, z3.And(
            field(st, new, 'BindingMdibVersion') == Val.int(self.nv.e), Val.is_real(field(st, new, 'BindingStartTime')),
            field(st, new, 'ContextAssociation') == assoc('ASSOCIATED'))))
        ex.oblige(st, 'not_associated_unless_requested', z3.Implies(z3.Not(self.set_assoc.e),
                                                                    field(st, new, 'ContextAssociation') == assoc('NO_ASSOCIATION')))
        item = z3.Select(z3.Select(st.get_arr('DV'), self.upd.e), h)
        ex.oblige(st, 'registered_as_new_state', z3.And(
            z3.Select(z3.Select(st.get_arr('DK'), self.upd.e), h), Val.is_ref(item),
            Val.is_none(z3.Select(st.get_arr('f:old'), Val.oid(item))),
            z3.Select(st.get_arr('f:new'), Val.oid(item)) == Val.ref(new.e)))
        if 'c:state_lookup' in st.ghost:
            ex.oblige(st, 'uniqueness_checked_for_requested_handle', st.ghost['c:state_lookup'] == self.sh.e)


@register
class TxDisassociateAll(FnCheck):
    id = 'C10.tx_disassociate_all'
    prop = 'C10'
    target = f'{TR}:ContextStateTransaction.disassociate_all'
    container_hints = {'self._state_updates': 'dict'}
    optional_fields = ('UnbindingMdibVersion',)
    field_types = {'Handle': 'str'}
    doc = ('ContextStateTransaction.disassociate_all (per stored state of the descriptor): the state named by '
           'ignored_handle and states already in the transaction are not touched; every other state that is not yet '
           'properly disassociated is taken into the transaction (get_context_state => version + 1) and marked '
           'DISASSOCIATED; a missing UnbindingMdibVersion is set to exactly new_mdib_version together with a '
           'BindingEndTime; an existing unbinding version is kept; properly disassociated states are left alone')

    def setup(self, b):
        st = b.st
        ids = b.ex.ctx.builtin_class_ids
        self.upd = b.obj('state_updates')
        st.assume(z3.Select(st.get_arr('C'), self.upd.e) == ids['dict'])
        self.nv = b.int('new_mdib_version')
        self.mdib = b.obj('mdib')
        self.o = b.obj('self', cls=(TR, 'ContextStateTransaction'), _mdib=self.mdib, _state_updates=self.upd,
                       new_mdib_version=self.nv)
        self.stored = b.obj('stored_states')
        st.assume(z3.Select(st.get_arr('C'), self.stored.e) == ids['list'])
        self.ignored = b.any('ignored_handle', maybe_none=True)
        st.assume(z3.Or(Val.is_none(self.ignored.e), Val.is_str(self.ignored.e)))
        b.distinct(self.upd, self.mdib, self.o, self.stored)
        seq = z3.Select(st.get_arr('L'), self.stored.e)
        j = z3.Int('j!stored')
        st.assume(z3.ForAll([j], z3.Implies(z3.And(0 <= j, j < z3.Length(seq)), z3.And(
            Val.is_ref(seq[j]), Val.oid(seq[j]) > 0, Val.oid(seq[j]) < FRESH_BASE))))
        return self.o, [b.str('context_descriptor_handle')], {'ignored_handle': self.ignored}

    def hooks(self, ex):
        chk = self

        class H(PmTypesHook):
            tracked_names = ('get_context_state',)

            def on_loop_havoc(self, ex_, st, node):
                st.ghost['got'] = ()
        return H()

    def callees(self, ex):
        def lookup(ex_, st, args, kwargs):
            return self.stored

        def get_ctx(ex_, st, args, kwargs):
            # contract C02.get_context_state: fresh copy, StateVersion + 1, registered (old, new)
            c = st.alloc('TransactionCopy')
            src = st.locals.get('old_state')
            st.ghost['got'] = st.ghost.get('got', ()) + ((st.box(args[0]), c),)
            if src is not None:
                se = src.e if src.kind == 'ref' else Val.oid(src.e)
                for f in ('Handle', 'ContextAssociation', 'UnbindingMdibVersion', 'BindingEndTime'):
                    st.set_arr('f:' + f, z3.Store(st.get_arr('f:' + f), c.e, z3.Select(st.get_arr('f:' + f), se)))
            return c
        return {'*.get': Pure(lookup, name='descriptor_handle index get (C11)'),
                f'{TR}:ContextStateTransaction.get_context_state': Pure(get_ctx, name='get_context_state (C02.get_context_state)'),
                'time.time': Pure(lambda e, s, a, k: vreal(fresh(RealS, 'now')))}

    def loops(self, ex):
        def body(ex_, st, env):
            if env['_phase'] != 'preserve':
                return z3.BoolVal(True)
            e = env['_seq'][env['_k'] - 1]
            pre = env['_entry']
            oe = Val.oid(e)
            h = Val.str(Val.s(z3.Select(pre.get_arr('f:Handle'), oe)))
            assoc0 = z3.Select(pre.get_arr('f:ContextAssociation'), oe)
            unb0 = z3.Select(pre.get_arr('f:UnbindingMdibVersion'), oe)
            skip = z3.Or(h == self.ignored.e, z3.Select(z3.Select(pre.get_arr('DK'), self.upd.e), h))
            needs = z3.Or(assoc0 != assoc('DISASSOCIATED'), Val.is_none(unb0))
            got = st.ghost.get('got', ())
            ob = lambda n, f: ex_.oblige(st, 'state.' + n, f, kind='loop')   # noqa: E731
            ob('taken_into_transaction_iff_needed', z3.BoolVal(len(got) == 1) == z3.And(z3.Not(skip), needs))
            ob('stored_state_itself_never_written', z3.And(
                z3.Select(st.get_arr('f:ContextAssociation'), oe) == assoc0,
                z3.Select(st.get_arr('f:UnbindingMdibVersion'), oe) == unb0))
            if len(got) == 1:
                c = got[0][1]
                ob('requested_by_its_own_handle', got[0][0] == h)
                ob('marked_disassociated', field(st, c, 'ContextAssociation') == assoc('DISASSOCIATED'))
                ob('missing_unbinding_version_is_new_mdib_version', z3.Implies(Val.is_none(unb0), z3.And(
                    field(st, c, 'UnbindingMdibVersion') == Val.int(self.nv.e), Val.is_real(field(st, c, 'BindingEndTime')))))
                ob('existing_unbinding_version_kept', z3.Implies(z3.Not(Val.is_none(unb0)), field(st, c, 'UnbindingMdibVersion') == unb0))
            return z3.BoolVal(True)
        return {0: LoopSpec(inv=body, havoc_heap=['L'])}

    def finish(self, ex, st0, outcomes, b):
        names = {o.name for o in ex.ctx.obligations}
        ex.oblige(st0, 'every_stored_state_is_examined', z3.BoolVal('state.taken_into_transaction_iff_needed' in names))

    def post(self, ex, st0, st, outcome, b):
        if outcome[0] == 'exc':
            ex.oblige(st, 'never_raises', z3.BoolVal(False), info={'exc': repr(outcome[1])})


@register
class EntityDisassociateAll(FnCheck):
    id = 'C10.entity_disassociate_all'
    prop = 'C10'
    target = f'{PX}:ProviderMdibMethods.disassociate_all'
    optional_fields = ('UnbindingMdibVersion',)
    field_types = {'Handle': 'str', 'ContextAssociation': 'str'}
    doc = ('ProviderMdibMethods.disassociate_all (entity interface, per state): the ignored state and states without '
           'association are untouched; every other state ends DISASSOCIATED with an unbinding version - a missing one '
           'is set to the given MdibVersion with a BindingEndTime, an existing one is kept')

    def setup(self, b):
        st = b.st
        self.o = b.obj('self', cls=(PX, 'ProviderMdibMethods'))
        self.states_list = b.obj('state_values')
        st.assume(z3.Select(st.get_arr('C'), self.states_list.e) == b.ex.ctx.builtin_class_ids['list'])
        self.entity = b.obj('entity')
        self.version = b.int('unbinding_mdib_version')
        self.ignored = b.any('ignored_handle', maybe_none=True)
        st.assume(z3.Or(Val.is_none(self.ignored.e), Val.is_str(self.ignored.e)))
        seq = z3.Select(st.get_arr('L'), self.states_list.e)
        j = z3.Int('j!stored')
        st.assume(z3.ForAll([j], z3.Implies(z3.And(0 <= j, j < z3.Length(seq)), z3.And(
            Val.is_ref(seq[j]), Val.oid(seq[j]) > 0, Val.oid(seq[j]) < FRESH_BASE))))
        return self.o, [self.entity, self.version], {'ignored_handle': self.ignored}

    def hooks(self, ex):
        return PmTypesHook()

    def callees(self, ex):
        return {'*.values': Pure(lambda e, s, a, k: self.states_list, name='entity.states.values()'),
                'time.time': Pure(lambda e, s, a, k: vreal(fresh(RealS, 'now')))}

    def loops(self, ex):
        def body(ex_, st, env):
            if env['_phase'] != 'preserve':
                return z3.BoolVal(True)
            e = env['_seq'][env['_k'] - 1]
            pre = env['_entry']
            oe = Val.oid(e)
            sel = lambda s_, f: z3.Select(s_.get_arr('f:' + f), oe)   # noqa: E731
            h, a0, u0 = Val.str(Val.s(sel(pre, 'Handle'))), Val.str(Val.s(sel(pre, 'ContextAssociation'))), sel(pre, 'UnbindingMdibVersion')
            a1, u1 = sel(st, 'ContextAssociation'), sel(st, 'UnbindingMdibVersion')
            skip = z3.Or(h == self.ignored.e, a0 == assoc('NO_ASSOCIATION'))
            ob = lambda n, f: ex_.oblige(st, 'state.' + n, f, kind='loop')   # noqa: E731
            ob('ignored_or_unassociated_untouched', z3.Implies(skip, z3.And(a1 == sel(pre, 'ContextAssociation'), u1 == u0)))
            ob('others_end_disassociated_with_unbinding_version', z3.Implies(z3.Not(skip), z3.And(
                Val.s(a1) == z3.StringVal(ASSOC['DISASSOCIATED']), z3.Not(Val.is_none(u1)))))
            ob('missing_unbinding_version_is_given_version', z3.Implies(z3.And(z3.Not(skip), Val.is_none(u0)), z3.And(
                u1 == Val.int(self.version.e), Val.is_real(sel(st, 'BindingEndTime')))))
            ob('existing_unbinding_version_kept', z3.Implies(z3.Not(Val.is_none(u0)), u1 == u0))
            return z3.BoolVal(True)
        return {0: LoopSpec(inv=body, havoc_heap=['L'])}

    def finish(self, ex, st0, outcomes, b):
        names = {o.name for o in ex.ctx.obligations}
        ex.oblige(st0, 'every_state_is_examined', z3.BoolVal('state.others_end_disassociated_with_unbinding_version' in names))

    def post(self, ex, st0, st, outcome, b):
        if outcome[0] == 'exc':
            ex.oblige(st, 'never_raises', z3.BoolVal(False), info={'exc': repr(outcome[1])})


@register
class SetLocation(FnCheck):
    id = 'C10.set_location'
    prop = 'C10'
    tag = 'S'
    opaque_ok = True
    target = f'{PX}:ProviderMdibMethods.set_location'
    doc = ('set_location: inside ONE context state transaction, first every other state of the location descriptor is '
           'disassociated (C10.tx_disassociate_all), then a new state is created with set_associated=True '
           '(C10.mk_context_state) for the same descriptor and filled from the location => at most one associated '
           'location, all version stamps equal the MdibVersion of that single commit (C02.process.context)')

    def setup(self, b):
        self.o = b.obj('self', cls=(PX, 'ProviderMdibMethods'))
        self.descr = b.obj('location_descriptor', Handle=b.str('location_descriptor_handle'))
        b.st.ghost['steps'] = ()
        return self.o, [b.obj('sdc_location')], {}

    def callees(self, ex):
        def lookup(ex_, st, args, kwargs):
            return self.descr

        def tx(ex_, st, args, kwargs):
            st.ghost['steps'] += (('open_transaction',),)
            m = st.alloc('ContextStateTransaction')
            st.ghost['c:mgr'] = m
            return m

        def dis(ex_, st, args, kwargs):
            st.ghost['steps'] += (('disassociate_all', st.box(args[0]), len(args) > 1 or 'ignored_handle' in kwargs),)
            return st.alloc('list')

        def mk(ex_, st, args, kwargs):
            sa = kwargs.get('set_associated')
            st.ghost['steps'] += (('mk_context_state', st.box(args[0]), sa is not None and z3.is_true(z3.simplify(truthy(sa, st))), len(args)),)
            s = st.alloc('NewLocationState')
            st.ghost['c:new'] = s
            return s

        def upd(ex_, st, args, kwargs):
            st.ghost['steps'] += (('update_from_sdc_location', st.box(args[0])),)
            return NONE
        return {'*.get_one': Pure(lookup, name='index get_one (C11)'),
                '*.context_state_transaction': Pure(tx, name='context_state_transaction()'),
                '*.disassociate_all': Pure(dis, name='disassociate_all (C10.tx_disassociate_all)'),
                '*.mk_context_state': Pure(mk, name='mk_context_state (C10.mk_context_state)'),
                '*.update_from_sdc_location': Pure(upd, name='update_from_sdc_location (C16)')}

    def hooks(self, ex):
        class H:
            tracked_names = ('Validator',)

            @staticmethod
            def on_with_enter(ex_, st, key, cm, node):
                st.ghost['in_with'] = st.ghost.get('in_with', 0) + 1

            @staticmethod
            def with_value(ex_, st, key, cm):
                return cm

            @staticmethod
            def on_with_exit(ex_, st, key, cm, node, sig):
                st.ghost['steps'] += (('close_transaction',),)
                st.ghost['in_with'] = st.ghost.get('in_with', 0) - 1
        return H

    def post(self, ex, st0, st, outcome, b):
        if outcome[0] == 'exc':
            return
        steps = st.ghost['steps']
        names = [s[0] for s in steps]
        ex.oblige(st, 'one_transaction_disassociate_then_associate', z3.BoolVal(
            names == ['open_transaction', 'disassociate_all', 'mk_context_state', 'update_from_sdc_location', 'close_transaction']))
        if names[:3] == ['open_transaction', 'disassociate_all', 'mk_context_state']:
            h = Val.str(b.symbols['location_descriptor_handle'].e)
            ex.oblige(st, 'same_descriptor_for_both_steps', z3.And(steps[1][1] == h, steps[2][1] == h))
            ex.oblige(st, 'nothing_is_exempted_from_disassociation', z3.BoolVal(steps[1][2] is False))
            ex.oblige(st, 'new_state_is_created_associated_with_generated_handle', z3.BoolVal(steps[2][2] is True and steps[2][3] == 1))


# --------------------------------------------------------------------------------------------------------------------
# "these versions equal the MdibVersion at which the change became visible": mk_context_state / disassociate_all stamp
# new_mdib_version (proved above). That this IS the version the commit creates rests on three facts proved under C02 and
# re-checked here, because a change to any of them breaks C10 without touching the context code:
#   - the transaction object (whose constructor computes new_mdib_version = mdib_version + 1, C02.tx_init) is created
#     INSIDE the transaction lock + mdib_lock, so no other commit can happen between the snapshot and the commit;
#   - the context commit and the descriptor commit set mdib_version to exactly new_mdib_version.
from contracts import C02 as _c02   # noqa: E402


def _rereg(base, new_id, doc):
    cls = type('C10_' + base.__name__, (base,), {'id': new_id, 'prop': 'C10', 'doc': doc})
    register(cls)


_rereg(_c02.TransactionManager, 'C10.version_snapshot_and_commit_in_one_critical_section',
       '_transaction_manager: the transaction object is created, used and committed while _tr_lock and mdib_lock are held '
       '(C02.transaction_manager re-checked): the new_mdib_version a context state is stamped with cannot be overtaken')
_rereg(_c02.TxInit, 'C10.new_mdib_version_is_the_next_version',
       '_TransactionBase.__init__: new_mdib_version = mdib_version + 1 at creation (C02.tx_init re-checked)') \
    if hasattr(_c02, 'TxInit') else None
from pyvc.api import REGISTRY as _REG   # noqa: E402
for _cls in list(_REG.get('C02', [])):
    _cls = _cls if isinstance(_cls, type) else type(_cls)
    if getattr(_cls, 'id', None) == 'C02.process.context':
        _rereg(_cls, 'C10.context_commit_creates_exactly_the_stamped_version',
               'ContextStateTransaction.process_transaction sets mdib_version to exactly new_mdib_version - the value '
               'BindingMdibVersion / UnbindingMdibVersion were stamped with (C02.process.context re-checked)')
_rereg(_c02.DescriptorProcessTransaction, 'C10.descriptor_commit_creates_exactly_the_stamped_version',
       'DescriptorTransaction.process_transaction (set_location style changes inside a descriptor transaction) sets '
       'mdib_version to exactly new_mdib_version (C02.descriptor_process_transaction re-checked)')
