"""C19 - with TLS configured no endpoint is advertised or contacted in plaintext."""
from __future__ import annotations

import ast

import z3

from pyvc.state import FRESH_BASE, LOOP_BASE
from pyvc.api import (FnCheck, ScanCheck, LoopSpec, Pure, Inline, register, Build, V, Val, SeqVal, IntS, RealS, BoolS,
                      StrS, NONE, Raise, Unsupported, fresh, vany, vint, vreal, vbool, vstr, vref, as_int, unbox_as,
                      truthy, field)

CL = 'sdc11073.certloader'
PI = 'sdc11073.provider.providerimpl'
CI = 'sdc11073.consumer.consumerimpl'
SC = 'sdc11073.pysoap.soapclient'
HS = 'sdc11073.httpserver.httpserverimpl'


@register
class MkSslContexts(FnCheck):
    id = 'C19.mk_ssl_contexts'
    prop = 'C19'
    opaque_ok = True
    target = f'{CL}:mk_ssl_contexts'
    doc = ('mk_ssl_contexts with a CA file: the client context AND the server context both get verify_mode = '
           'ssl.CERT_REQUIRED and load_verify_locations(ca_file); both are returned in the container under the right '
           'role (client protocol for client_context, server protocol for server_context)')
    trusted = ('ssl.SSLContext enforces verify_mode / verify locations as configured',)

    def setup(self, b):
        self.ca_given = b.bool('ca_file_given')
        self.ca = b.obj('ca_file', cls='Path')
        self.key, self.cert = b.obj('key_file', cls='Path'), b.obj('cert_file', cls='Path')
        ca = vany(z3.If(self.ca_given.e, Val.ref(self.ca.e), Val.none), maybe_none=True, path='ca_file')
        b.st.ghost['ctx'] = ()
        # every optional argument is symbolic: a cipher string / password may or may not be given
        self.cyphers_given = b.bool('cyphers_given')
        cy = vany(z3.If(self.cyphers_given.e, Val.str(b.str('cyphers').e), Val.none), maybe_none=True, path='cyphers')
        pw = vany(z3.If(b.bool('password_given').e, Val.str(b.str('ssl_passwd').e), Val.none), maybe_none=True, path='ssl_passwd')
        return None, [self.key, self.cert, ca], {'cyphers': cy, 'ssl_passwd': pw}

    def callees(self, ex):
        def exists(ex_, st, args, kwargs):
            return vbool(True)

        def mk_ctx(ex_, st, args, kwargs):
            c = st.alloc('SSLContext')
            proto = args[0].py.name if args and args[0].kind == 'func' else '?'
            st.ghost['ctx'] = st.ghost['ctx'] + ((c.e, proto),)
            st.write_field(c, 'verify_mode', vstr('<default>'))
            return c

        def container(ex_, st, args, kwargs):
            st.ghost['c:container'] = (st.box(kwargs['client_context']), st.box(kwargs['server_context']))
            return st.alloc('SSLContextContainer')
        return {'*.exists': Pure(exists, name='Path.exists() (files present)'),
                'ssl.SSLContext': Pure(mk_ctx, name='ssl.SSLContext(protocol)'),
                f'{CL}:SSLContextContainer': Pure(container, name='SSLContextContainer(client_context, server_context)')}

    def hooks(self, ex):
        class H:
            tracked_names = ('load_verify_locations', 'verify_mode')

            @staticmethod
            def on_call(ex_, st, fv, keys, args, kwargs, node):
                if fv.t == 'method' and fv.name == 'load_verify_locations':
                    st.ghost['lvl'] = st.ghost.get('lvl', ()) + ((st.box(fv.recv), st.box(args[0])),)
                    return [(st, NONE)]
                if fv.t == 'method' and fv.name in ('load_cert_chain', 'set_ciphers'):
                    return [(st, NONE)]
                return None
        return H

    def post(self, ex, st0, st, outcome, b):
        if outcome[0] == 'exc':
            return
        ctxs = st.ghost['ctx']
        cont = st.ghost.get('c:container')
        ex.oblige(st, 'two_contexts_one_per_role', z3.BoolVal(
            len(ctxs) == 2 and sorted(p for _, p in ctxs) == ['ssl.PROTOCOL_TLS_CLIENT', 'ssl.PROTOCOL_TLS_SERVER'] and cont is not None))
        if len(ctxs) != 2 or cont is None:
            return
        client = [c for c, p in ctxs if p.endswith('CLIENT')][0]
        server = [c for c, p in ctxs if p.endswith('SERVER')][0]
        ex.oblige(st, 'container_roles_not_swapped', z3.And(cont[0] == Val.ref(client), cont[1] == Val.ref(server)))
        required = st.box(V('func', py=type('F', (), {'t': 'ext', 'name': 'ssl.CERT_REQUIRED', '__repr__': lambda s: "Func(ext,ssl.CERT_REQUIRED)"})()))
        lvl = st.ghost.get('lvl', ())
        for role, c in (('client', client), ('server', server)):
            vm = z3.Select(st.get_arr('f:verify_mode'), c)
            ex.oblige(st, f'{role}_context_requires_peer_certificate', z3.Implies(self.ca_given.e, vm == self.cert_required(ex, st)))
            has = z3.Or(*[z3.And(r == Val.ref(c), a == Val.ref(self.ca.e)) for r, a in lvl]) if lvl else z3.BoolVal(False)
            ex.oblige(st, f'{role}_context_verifies_against_ca_file', z3.Implies(self.ca_given.e, has))

    def cert_required(self, ex, st):
        from pyvc.symex import FuncVal
        return st.box(V('func', py=FuncVal('ext', name='ssl.CERT_REQUIRED')))


@register
class UrlSchemaFrame(ScanCheck):
    id = 'C19.provider_urlschema'
    prop = 'C19'
    doc = ('class-wide frame on SdcProvider: _urlschema is assigned only in __init__, "https" exactly in the branch '
           '`self._ssl_context_container is not None` and "http" otherwise; _ssl_context_container is assigned only in '
           '__init__ from the constructor argument; every URL the provider builds (get_xaddrs, base_urls) takes its '
           'scheme from _urlschema and no "http://" literal occurs in provider modules')

    def scan(self, repo):
        out = []
        mod = repo.module(PI)
        cdef = mod.classes['SdcProvider']
        assigns = []
        for fn in [n for n in cdef.body if isinstance(n, ast.FunctionDef)]:
            for n in ast.walk(fn):
                if isinstance(n, (ast.Assign, ast.AugAssign, ast.AnnAssign)):
                    tgts = n.targets if isinstance(n, ast.Assign) else [n.target]
                    for t in tgts:
                        if isinstance(t, ast.Attribute) and isinstance(t.value, ast.Name) and t.value.id == 'self' \
                                and t.attr in ('_urlschema', '_ssl_context_container'):
                            assigns.append((t.attr, fn.name, n))
        us = [(f, n) for a, f, n in assigns if a == '_urlschema']
        out.append(('urlschema_assigned_only_in_init', all(f == '__init__' for f, _ in us) and len(us) == 2, {}))
        ok = False
        init = [n for n in cdef.body if isinstance(n, ast.FunctionDef) and n.name == '__init__'][0]
        for n in ast.walk(init):
            if isinstance(n, ast.If) and ast.unparse(n.test) == 'self._ssl_context_container is not None':
                body_v = [ast.unparse(s.value) for s in n.body if isinstance(s, ast.Assign) and ast.unparse(s.targets[0]) == 'self._urlschema']
                else_v = [ast.unparse(s.value) for s in n.orelse if isinstance(s, ast.Assign) and ast.unparse(s.targets[0]) == 'self._urlschema']
                ok = body_v == ["'https'"] and else_v == ["'http'"]
        out.append(('https_iff_tls_container_present', ok, {}))
        sc = [(f, n) for a, f, n in assigns if a == '_ssl_context_container']
        out.append(('tls_container_assigned_only_from_constructor_argument',
                    len(sc) == 1 and sc[0][0] == '__init__' and ast.unparse(sc[0][1].value) == 'ssl_context_container', {}))
        # no hard-coded plaintext scheme in url-building code of the provider package
        bad = []
        for m in ('sdc11073.provider.providerimpl', 'sdc11073.provider.subscriptionmgr_base',
                  'sdc11073.provider.dpwshostedservice', 'sdc11073.provider.subscriptionmgr',
                  'sdc11073.provider.subscriptionmgr_async'):
            mm = repo.module(m)
            for n in ast.walk(mm.tree):
                if isinstance(n, ast.Constant) and isinstance(n.value, str) and n.value.startswith('http://') \
                        and '://' in n.value and not any(k in n.value for k in ('www.', 'schemas.', 'docs.', 'standards.', '.org', 'local.com')):
                    bad.append((m, n.lineno, n.value))
                if isinstance(n, ast.JoinedStr):
                    for part in n.values:
                        if isinstance(part, ast.Constant) and isinstance(part.value, str) and 'http://' in part.value:
                            bad.append((m, n.lineno, part.value))
        out.append(('no_hardcoded_plaintext_scheme_in_provider_urls', not bad, {'found': str(bad)[:200]}))
        return out


@register
class GetXaddrs(FnCheck):
    id = 'C19.get_xaddrs'
    prop = 'C19'
    target = f'{PI}:SdcProvider.get_xaddrs'
    optional_fields = ('_alternative_hostname',)
    cvc5_first = True      # string concatenation / formatting obligations
    doc = 'the advertised device address is "<_urlschema>://..." (hence https when TLS is configured, C19.provider_urlschema)'

    def setup(self, b):
        self.schema = b.str('urlschema')
        srv = b.obj('http_server', server_port=b.int('port'))
        wsd = b.obj('wsd', active_address=b.str('ip'))
        self.o = b.obj('self', cls=(PI, 'SdcProvider'), _urlschema=self.schema, _http_server=srv, _wsdiscovery=wsd,
                       _alternative_hostname=b.any('alt', maybe_none=True), path_prefix=b.str('prefix'))
        b.st.assume(z3.Or(Val.is_none(b.symbols['alt'].e), Val.is_str(b.symbols['alt'].e)))
        return self.o, [], {}

    def callees(self, ex):
        return {f'{PI}:SdcProvider.path_prefix': Pure(lambda e, s, a, k: vstr(fresh(StrS, 'prefix')), name='path_prefix property')}

    def post(self, ex, st0, st, outcome, b):
        if outcome[0] == 'exc':
            ex.oblige(st, 'never_raises', z3.BoolVal(False), info={'exc': repr(outcome[1])})
            return
        r = ex.concrete_kind(st, outcome[1], ('ref',))
        seq = st.list_seq(r)
        ex.oblige(st, 'one_address_with_configured_scheme', z3.And(
            z3.Length(seq) == 1, Val.is_str(seq[0]),
            z3.PrefixOf(z3.Concat(self.schema.e, z3.StringVal('://')), Val.s(seq[0]))))


class _ClientContext(FnCheck):
    """soap clients are created with ssl_context = container.client_context iff TLS is in use."""
    prop = 'C19'
    opaque_ok = True

    def soap_client_summary(self):
        def fn(ex_, st, args, kwargs):
            st.ghost['created'] = st.ghost.get('created', ()) + (st.box(kwargs.get('ssl_context', NONE)),)
            return st.alloc('SoapClient')
        return Pure(fn, name='soap_client_class(..., ssl_context=...)')


@register
class ProviderSoapClient(_ClientContext):
    id = 'C19.provider_soap_client'
    target = f'{PI}:SdcProvider._mk_soap_client'
    optional_fields = ('_ssl_context_container',)
    doc = ('provider-side soap clients (notifications, SubscriptionEnd) are created with the TLS client context iff a TLS '
           'container is configured - never without it when it is')

    def setup(self, b):
        self.tls = b.bool('tls_configured')
        self.cc = b.obj('client_context', cls='SSLContext')
        cont = b.obj('container', cls='SSLContextContainer', client_context=self.cc)
        self.o = b.obj('self', cls=(PI, 'SdcProvider'),
                       _ssl_context_container=vany(z3.If(self.tls.e, Val.ref(cont.e), Val.none), maybe_none=True))
        return self.o, [b.str('netloc'), b.any('accepted_encodings')], {}

    def callees(self, ex):
        return {'cls': self.soap_client_summary(), '*.soap_client_class': self.soap_client_summary(),
                'sdc11073.loghelper:get_logger_adapter': Pure(lambda e, s, a, k: s.alloc('Logger'), name='get_logger_adapter')}

    def post(self, ex, st0, st, outcome, b):
        if outcome[0] == 'exc':
            return
        created = st.ghost.get('created', ())
        ex.oblige(st, 'one_client_created', z3.BoolVal(len(created) == 1))
        if created:
            ex.oblige(st, 'tls_client_context_iff_configured', created[0] == z3.If(self.tls.e, Val.ref(self.cc.e), Val.none))


@register
class ConsumerSoapClient(_ClientContext):
    id = 'C19.consumer_soap_client'
    target = f'{CI}:SdcConsumer.get_soap_client'
    inline = (f'{CI}:SdcConsumer._mk_soap_client',)
    container_hints = {'self._soap_clients': 'dict'}
    doc = ('consumer soap clients: use_ssl = (is_ssl_connection is not False); a new client gets the TLS client context '
           'iff use_ssl; clients are cached per (use_ssl, netloc) so a plaintext client is never reused for TLS; with '
           'TLS enforced (is_ssl_connection True) every client carries the TLS context')

    def setup(self, b):
        st = b.st
        self.mode = b.any('is_ssl_connection', maybe_none=True)
        st.assume(z3.Or(Val.is_none(self.mode.e), Val.is_bool(self.mode.e)))
        self.cc = b.obj('client_context', cls='SSLContext')
        cont = b.obj('container', cls='SSLContextContainer', client_context=self.cc)
        self.cache = b.obj('soap_clients')
        st.assume(z3.Select(st.get_arr('C'), self.cache.e) == b.ex.ctx.builtin_class_ids['dict'])
        st.assume(z3.Select(st.get_arr('DN'), self.cache.e) == 0)      # empty cache: a new client must be created
        st.assume(z3.Select(st.get_arr('DK'), self.cache.e) == z3.K(Val, z3.BoolVal(False)))
        self.o = b.obj('self', cls=(CI, 'SdcConsumer'), is_ssl_connection=self.mode, _ssl_context_container=cont,
                       _soap_clients=self.cache)
        return self.o, [b.str('address')], {}

    def callees(self, ex):
        def urlparse(ex_, st, args, kwargs):
            u = st.alloc('ParseResult')
            st.write_field(u, 'netloc', vstr(fresh(StrS, 'netloc')))
            return u
        return {'*.soap_client_class': self.soap_client_summary(), 'urllib.parse.urlparse': Pure(urlparse, name='urlparse'),
                'sdc11073.loghelper:get_logger_adapter': Pure(lambda e, s, a, k: s.alloc('Logger'), name='get_logger_adapter')}

    def post(self, ex, st0, st, outcome, b):
        if outcome[0] == 'exc':
            return
        created = st.ghost.get('created', ())
        use_ssl = z3.Not(z3.And(Val.is_bool(self.mode.e), z3.Not(Val.b(self.mode.e))))
        ex.oblige(st, 'one_client_created_for_empty_cache', z3.BoolVal(len(created) == 1))
        if created:
            ex.oblige(st, 'tls_context_iff_use_ssl', created[0] == z3.If(use_ssl, Val.ref(self.cc.e), Val.none))
            ex.oblige(st, 'enforced_tls_never_plaintext', z3.Implies(
                z3.And(Val.is_bool(self.mode.e), Val.b(self.mode.e)), created[0] == Val.ref(self.cc.e)))


@register
class ConsumerConnect(FnCheck):
    id = 'C19.consumer_connect'
    prop = 'C19'
    opaque_ok = True
    target = f'{CI}:SdcConsumer._connect'
    doc = ('_connect: when TLS is enforced (is_ssl_connection is True) there is no fallback - the flag is never '
           'cleared and an SSL failure propagates; the plaintext retry exists only for the undecided mode (None)')

    def setup(self, b):
        self.mode = b.any('is_ssl_connection', maybe_none=True)
        b.st.assume(z3.Or(Val.is_none(self.mode.e), Val.is_bool(self.mode.e)))
        self.o = b.obj('self', cls=(CI, 'SdcConsumer'), is_ssl_connection=self.mode)
        return self.o, [], {}

    def callees(self, ex):
        def get_client(ex_, st, args, kwargs):
            st.ghost['clients'] = st.ghost.get('clients', ()) + (z3.Select(st.get_arr('f:is_ssl_connection'), self.o.e),)
            return st.alloc('SoapClient')

        def connect(ex_, st, args, kwargs):
            return [(st.fork(), Raise(ex_.mk_exc('ssl.SSLError', 'connect'))), (st.fork(), Raise(ex_.mk_exc('OSError', 'connect'))), (st, NONE)]
        return {f'{CI}:SdcConsumer.get_soap_client': Pure(get_client, name='get_soap_client (C19.consumer_soap_client)'),
                '*.connect': Pure(connect, name='SoapClient.connect (may raise SSLError / OSError)'),
                '*.close': Pure(lambda e, s, a, k: NONE), f'{CI}:SdcConsumer._forget_soap_client': Pure(lambda e, s, a, k: NONE),
                '*.getpeercert': Pure(lambda e, s, a, k: vany(fresh(Val, 'cert')))}

    def post(self, ex, st0, st, outcome, b):
        forced = z3.And(Val.is_bool(self.mode.e), Val.b(self.mode.e))
        now = field(st, self.o, 'is_ssl_connection')
        ex.oblige(st, 'enforced_tls_is_never_downgraded', z3.Implies(forced, now == Val.bool(True)))
        clients = st.ghost.get('clients', ())
        ex.oblige(st, 'enforced_tls_uses_only_tls_clients', z3.Implies(forced, z3.And(*[c == Val.bool(True) for c in clients]))
                  if clients else z3.BoolVal(True))
        ex.oblige(st, 'enforced_tls_single_attempt', z3.Implies(forced, z3.BoolVal(len(clients) == 1)))
        if outcome[0] == 'ret':
            ex.oblige(st, 'decision_made', z3.Not(Val.is_none(now)))


@register
class ConsumerFlagFrame(ScanCheck):
    id = 'C19.consumer_flag_frame'
    prop = 'C19'
    doc = ('class-wide frame on SdcConsumer: is_ssl_connection is assigned only in __init__ (True when force_ssl_connect, '
           'which requires a container) and in _connect; _ssl_context_container only in __init__ from the argument')

    def scan(self, repo):
        mod = repo.module(CI)
        cdef = mod.classes['SdcConsumer']
        where = {}
        for fn in [n for n in cdef.body if isinstance(n, ast.FunctionDef)]:
            for n in ast.walk(fn):
                if isinstance(n, ast.Assign):
                    for t in n.targets:
                        if isinstance(t, ast.Attribute) and isinstance(t.value, ast.Name) and t.value.id == 'self' \
                                and t.attr in ('is_ssl_connection', '_ssl_context_container'):
                            where.setdefault(t.attr, []).append((fn.name, ast.unparse(n.value)))
        out = [('ssl_flag_assigned_only_in_init_and_connect',
                {f for f, _ in where.get('is_ssl_connection', [])} <= {'__init__', '_connect'}, {'sites': str(where.get('is_ssl_connection'))}),
               ('tls_container_assigned_only_from_constructor_argument',
                where.get('_ssl_context_container') == [('__init__', 'ssl_context_container')], {})]
        init = [n for n in cdef.body if isinstance(n, ast.FunctionDef) and n.name == '__init__'][0]
        ok = False
        for n in ast.walk(init):
            if isinstance(n, ast.If) and ast.unparse(n.test) == 'force_ssl_connect':
                sets = [ast.unparse(s.value) for s in n.body if isinstance(s, ast.Assign) and ast.unparse(s.targets[0]) == 'self.is_ssl_connection']
                raises = any(isinstance(s, ast.If) and ast.unparse(s.test) == 'ssl_context_container is None'
                             and any(isinstance(x, ast.Raise) for x in s.body) for s in n.body)
                ok = sets == ['True'] and raises
        out.append(('forced_tls_sets_flag_true_and_requires_container', ok, {}))
        return out


@register
class HttpConnectionKind(FnCheck):
    id = 'C19.http_connection_kind'
    prop = 'C19'
    target = f'{SC}:SoapClient._mk_http_connection'
    optional_fields = ('_ssl_context',)
    doc = 'SoapClient opens an HTTPS connection with its context iff it has an ssl context, else plain HTTP'

    def setup(self, b):
        self.has = b.bool('has_ssl_context')
        self.ctx = b.obj('ssl_context', cls='SSLContext')
        self.o = b.obj('self', cls=(SC, 'SoapClient'),
                       _ssl_context=vany(z3.If(self.has.e, Val.ref(self.ctx.e), Val.none), maybe_none=True))
        return self.o, [], {}

    def callees(self, ex):
        def https(ex_, st, args, kwargs):
            st.ghost['conn'] = ('https', st.box(kwargs.get('context', NONE)))
            return st.alloc('HTTPSConnection')

        def http(ex_, st, args, kwargs):
            st.ghost['conn'] = ('http', Val.none)
            return st.alloc('HTTPConnection')
        return {f'{SC}:HTTPSConnectionNoDelay': Pure(https, name='HTTPSConnectionNoDelay'),
                f'{SC}:HTTPConnectionNoDelay': Pure(http, name='HTTPConnectionNoDelay')}

    def post(self, ex, st0, st, outcome, b):
        if outcome[0] == 'exc':
            ex.oblige(st, 'never_raises', z3.BoolVal(False), info={'exc': repr(outcome[1])})
            return
        conn = st.ghost.get('conn')
        ex.oblige(st, 'https_iff_context', z3.BoolVal(conn is not None and conn[0] == 'https') == self.has.e)
        if conn and conn[0] == 'https':
            ex.oblige(st, 'https_uses_the_configured_context', conn[1] == Val.ref(self.ctx.e))


@register
class ServerScheme(FnCheck):
    id = 'C19.http_server_scheme'
    prop = 'C19'
    opaque_ok = True
    target = f'{HS}:HttpServerThreadBase.run'
    optional_fields = ('_ssl_context',)
    doc = ('HttpServerThreadBase.run: with an ssl context the listening socket is wrapped (server side) and the advertised '
           'base_url is https://...; without it http://...')

    def setup(self, b):
        self.has = b.bool('has_ssl_context')
        ctx = b.obj('ssl_context', cls='SSLContext')
        self.o = b.obj('self', cls=(HS, 'HttpServerThreadBase'), _my_ipaddress=b.str('ip'),
                       _ssl_context=vany(z3.If(self.has.e, Val.ref(ctx.e), Val.none), maybe_none=True))
        return self.o, [], {}

    def callees(self, ex):
        def wrap(ex_, st, args, kwargs):
            ss = kwargs.get('server_side')
            st.ghost['wrapped'] = ss is not None and z3.is_true(z3.simplify(truthy(ss, st)))
            return st.alloc('SSLSocket')

        def httpd(ex_, st, args, kwargs):
            o = st.alloc('_ThreadingHTTPServer')
            st.write_field(o, 'server_port', vint(fresh(IntS, 'port')))
            return o
        return {'*.wrap_socket': Pure(wrap, name='SSLContext.wrap_socket'),
                f'{HS}:_ThreadingHTTPServer': Pure(httpd, name='_ThreadingHTTPServer(...)'),
                '*.serve_forever': Pure(lambda e, s, a, k: NONE, raises=('*',)), '*.set': Pure(lambda e, s, a, k: NONE)}

    inline = (f'{HS}:HttpServerThreadBase.server_port',)

    def hooks(self, ex):
        class H:
            tracked_names = ('base_url',)

            @staticmethod
            def on_attr_write(ex_, st, o, attr, val, node):
                if attr == 'base_url':
                    st.ghost['base_url'] = val
                return None
        return H

    def post(self, ex, st0, st, outcome, b):
        bu = st.ghost.get('base_url')
        if bu is None:
            if outcome[0] == 'ret':
                ex.oblige(st, 'base_url_set', z3.BoolVal(False))
            return
        bu = ex.concrete_kind(st, bu, ('str',))
        ex.oblige(st, 'https_url_iff_context', z3.And(
            z3.Implies(self.has.e, z3.PrefixOf(z3.StringVal('https://'), bu.e)),
            z3.Implies(z3.Not(self.has.e), z3.PrefixOf(z3.StringVal('http://'), bu.e))) if bu.kind == 'str' else z3.BoolVal(False))
        ex.oblige(st, 'socket_wrapped_server_side_iff_context', z3.BoolVal(bool(st.ghost.get('wrapped'))) == self.has.e)


@register
class MkSslContextsFromFolder(FnCheck):
    id = 'C19.mk_ssl_contexts_from_folder'
    prop = 'C19'
    opaque_ok = True
    target = f'{CL}:mk_ssl_contexts_from_folder'
    doc = ('mk_ssl_contexts_from_folder: whenever a CA file name is configured (the default is cacert.pem) the contexts '
           'are built by mk_ssl_contexts with exactly <folder>/<that name> as CA file - never with "no CA file" (which '
           'would yield contexts that do not verify the peer); a missing file is an error of mk_ssl_contexts, it is '
           'not silently tolerated; key and certificate come from the same folder')

    def setup(self, b):
        self.ca_name_given = b.bool('ca_public_key_given')
        self.ca_name = b.str('ca_public_key')
        b.st.assume(z3.Length(self.ca_name.e) > 0)
        ca = vany(z3.If(self.ca_name_given.e, Val.str(self.ca_name.e), Val.none), maybe_none=True, path='ca_public_key')
        self.key_name, self.cert_name = b.str('private_key'), b.str('certificate')
        cy = b.any('cyphers_file', maybe_none=True)
        b.st.assume(z3.Or(Val.is_none(cy.e), Val.is_str(cy.e)))
        pw = b.any('ssl_passwd', maybe_none=True)
        b.st.ghost['calls'] = ()
        return None, [b.str('ca_folder'), self.key_name, self.cert_name, ca, cy, pw], {}

    def callees(self, ex):
        def path_ctor(ex_, st, args, kwargs):
            p = st.alloc('Path')
            st.ghost['c:folder'] = p
            return p

        def joinpath(ex_, st, args, kwargs):
            p = st.alloc('Path')
            st.write_field(p, '__joined__', args[0])
            return p

        def exists(ex_, st, args, kwargs):
            return vbool(fresh(BoolS, 'exists'))     # the file may or may not be there

        def mk(ex_, st, args, kwargs):
            st.ghost['calls'] = st.ghost['calls'] + (tuple(st.box(a) for a in args),)
            return [(st.fork(), Raise(ex_.mk_exc('FileNotFoundError', 'mk_ssl_contexts'))), (st, st.alloc('SSLContextContainer'))]
        return {'pathlib.Path': Pure(path_ctor, name='pathlib.Path(folder)'),
                '*.joinpath': Pure(joinpath, name='Path.joinpath(name) -> <folder>/<name>'),
                '*.exists': Pure(exists, name='Path.exists() (unknown)'), '*.is_file': Pure(exists, name='Path.is_file() (unknown)'),
                f'{CL}:mk_ssl_contexts': Pure(mk, name='mk_ssl_contexts (C19.mk_ssl_contexts; raises FileNotFoundError for missing files)')}

    def post(self, ex, st0, st, outcome, b):
        calls = st.ghost['calls']
        if outcome[0] == 'exc':
            return
        ex.oblige(st, 'contexts_built_by_mk_ssl_contexts_once', z3.BoolVal(len(calls) == 1 and len(calls[0]) >= 3))
        if len(calls) != 1 or len(calls[0]) < 3:
            return
        key, cert, ca = calls[0][0], calls[0][1], calls[0][2]
        joined = lambda p: z3.Select(st.get_arr('f:__joined__'), Val.oid(p))   # noqa: E731
        ex.oblige(st, 'configured_ca_file_is_always_passed_on', z3.Implies(self.ca_name_given.e, z3.And(
            Val.is_ref(ca), joined(ca) == Val.str(self.ca_name.e))))
        ex.oblige(st, 'no_ca_file_only_when_none_is_configured', z3.Implies(Val.is_none(ca), z3.Not(self.ca_name_given.e)))
        ex.oblige(st, 'key_and_certificate_from_the_folder', z3.And(
            Val.is_ref(key), joined(key) == Val.str(self.key_name.e), Val.is_ref(cert), joined(cert) == Val.str(self.cert_name.e)))


# Notifications and SubscriptionEnd messages are posted through the pooled soap client of the subscriber's host (built
# with the TLS client context when TLS is configured: C19.provider_soap_client) with the PATH component of NotifyTo /
# EndTo only. Handing the complete subscriber-supplied address to the client would let its scheme decide (an absolute
# http:// URL makes the asynchronous client talk plaintext). Under contract in C08, re-checked here.
from contracts import C08 as _c08   # noqa: E402


def _reregister(base, new_id):
    cls = type('C19_' + base.__name__, (base,), {'id': new_id, 'prop': 'C19'})
    register(cls)


_reregister(_c08.SendReportSync, 'C19.notification_posted_with_relative_path_sync')
_reregister(_c08.SendReportAsync, 'C19.notification_posted_with_relative_path_async')
_reregister(_c08.SendEndMessage, 'C19.end_message_posted_with_relative_path_sync')
_reregister(_c08.SendEndMessageAsync, 'C19.end_message_posted_with_relative_path_async')


# --------------------------------------------------------------------------------------------------------------------
# consumer side: NotifyTo / EndTo.  The chain is
#   _start_event_sink (own http server gets the TLS server context iff is_ssl_connection)      C19.consumer_event_sink
#   HttpServerThreadBase.run (base_url https iff context)                                       C19.http_server_scheme
#   SdcConsumer.base_url (keeps the scheme of the server's base_url)                            C19.consumer_base_url
#   start_all hands base_url - and nothing else - to the subscription manager                   C19.consumer_addresses_frame
#   manager.__init__ / mk_subscription (both managers) only append to it                        C19.consumer_subscription_*
#   ConsumerSubscription.__init__/subscribe place exactly these strings in NotifyTo / EndTo     C19.consumer_addresses_frame
CS = 'sdc11073.consumer.subscription'


@register
class ConsumerEventSink(FnCheck):
    id = 'C19.consumer_event_sink'
    prop = 'C19'
    opaque_ok = True
    target = f'{CI}:SdcConsumer._start_event_sink'
    optional_fields = ('_ssl_context_container',)
    doc = ('_start_event_sink without a shared server: the consumer\'s own http server (which receives the notifications '
           'and whose base_url becomes NotifyTo / EndTo) is created with the TLS SERVER context of the container whenever '
           'is_ssl_connection is true - in particular always when TLS is enforced; it is the server that is started and '
           'stored in _http_server')

    def setup(self, b):
        self.mode = b.any('is_ssl_connection', maybe_none=True)
        b.st.assume(z3.Or(Val.is_none(self.mode.e), Val.is_bool(self.mode.e)))
        self.sc = b.obj('server_context', cls='SSLContext')
        self.cc = b.obj('client_context', cls='SSLContext')
        b.st.assume(self.sc.e != self.cc.e)
        cont = b.obj('container', cls='SSLContextContainer', client_context=self.cc, server_context=self.sc)
        self.o = b.obj('self', cls=(CI, 'SdcConsumer'), is_ssl_connection=self.mode, _ssl_context_container=cont,
                       consumer_ip_address=b.str('ip'), _is_internal_http_server=b.bool('internal0'))
        b.st.ghost['servers'] = ()
        return self.o, [NONE], {}

    def callees(self, ex):
        def server(ex_, st, args, kwargs):
            o = st.alloc('HttpServerThreadBase')
            ctx = args[1] if len(args) > 1 else kwargs.get('ssl_context', NONE)
            st.ghost['servers'] = st.ghost['servers'] + ((o.e, st.box(ctx)),)
            st.write_field(o, 'base_url', vstr(fresh(StrS, 'server_base_url')))
            st.write_field(o, 'started_evt', st.alloc('Event'))
            st.write_field(o, 'dispatcher', st.alloc('Dispatcher'))
            return o

        def start(ex_, st, args, kwargs):
            return NONE
        return {f'{HS}:HttpServerThreadBase': Pure(server, name='HttpServerThreadBase(ip, ssl_context, ...)'),
                '*.start': Pure(start, name='Thread.start'),
                '*.wait': Pure(lambda e, s, a, k: vbool(fresh(BoolS, 'started')), name='Event.wait (either result)'),
                '*.register_instance': Pure(lambda e, s, a, k: NONE, name='dispatcher.register_instance'),
                f'{CI}:SdcConsumer.path_prefix': Pure(lambda e, s, a, k: vstr(fresh(StrS, 'prefix')), name='path_prefix property'),
                'sdc11073.loghelper:get_logger_adapter': Pure(lambda e, s, a, k: s.alloc('Logger'), name='get_logger_adapter')}

    def post(self, ex, st0, st, outcome, b):
        servers = st.ghost['servers']
        ex.oblige(st, 'one_own_server_created', z3.BoolVal(len(servers) == 1))
        if len(servers) != 1:
            return
        srv, ctx = servers[0]
        forced = z3.And(Val.is_bool(self.mode.e), Val.b(self.mode.e))
        ex.oblige(st, 'enforced_tls_server_gets_the_tls_server_context', z3.Implies(forced, ctx == Val.ref(self.sc.e)))
        ex.oblige(st, 'server_context_is_never_the_client_context', ctx != Val.ref(self.cc.e))
        ex.oblige(st, 'context_is_the_server_context_or_none', z3.Or(ctx == Val.ref(self.sc.e), ctx == Val.none))
        if outcome[0] == 'ret':
            ex.oblige(st, 'the_created_server_is_the_event_sink', field(st, self.o, '_http_server') == Val.ref(srv))


def _scheme_axioms(st, url, scheme):
    """urlparse(url).scheme for a url that starts with one of the two schemes the http server produces."""
    st.assume(z3.Implies(z3.PrefixOf(z3.StringVal('https://'), url), scheme == z3.StringVal('https')))
    st.assume(z3.Implies(z3.PrefixOf(z3.StringVal('http://'), url), scheme == z3.StringVal('http')))


@register
class ConsumerBaseUrl(FnCheck):
    id = 'C19.consumer_base_url'
    prop = 'C19'
    target = f'{CI}:SdcConsumer.base_url'
    optional_fields = ('_alternative_hostname',)
    cvc5_first = True
    doc = ('SdcConsumer.base_url (the root of every NotifyTo / EndTo address): it starts with "https://" whenever the '
           'base_url of the consumer\'s http server does, for every host name / alternative host name / path prefix')
    trusted = ('urllib.parse.urlparse(u).scheme is "https" / "http" for u starting with "https://" / "http://" '
               '(validated on sampled urls by C19.urlparse_scheme [B])',)

    def setup(self, b):
        self.server_url = b.str('server_base_url')
        srv = b.obj('http_server', base_url=self.server_url)
        alt = b.any('alt', maybe_none=True)
        b.st.assume(z3.Or(Val.is_none(alt.e), Val.is_str(alt.e)))
        self.o = b.obj('self', cls=(CI, 'SdcConsumer'), _http_server=srv, consumer_ip_address=b.str('ip'),
                       _alternative_hostname=alt)
        return self.o, [], {}

    def callees(self, ex):
        def urlparse(ex_, st, args, kwargs):
            u = st.alloc('ParseResult')
            sch = fresh(StrS, 'scheme')
            url = ex_.concrete_kind(st, args[0], ('str',))
            _scheme_axioms(st, url.e, sch)
            st.write_field(u, 'scheme', vstr(sch))
            st.write_field(u, 'port', vany(fresh(Val, 'port'), maybe_none=True))
            st.write_field(u, 'path', vstr(fresh(StrS, 'path')))
            return u
        return {'urllib.parse.urlparse': Pure(urlparse, name='urlparse (scheme axiom)'),
                f'{CI}:SdcConsumer.path_prefix': Pure(lambda e, s, a, k: vstr(fresh(StrS, 'prefix')), name='path_prefix property')}

    def post(self, ex, st0, st, outcome, b):
        if outcome[0] == 'exc':
            ex.oblige(st, 'never_raises', z3.BoolVal(False), info={'exc': repr(outcome[1])})
            return
        r = ex.concrete_kind(st, outcome[1], ('str',))
        ex.oblige(st, 'https_server_gives_https_base_url', z3.Implies(
            z3.PrefixOf(z3.StringVal('https://'), self.server_url.e), z3.PrefixOf(z3.StringVal('https://'), r.e)))
        ex.oblige(st, 'base_url_ends_with_a_slash', z3.SuffixOf(z3.StringVal('/'), r.e))


@register
class ConsumerSubscriptionMgrInit(FnCheck):
    id = 'C19.consumer_subscription_manager_init'
    prop = 'C19'
    opaque_ok = True
    target = f'{CS}:ConsumerSubscriptionManager.__init__'
    doc = ('ConsumerSubscriptionManager.__init__: _notification_url is the address handed in and, when no separate '
           'EndTo address is given, _end_to_url is that same address')

    def setup(self, b):
        self.url = b.str('notification_url')
        self.o = b.obj('self', cls=(CS, 'ConsumerSubscriptionManager'))
        return self.o, [b.obj('msg_reader'), b.obj('msg_factory'), b.obj('data_model'), b.obj('get_soap_client_func'), self.url], \
            {'log_prefix': b.str('log_prefix')}

    def callees(self, ex):
        return {'*.__init__': Pure(lambda e, s, a, k: NONE, name='Thread.__init__'),
                'threading.Lock': Pure(lambda e, s, a, k: s.alloc('Lock'), name='threading.Lock'),
                'sdc11073.loghelper:get_logger_adapter': Pure(lambda e, s, a, k: s.alloc('Logger'), name='get_logger_adapter')}

    def post(self, ex, st0, st, outcome, b):
        if outcome[0] == 'exc':
            ex.oblige(st, 'never_raises', z3.BoolVal(False), info={'exc': repr(outcome[1])})
            return
        ex.oblige(st, 'notification_url_stored', field(st, self.o, '_notification_url') == Val.str(self.url.e))
        ex.oblige(st, 'end_to_defaults_to_the_notification_url', z3.Implies(
            z3.Length(self.url.e) > 0, field(st, self.o, '_end_to_url') == Val.str(self.url.e)))


class _MkSubscription(FnCheck):
    prop = 'C19'
    opaque_ok = True
    cvc5_first = True
    container_hints = {'self.subscriptions': 'dict'}

    def setup(self, b):
        self.nurl, self.eurl = b.str('notification_url'), b.str('end_to_url')
        subs = b.obj('subscriptions')
        b.st.assume(z3.Select(b.st.get_arr('C'), subs.e) == b.ex.ctx.builtin_class_ids['dict'])
        self.o = b.obj('self', cls=(CS, self.cls_name), _notification_url=self.nurl, _end_to_url=self.eurl,
                       _counter=b.int('counter'), subscriptions=subs, _subscriptions_lock=b.obj('lock', cls='Lock'),
                       log_prefix=b.str('log_prefix'))
        b.st.ghost['made'] = ()
        return self.o, [b.obj('dpws_hosted'), b.obj('filter_type', text=b.str('filter_text'))], {}

    def callees(self, ex):
        def mk(ex_, st, args, kwargs):
            o = st.alloc('ConsumerSubscription')
            st.ghost['made'] = st.ghost['made'] + ((st.box(args[5]), st.box(args[6])),)
            return o

        def uuid4(ex_, st, args, kwargs):
            o = st.alloc('UUID')
            st.write_field(o, 'urn', vstr(fresh(StrS, 'urn')))
            return o
        return {f'{CS}:ConsumerSubscription': Pure(mk, name='ConsumerSubscription(..., notification_url, end_to_url, ...)'),
                'lxml.etree.Element': Pure(lambda e, s, a, k: s.alloc('Element'), name='etree.Element'),
                'uuid.uuid4': Pure(uuid4, name='uuid4')}

    def post(self, ex, st0, st, outcome, b):
        if outcome[0] == 'exc':
            ex.oblige(st, 'never_raises', z3.BoolVal(False), info={'exc': repr(outcome[1])})
            return
        made = st.ghost['made']
        ex.oblige(st, 'one_subscription_created', z3.BoolVal(len(made) == 1))
        if len(made) != 1:
            return
        n, e = made[0]
        ex.oblige(st, 'notify_to_extends_the_managers_notification_url', z3.And(
            Val.is_str(n), z3.PrefixOf(self.nurl.e, Val.s(n))))
        ex.oblige(st, 'end_to_extends_the_managers_end_to_url', z3.And(
            Val.is_str(e), z3.PrefixOf(self.eurl.e, Val.s(e))))


@register
class MkSubscriptionPath(_MkSubscription):
    id = 'C19.consumer_subscription_addresses.path_manager'
    cls_name = 'ConsumerSubscriptionManager'
    target = f'{CS}:ConsumerSubscriptionManager.mk_subscription'
    doc = ('ConsumerSubscriptionManager.mk_subscription: the NotifyTo / EndTo addresses of the new subscription only '
           'append a path element to the manager\'s addresses (scheme and host are kept)')


@register
class MkSubscriptionRefParam(_MkSubscription):
    id = 'C19.consumer_subscription_addresses.reference_parameter_manager'
    cls_name = 'ClientSubscriptionManagerReferenceParams'
    target = f'{CS}:ClientSubscriptionManagerReferenceParams.mk_subscription'
    doc = 'ClientSubscriptionManagerReferenceParams.mk_subscription: NotifyTo / EndTo are the manager\'s addresses'


@register
class ConsumerAddressesFrame(ScanCheck):
    id = 'C19.consumer_addresses_frame'
    prop = 'C19'
    doc = ('frame over the consumer subscription code: (1) start_all creates the subscription manager with '
           'self.base_url as notification address and no separate EndTo address; (2) _notification_url / _end_to_url of '
           'the managers are assigned only in ConsumerSubscriptionManager.__init__; (3) notification_url / end_to_url '
           'of ConsumerSubscription are assigned only in its __init__ from the constructor arguments; (4) subscribe() '
           'writes exactly self.notification_url to NotifyTo.Address and self.end_to_url to EndTo.Address and no other '
           'Address; (5) no "http://" literal is used to build an address in the consumer modules')

    def scan(self, repo):
        out = []
        ci = repo.module(CI)
        cdef = ci.classes['SdcConsumer']
        calls = []
        for fn in [n for n in cdef.body if isinstance(n, ast.FunctionDef)]:
            for n in ast.walk(fn):
                if isinstance(n, ast.Call) and ast.unparse(n.func).endswith('subscription_manager_class'):
                    calls.append((fn.name, n))
        ok = len(calls) == 1 and calls[0][0] == 'start_all'
        if ok:
            c = calls[0][1]
            kw = {k.arg: k.value for k in c.keywords}
            notif = c.args[4] if len(c.args) > 4 else kw.get('notification_url')
            # the notification address is the consumer's base_url (or, equivalently for the scheme, the base_url of its
            # http server); no separate EndTo address is handed in
            ok = (notif is not None and ast.unparse(notif) in ('self.base_url', 'self._http_server.base_url')
                  and len(c.args) <= 5 and not any(isinstance(a, ast.Starred) for a in c.args)
                  and None not in kw and 'end_to_url' not in kw)
        out.append(('manager_created_once_with_base_url_and_no_separate_end_to', ok, {}))
        cs = repo.module(CS)
        sites = {}
        for cname, cd in cs.classes.items():
            for fn in [n for n in cd.body if isinstance(n, ast.FunctionDef)]:
                for n in ast.walk(fn):
                    tgts = []
                    if isinstance(n, ast.Assign):
                        tgts = n.targets
                    elif isinstance(n, (ast.AugAssign, ast.AnnAssign)):
                        tgts = [n.target]
                    for t in tgts:
                        for t2 in (t.elts if isinstance(t, (ast.Tuple, ast.List)) else [t]):
                            if isinstance(t2, ast.Attribute) and t2.attr in ('_notification_url', '_end_to_url', 'notification_url',
                                                                           'end_to_url', 'Address'):
                                sites.setdefault(t2.attr, []).append((cname, fn.name, ast.unparse(t2), ast.unparse(n.value) if n.value else ''))
                    if isinstance(n, ast.Call) and ast.unparse(n.func) == 'setattr':
                        sites.setdefault('setattr', []).append((cname, fn.name))
        out.append(('manager_addresses_assigned_only_in_init', sorted(sites.get('_notification_url', []) + sites.get('_end_to_url', [])) == sorted([
            ('ConsumerSubscriptionManager', '__init__', 'self._notification_url', 'notification_url'),
            ('ConsumerSubscriptionManager', '__init__', 'self._end_to_url', 'end_to_url or notification_url')]),
            {'sites': str(sites.get('_notification_url', []) + sites.get('_end_to_url', []))[:300]}))
        out.append(('subscription_addresses_assigned_only_in_init_from_arguments',
                    sorted(sites.get('notification_url', []) + sites.get('end_to_url', [])) == sorted([
                        ('ConsumerSubscription', '__init__', 'self.notification_url', 'notification_url'),
                        ('ConsumerSubscription', '__init__', 'self.end_to_url', 'end_to_url')]),
                    {'sites': str(sites.get('notification_url', []) + sites.get('end_to_url', []))[:300]}))
        out.append(('subscribe_places_exactly_these_addresses', sorted(sites.get('Address', [])) == sorted([
            ('ConsumerSubscription', 'subscribe', 'subscribe_request.EndTo.Address', 'self.end_to_url'),
            ('ConsumerSubscription', 'subscribe', 'subscribe_request.Delivery.NotifyTo.Address', 'self.notification_url')]),
            {'sites': str(sites.get('Address'))[:300]}))
        out.append(('no_setattr_in_consumer_subscription_module', not sites.get('setattr'), {'sites': str(sites.get('setattr'))}))
        bad = []
        for m in (CI, CS):
            for n in ast.walk(repo.module(m).tree):
                if isinstance(n, ast.JoinedStr):
                    for part in n.values:
                        if isinstance(part, ast.Constant) and isinstance(part.value, str) and 'http://' in part.value:
                            bad.append((m, n.lineno, part.value))
                if isinstance(n, ast.Constant) and isinstance(n.value, str) and n.value.startswith('http://') \
                        and not any(k in n.value for k in ('www.', 'schemas.', 'docs.', 'standards.', '.org')):
                    bad.append((m, n.lineno, n.value))
        out.append(('no_hardcoded_plaintext_scheme_in_consumer_urls', not bad, {'found': str(bad)[:200]}))
        return out


# --------------------------------------------------------------------------------------------------------------------
# provider side: addresses placed in messages are built from base_urls, whose scheme is _urlschema
DH = 'sdc11073.provider.dpwshostedservice'
SB = 'sdc11073.provider.subscriptionmgr_base'


@register
class SubscribeResponseAddress(FnCheck):
    id = 'C19.subscription_manager_address'
    prop = 'C19'
    opaque_ok = True
    cvc5_first = True
    target = f'{SB}:SubscriptionsManagerBase._mk_subscribe_response_message'
    doc = ('the subscription manager address returned in a SubscribeResponse is "<scheme of base_urls[0]>://<its netloc>/..." '
           '- it takes scheme and host from the provider\'s base url (C19.provider_base_urls), nothing from the request')

    def setup(self, b):
        st = b.st
        self.scheme, self.netloc = b.str('scheme'), b.str('netloc')
        url = b.obj('base_url', scheme=self.scheme, netloc=self.netloc)
        urls = st.new_list([url])
        consumed = b.obj('consumed_path_elements')
        st.assume(z3.Select(st.get_arr('C'), consumed.e) == b.ex.ctx.builtin_class_ids['list'])
        rd = b.obj('request_data', consumed_path_elements=consumed)
        sub = b.obj('subscription', path_suffix=b.any('path_suffix', maybe_none=True), reference_parameters=b.any('refp'),
                    remaining_seconds=b.any('remaining'))
        b.st.assume(z3.Or(Val.is_none(b.symbols['path_suffix'].e), Val.is_str(b.symbols['path_suffix'].e)))
        self.o = b.obj('self', cls=(SB, 'SubscriptionsManagerBase'), _msg_factory=b.obj('msg_factory'))
        return self.o, [rd, sub, urls], {}

    def callees(self, ex):
        def response(ex_, st, args, kwargs):
            o = st.alloc('SubscribeResponse')
            m = st.alloc('EndpointReferenceType')
            st.write_field(o, 'SubscriptionManager', m)
            st.ghost['c:mgr'] = m
            return o
        return {'sdc11073.xml_types.eventing_types:SubscribeResponse': Pure(response, name='SubscribeResponse()'),
                '*.SubscribeResponse': Pure(response, name='SubscribeResponse()'),
                '*.join': Pure(lambda e, s, a, k: vstr(fresh(StrS, 'joined')), name='str.join'),
                '*.mk_reply_soap_message': Pure(lambda e, s, a, k: s.alloc('CreatedMessage'), name='mk_reply_soap_message')}

    def post(self, ex, st0, st, outcome, b):
        if outcome[0] == 'exc':
            ex.oblige(st, 'never_raises', z3.BoolVal(False), info={'exc': repr(outcome[1])})
            return
        m = st.ghost.get('c:mgr')
        if m is None:
            ex.oblige(st, 'address_takes_scheme_and_host_of_the_base_url', z3.BoolVal(False))
            return
        a = field(st, m, 'Address')
        ex.oblige(st, 'address_takes_scheme_and_host_of_the_base_url', z3.And(Val.is_str(a), z3.PrefixOf(
            z3.Concat(self.scheme.e, z3.StringVal('://'), self.netloc.e, z3.StringVal('/')), Val.s(a))))


@register
class HostedServiceAddresses(FnCheck):
    id = 'C19.hosted_service_addresses'
    prop = 'C19'
    opaque_ok = True
    cvc5_first = True
    target = f'{DH}:DPWSHostedService.mk_dpws_hosted_instance'
    doc = ('every endpoint address a hosted service puts into the DPWS metadata is "<geturl() of a provider base url>/'
           '<path element>": one per base url, in order - the scheme is the one of the base url (C19.provider_base_urls)')

    def setup(self, b):
        st = b.st
        L = b.ex.ctx.builtin_class_ids['list']
        self.urls = z3.Const('base_urls', SeqVal)
        urls = b.obj('base_urls')
        st.assume(z3.Select(st.get_arr('C'), urls.e) == L)
        st.assume(z3.Select(st.get_arr('L'), urls.e) == self.urls)
        j = z3.Int('j!bu')
        st.assume(z3.ForAll([j], z3.Implies(z3.And(0 <= j, j < z3.Length(self.urls)), z3.And(
            Val.is_ref(self.urls[j]), Val.oid(self.urls[j]) > 0, Val.oid(self.urls[j]) < FRESH_BASE))))
        dev = b.obj('sdc_device', base_urls=urls)
        impls = b.obj('port_type_impls')
        st.assume(z3.Select(st.get_arr('C'), impls.e) == L)
        self.pe = b.str('path_element')
        self.o = b.obj('self', cls=(DH, 'DPWSHostedService'), _sdc_device=dev, path_element=self.pe, port_type_impls=impls)
        self.geturl = z3.Function('geturl', Val, StrS)
        st.ghost['eprs'] = ()
        return self.o, [], {}

    def callees(self, ex):
        def geturl(ex_, st, args, kwargs):
            return vstr(self.geturl(st.ghost['c:recv']))

        def epr(ex_, st, args, kwargs):
            return st.alloc('EndpointReferenceType')

        def hosted(ex_, st, args, kwargs):
            o = st.alloc('HostedServiceType')
            lst = st.new_list([])
            st.write_field(o, 'EndpointReference', lst)
            st.ghost['c:hosted'] = (o, lst)
            return o
        return {'*.geturl': Pure(geturl, name='SplitResult.geturl() (uninterpreted function of the url object)'),
                'sdc11073.xml_types.addressing_types:EndpointReferenceType': Pure(epr, name='EndpointReferenceType()'),
                'EndpointReferenceType': Pure(epr, name='EndpointReferenceType()'),
                'sdc11073.xml_types.mex_types:HostedServiceType': Pure(hosted, name='HostedServiceType()'),
                'sdc11073.xml_types.dpws_types:HostedServiceType': Pure(hosted, name='HostedServiceType()'),
                'HostedServiceType': Pure(hosted, name='HostedServiceType()')}

    def hooks(self, ex):
        class H:
            tracked_names = ()

            def on_call(self, ex_, st, fv, keys, args, kwargs, node):
                if fv.t == 'method':
                    st.ghost['c:recv'] = st.box(fv.recv)
                return None
        return H()

    def _ok(self, st, lst_seq, k):
        j = z3.Int('j!ep')
        addr = lambda v: z3.Select(st.get_arr('f:Address'), Val.oid(v))   # noqa: E731
        # the endpoint records are the objects allocated by this loop (so the record of the next iteration is a new one)
        return z3.And(z3.Length(lst_seq) == k, z3.ForAll([j], z3.Implies(z3.And(0 <= j, j < k), z3.And(
            Val.is_ref(lst_seq[j]), Val.is_str(addr(lst_seq[j])),
            Val.oid(lst_seq[j]) >= LOOP_BASE, z3.Select(st.get_arr('A'), Val.oid(lst_seq[j])),
            Val.s(addr(lst_seq[j])) == z3.Concat(self.geturl(self.urls[j]), z3.StringVal('/'), self.pe.e)))))

    def loops(self, ex):
        def inv(ex_, st, env):
            lst = ex_.concrete_kind(st, st.locals['endpoint_references_list'], ('ref',))
            return z3.And(self._ok(st, st.list_seq(lst), env['_k']), env['_seq'] == self.urls)
        return {0: LoopSpec(inv=inv, havoc_heap=['f:Address', 'L'])}

    def post(self, ex, st0, st, outcome, b):
        if outcome[0] == 'exc':
            ex.oblige(st, 'never_raises', z3.BoolVal(False), info={'exc': repr(outcome[1])})
            return
        h = st.ghost.get('c:hosted')
        if h is None:
            ex.oblige(st, 'one_endpoint_per_base_url_with_its_scheme_and_host', z3.BoolVal(False))
            return
        ex.oblige(st, 'result_is_the_hosted_service_record', outcome[1].e == h[0].e if outcome[1].kind == 'ref' else z3.BoolVal(False))
        ex.oblige(st, 'one_endpoint_per_base_url_with_its_scheme_and_host', self._ok(st, st.list_seq(h[1]), z3.Length(self.urls)))


@register
class ProviderBaseUrls(ScanCheck):
    id = 'C19.provider_base_urls'
    prop = 'C19'
    doc = ('frame: SdcProvider.base_urls is assigned only in __init__ (empty) and in _start_services, there as a list of '
           'SplitResult(self._urlschema, ...) objects - every base url carries _urlschema (https iff TLS is configured, '
           'C19.provider_urlschema) - and exactly this list is handed to every subscriptions manager (set_base_urls); the '
           'managers assign their base_urls only from the constructor / set_base_urls argument')

    def scan(self, repo):
        out = []
        cdef = repo.module(PI).classes['SdcProvider']
        sites = []
        handed = []
        for fn in [n for n in cdef.body if isinstance(n, ast.FunctionDef)]:
            for n in ast.walk(fn):
                if isinstance(n, ast.Assign):
                    for t in n.targets:
                        if isinstance(t, ast.Attribute) and t.attr == 'base_urls' and ast.unparse(t.value) == 'self':
                            sites.append((fn.name, n.value))
                if isinstance(n, ast.Call) and isinstance(n.func, ast.Attribute) and n.func.attr == 'set_base_urls':
                    handed.append((fn.name, [ast.unparse(a) for a in n.args]))
        ok = len(sites) == 2
        for fname, v in sites:
            if fname == '__init__':
                ok = ok and isinstance(v, ast.List) and not v.elts
            elif fname == '_start_services':
                ok = ok and isinstance(v, ast.List) and len(v.elts) >= 1 and all(
                    isinstance(e, ast.Call) and ast.unparse(e.func) in ('SplitResult', 'urllib.parse.SplitResult')
                    and e.args and ast.unparse(e.args[0]) == 'self._urlschema' for e in v.elts)
            else:
                ok = False
        out.append(('every_base_url_is_built_with_the_configured_scheme', ok, {'sites': str([(f, ast.unparse(v)) for f, v in sites])[:300]}))
        out.append(('the_same_list_is_handed_to_every_subscriptions_manager',
                    bool(handed) and all(a == ['self.base_urls'] for _, a in handed), {'calls': str(handed)}))
        bad = []
        for mname in (SB, 'sdc11073.provider.subscriptionmgr', 'sdc11073.provider.subscriptionmgr_async'):
            mod = repo.module(mname)
            for cname, cd in mod.classes.items():
                for fn in [n for n in cd.body if isinstance(n, (ast.FunctionDef, ast.AsyncFunctionDef))]:
                    for n in ast.walk(fn):
                        if isinstance(n, ast.Assign):
                            for t in n.targets:
                                if isinstance(t, ast.Attribute) and t.attr == 'base_urls':
                                    src = ast.unparse(n.value)
                                    if not (fn.name in ('__init__', 'set_base_urls') and src in ('base_urls', 'None')):
                                        bad.append((mname, cname, fn.name, src))
        out.append(('managers_take_base_urls_only_from_the_provider', not bad, {'sites': str(bad)[:300]}))
        return out


@register
class NoConnectionOutsideTheSoapClients(ScanCheck):
    id = 'C19.no_connection_outside_the_soap_clients'
    prop = 'C19'
    doc = ('frame over every module of the sdc11073 package: outgoing connections are opened only by the two soap client '
           'modules (pysoap/soapclient.py: HTTP(S)Connection chosen by the ssl context, C19.http_connection_kind; '
           'pysoap/soapclient_async.py: aiohttp session with the ssl context) - which the provider / consumer obtain through '
           'the factories proved to attach the TLS client context (C19.provider_soap_client, C19.consumer_soap_client). '
           'No other module imports a network client library (urllib.request, requests, httpx, urllib3, ftplib, smtplib, '
           'xmlrpc.client, ...), names an http.client / aiohttp connection class, or opens a stream socket; http.client and '
           'aiohttp appear elsewhere only for their exception classes, sockets only in the UDP discovery and the listening '
           'http server')

    CLIENT_LIBS = ('urllib.request', 'requests', 'httpx', 'urllib3', 'ftplib', 'smtplib', 'telnetlib', 'xmlrpc.client',
                   'websockets', 'websocket', 'pycurl', 'asyncio.streams')
    CONNECTION_NAMES = {'HTTPConnection', 'HTTPSConnection', 'ClientSession', 'TCPConnector', 'create_connection',
                        'open_connection', 'urlopen', 'urlretrieve', 'build_opener'}
    SOAP_CLIENTS = ('sdc11073/pysoap/soapclient.py', 'sdc11073/pysoap/soapclient_async.py')
    SOCKET_USERS = ('sdc11073/wsdiscovery/', 'sdc11073/httpserver/', 'sdc11073/network.py')

    def scan(self, repo):
        import os
        root = os.path.join(repo.roots[0], 'sdc11073')
        bad_imports, bad_names, bad_sockets, n_files = [], [], [], 0
        for dirpath, _dirs, files in os.walk(root):
            for fn in sorted(files):
                if not fn.endswith('.py'):
                    continue
                path = os.path.join(dirpath, fn)
                rel = os.path.relpath(path, repo.roots[0]).replace(os.sep, '/')
                n_files += 1
                if rel in self.SOAP_CLIENTS:
                    continue
                with open(path) as f:
                    tree = ast.parse(f.read())
                for n in ast.walk(tree):
                    if isinstance(n, ast.Import):
                        for a in n.names:
                            if any(a.name == lib or a.name.startswith(lib + '.') for lib in self.CLIENT_LIBS):
                                bad_imports.append((rel, n.lineno, a.name))
                    elif isinstance(n, ast.ImportFrom) and n.module:
                        full = [f'{n.module}.{a.name}' for a in n.names]
                        if any(n.module == lib or n.module.startswith(lib + '.') or f in self.CLIENT_LIBS
                               for lib in self.CLIENT_LIBS for f in full):
                            bad_imports.append((rel, n.lineno, n.module))
                        for a in n.names:
                            if a.name in self.CONNECTION_NAMES:
                                bad_names.append((rel, n.lineno, f'{n.module}.{a.name}'))
                    elif isinstance(n, ast.Attribute) and n.attr in self.CONNECTION_NAMES:
                        bad_names.append((rel, n.lineno, ast.unparse(n)))
                    elif isinstance(n, ast.Name) and n.id in self.CONNECTION_NAMES:
                        bad_names.append((rel, n.lineno, n.id))
                    if isinstance(n, ast.Call) and ast.unparse(n.func) in ('socket.socket', 'socket.create_connection', 'socket.socketpair') \
                            and not rel.startswith(self.SOCKET_USERS):
                        bad_sockets.append((rel, n.lineno, ast.unparse(n.func)))
        return [('package_scanned', n_files > 50, {'files': n_files}),
                ('no_network_client_library_outside_the_soap_clients', not bad_imports, {'found': str(bad_imports)[:300]}),
                ('no_connection_class_named_outside_the_soap_clients', not bad_names, {'found': str(bad_names)[:300]}),
                ('no_stream_socket_outside_discovery_and_server', not bad_sockets, {'found': str(bad_sockets)[:300]})]


SA = 'sdc11073.pysoap.soapclient_async'


@register
class AsyncConnectionKind(FnCheck):
    id = 'C19.async_connection_kind'
    prop = 'C19'
    opaque_ok = True
    target = f'{SA}:SoapClientAsync._mk_http_connection'
    optional_fields = ('_ssl_context',)
    doc = ('SoapClientAsync opens its aiohttp session with base url "https://<netloc>/" and a connector that carries its '
           'ssl context iff it has one; a plain "http://" session only without a context')

    def setup(self, b):
        self.has = b.bool('has_ssl_context')
        self.ctx = b.obj('ssl_context', cls='SSLContext')
        self.o = b.obj('self', cls=(SA, 'SoapClientAsync'), _netloc=b.str('netloc'), _socket_timeout=b.int('timeout'),
                       _ssl_context=vany(z3.If(self.has.e, Val.ref(self.ctx.e), Val.none), maybe_none=True))
        return self.o, [], {}

    def callees(self, ex):
        def connector(ex_, st, args, kwargs):
            o = st.alloc('TCPConnector')
            st.ghost['c:connector'] = (o, st.box(kwargs.get('ssl', NONE)), bool(args))
            return o

        def session(ex_, st, args, kwargs):
            st.ghost['c:session'] = (args[0], st.box(kwargs.get('connector', NONE)))
            return st.alloc('ClientSession')
        return {f'{SA}:TCPConnector': Pure(connector, name='aiohttp TCPConnector(ssl=...)'),
                'aiohttp.client.TCPConnector': Pure(connector, name='aiohttp TCPConnector(ssl=...)'),
                f'{SA}:ClientSession': Pure(session, name='aiohttp ClientSession(base_url, connector=...)'),
                'aiohttp.client.ClientSession': Pure(session, name='aiohttp ClientSession(base_url, connector=...)'),
                f'{SA}:ClientTimeout': Pure(lambda e, s, a, k: s.alloc('ClientTimeout'), name='ClientTimeout'),
                'aiohttp.client.ClientTimeout': Pure(lambda e, s, a, k: s.alloc('ClientTimeout'), name='ClientTimeout')}

    def post(self, ex, st0, st, outcome, b):
        if outcome[0] == 'exc':
            ex.oblige(st, 'never_raises', z3.BoolVal(False), info={'exc': repr(outcome[1])})
            return
        sess, conn = st.ghost.get('c:session'), st.ghost.get('c:connector')
        ex.oblige(st, 'one_session_over_one_connector', z3.BoolVal(sess is not None and conn is not None))
        if sess is None or conn is None:
            return
        url = ex.concrete_kind(st, sess[0], ('str',))
        ex.oblige(st, 'session_uses_the_connector_built_here', sess[1] == Val.ref(conn[0].e))
        ex.oblige(st, 'connector_carries_the_ssl_context_iff_configured',
                  conn[1] == z3.If(self.has.e, Val.ref(self.ctx.e), Val.none) if not conn[2] else z3.BoolVal(False))
        ex.oblige(st, 'https_base_url_iff_context', z3.And(
            z3.Implies(self.has.e, z3.PrefixOf(z3.StringVal('https://'), url.e)),
            z3.Implies(z3.Not(self.has.e), z3.PrefixOf(z3.StringVal('http://'), url.e))) if url.kind == 'str' else z3.BoolVal(False))


from contracts import C17 as _c17   # noqa: E402


@register
class AsyncClientNeverFollowsRedirects(_c17.AsyncClientRequestFraming):
    id = 'C19.async_client_never_follows_redirects'
    prop = 'C19'
    replay_fn = 'C19:redirect'
    replay_without_model = True
    doc = ('SoapClientAsync.async_post_message_to hands the request to the aiohttp session with allow_redirects=False: '
           'a peer (e.g. the event sink of a subscriber) answering "307 Location: http://..." cannot make a provider '
           'that is configured with TLS re-send the message over a plain connection (aiohttp follows redirects by '
           'default; the connector\'s ssl context only applies to https urls). The synchronous client is built on '
           'http.client, which never follows redirects (C19.no_connection_outside_the_soap_clients)')

    def concretize(self, vc, model):
        return {}

    def post(self, ex, st0, st, outcome, b):
        kw = st.ghost.get('c:post_kwargs')
        if kw is None:
            return
        v = kw.get('allow_redirects')
        ok = v is not None and v.kind == 'bool' and z3.is_false(z3.simplify(v.e))
        ex.oblige(st, 'redirects_are_not_followed', z3.BoolVal(bool(ok)))

    def finish(self, ex, st0, outcomes, b):
        names = {o.name for o in ex.ctx.obligations}
        ex.oblige(st0, 'request_is_handed_to_the_session', z3.BoolVal('redirects_are_not_followed' in names))
