"""C13 - request handling is total: any input gets a response; no hang, crash or XXE."""
from __future__ import annotations

import z3

from pyvc.api import (FnCheck, LoopSpec, Pure, Inline, register, Build, V, Val, SeqVal, IntS, RealS, BoolS, StrS, NONE,
                      Raise, Unsupported, fresh, vany, vint, vbool, vbytes, vref, vreal, as_int, unbox_as)
from pyvc import models
from . import streams

RD = 'sdc11073.httpserver.httpreader'


def buf_bytes(st, v):
    return unbox_as(st.read_field(v, '__bytes__'), 'bytes').e


@register
class ReadUntil(FnCheck):
    z3_timeout_ms = 3000   # the string obligation goes to cvc5 (z3's seq solver times out on it)
    id = 'C13.read_until'
    prop = 'C13'
    target = f'{RD}:HTTPReader._read_until'
    doc = ('_read_until terminates (variant max_bytes - len(buf)), never raises, reads at most max_bytes bytes, and a '
           'non-None result r satisfies consumed == r + delimiter')

    def setup(self, b):
        st = b.st
        self.rem0 = z3.String('stream_bytes')
        st.ghost['rem'] = self.rem0
        self.stream = b.obj('stream')
        self.delim = b.bytes('delimiter')
        self.maxb = b.int('max_bytes')
        st.assume(z3.And(z3.Length(self.delim.e) >= 1, self.maxb.e >= 0))
        return None, [self.stream, self.delim, self.maxb], {}

    def callees(self, ex):
        return {'stream.read': streams.read_summary()}

    def loops(self, ex):
        def inv(ex_, st, env):
            buf = st.locals['buf']
            bb = buf_bytes(st, buf)
            return z3.And(self.rem0 == z3.Concat(bb, st.ghost['rem']), z3.Length(bb) <= self.maxb.e)

        def variant(ex_, st, env):
            return self.maxb.e - z3.Length(buf_bytes(st, st.locals['buf']))
        return {0: LoopSpec(inv=inv, variant=variant)}

    def post(self, ex, st0, st, outcome, b):
        if outcome[0] == 'exc':
            ex.oblige(st, 'never_raises', z3.BoolVal(False), info={'exc': repr(outcome[1])})
            return
        r = ex.concrete_kind(st, outcome[1], ('bytes', 'none'))
        consumed_len = z3.Length(self.rem0) - z3.Length(st.ghost['rem'])
        ex.oblige(st, 'reads_at_most_max_bytes', consumed_len <= self.maxb.e)
        ex.oblige(st, 'consumed_is_prefix', self.rem0 == z3.Concat(z3.SubString(self.rem0, 0, consumed_len), st.ghost['rem']))
        if r.kind == 'bytes':
            ex.oblige(st, 'result_plus_delimiter_consumed',
                      self.rem0 == z3.Concat(r.e, self.delim.e, st.ghost['rem']))
        elif r.kind != 'none':
            ex.oblige(st, 'result_kind', z3.BoolVal(False))


def read_until_summary():
    """Callee contract of _read_until as proved by C13.read_until (used modularly by _read_dechunk)."""
    def fn(ex, st, args, kwargs):
        delim = ex.concrete_kind(st, args[1], ('bytes',))
        rem = st.ghost['rem']
        outs = []
        # None: some prefix (<= max_bytes, default 16) consumed
        s_none = st.fork()
        k = fresh(IntS, 'consumed')
        s_none.assume(z3.And(k >= 0, k <= z3.Length(rem), k <= 16))
        s_none.ghost['rem'] = z3.SubString(rem, k, z3.Length(rem) - k)
        outs.append((s_none, NONE))
        r = fresh(StrS, 'line')
        rest = fresh(StrS, 'rest')
        st.assume(rem == z3.Concat(r, delim.e, rest))
        st.assume(z3.Length(r) + z3.Length(delim.e) <= 16)
        st.ghost['rem'] = rest
        outs.append((st, vbytes(r)))
        return outs
    return Pure(fn, name='HTTPReader._read_until contract (C13.read_until)')


@register
class Dechunk(FnCheck):
    id = 'C13.dechunk_terminates'
    prop = 'C13'
    target = f'{RD}:HTTPReader._read_dechunk'
    doc = ('_read_dechunk on an arbitrary byte stream: both loops have decreasing variants (remaining stream bytes / '
           'bytes_to_read), only DechunkError can escape, and every body byte returned was read from the stream')

    replay_fn = 'C13:dechunk'

    def witness_exprs(self, st, b):
        return {'stream_bytes': self.rem0}

    def setup(self, b):
        st = b.st
        self.rem0 = z3.String('stream_bytes')
        st.ghost['rem'] = self.rem0
        self.stream = b.obj('stream')
        cls = V('class', py=(RD, 'HTTPReader'))
        return cls, [self.stream], {}

    def callees(self, ex):
        return {'stream.read': streams.read_summary(),
                f'{RD}:HTTPReader._read_until': read_until_summary()}

    def loops(self, ex):
        def inv_outer(ex_, st, env):
            return z3.BoolVal(True)

        def var_outer(ex_, st, env):
            return z3.Length(st.ghost['rem'])

        def inv_inner(ex_, st, env):
            return z3.And(as_int(ex_, st, st.locals['bytes_to_read']) >= 0,
                          z3.Length(st.ghost['rem']) <= z3.Length(env['_entry'].ghost['rem']))

        def var_inner(ex_, st, env):
            return as_int(ex_, st, st.locals['bytes_to_read'])
        return {0: LoopSpec(inv=inv_outer, variant=var_outer), 1: LoopSpec(inv=inv_inner, variant=var_inner)}

    def post(self, ex, st0, st, outcome, b):
        if outcome[0] == 'exc':
            ex.oblige(st, 'only_dechunk_error', z3.BoolVal(outcome[1].cls == 'DechunkError'),
                      info={'exc': repr(outcome[1])})


# ---------------------------------------------------------------------------------------------------------------
# [S] exception escape: no exception leaves a request handler except failures of the socket itself
from . import lib  # noqa: E402

RH = 'sdc11073.httpserver.httprequesthandler'
IO_NAMES = ('send_response', 'send_header', 'end_headers', 'write', 'getpeername')


class _HandlerEscape(FnCheck):
    prop = 'C13'
    tag = 'S'
    replay_fn = 'C13:handler_escape'

    def concretize(self, vc, model):
        return {'failed_path': vc.info.get('exc') or vc.info.get('calls')}
    opaque_ok = True
    inline = (f'{RH}:DispatchingRequestHandler._send_plain_response',)

    def setup(self, b):
        slf = b.obj('self', cls=(RH, 'DispatchingRequestHandler'))
        return slf, [], {}

    def hooks(self, ex):
        return lib.EscapeHooks(io_names=IO_NAMES, no_raise=('_compress_if_supported', 'mk_chunks'),
                               tracked=('send_response',))

    def post(self, ex, st0, st, outcome, b):
        calls = st.ghost.get('calls', ())
        n_status = sum(1 for c in calls if c == 'send_response')
        if outcome[0] == 'exc':
            ok = outcome[1].origin.startswith('io:')
            ex.oblige(st, 'only_socket_errors_escape', z3.BoolVal(ok), info={'exc': repr(outcome[1])})
        else:
            ex.oblige(st, 'exactly_one_status_line', z3.BoolVal(n_status == 1), info={'calls': ' '.join(calls)})


@register
class DoPostEscape(_HandlerEscape):
    id = 'C13.do_POST_total'
    target = f'{RH}:DispatchingRequestHandler.do_POST'
    doc = ('do_POST: on every path exactly one status line is sent; the only exceptions that can escape originate '
           'from socket I/O (send_response/send_header/end_headers/wfile.write/getpeername); body reading, path '
           'resolution and the component may raise anything')
    trusted = ('_compress_if_supported and mk_chunks do not raise on bytes (mk_chunks: C17.mk_chunks; zlib trusted)',)


@register
class DoGetEscape(_HandlerEscape):
    id = 'C13.do_GET_total'
    target = f'{RH}:DispatchingRequestHandler.do_GET'
    doc = 'do_GET: same obligations as do_POST'
    trusted = DoPostEscape.trusted


@register
class ProcessRequestThread(FnCheck):
    id = 'C13.server_thread_total'
    prop = 'C13'
    tag = 'S'
    opaque_ok = True
    target = 'sdc11073.httpserver.httpserverimpl:_ThreadingHTTPServer.process_request_thread'
    doc = ('process_request_thread: whatever finish_request (the request handler) raises is caught; only the clean-up '
           'calls handle_error / shutdown_request themselves can raise')

    def setup(self, b):
        slf = b.obj('self', cls=('sdc11073.httpserver.httpserverimpl', '_ThreadingHTTPServer'))
        return slf, [b.any('request'), b.any('client_address')], {}

    def hooks(self, ex):
        return lib.EscapeHooks(io_names=('handle_error', 'shutdown_request', 'remove'), tracked=('finish_request',))

    def post(self, ex, st0, st, outcome, b):
        if outcome[0] == 'exc':
            ex.oblige(st, 'handler_exceptions_caught', z3.BoolVal(outcome[1].origin.startswith('io:')),
                      info={'exc': repr(outcome[1])})
        else:
            calls = st.ghost.get('calls', ())
            ex.oblige(st, 'request_is_shut_down', z3.BoolVal('shutdown_request' in calls))


MC = 'sdc11073.dispatch.messageconverter'


@register
class MiddlewareDoGet(FnCheck):
    id = 'C13.middleware_do_get'
    prop = 'C13'
    tag = 'S'
    opaque_ok = True
    target = f'{MC}:MessageConverterMiddleware.do_get'
    doc = ('do_get: after the path has been parsed every exception of request construction / dispatch is turned into '
           'a (500, ...) result; normal results are 4-tuples')

    def setup(self, b):
        slf = b.obj('self', cls=(MC, 'MessageConverterMiddleware'))
        return slf, [b.any('headers'), b.any('path'), b.any('peer_name')], {}

    def hooks(self, ex):
        return lib.EscapeHooks(io_names=('urlparse',), tracked=('on_get',))

    def post(self, ex, st0, st, outcome, b):
        if outcome[0] == 'exc':
            ex.oblige(st, 'dispatch_exceptions_become_500', z3.BoolVal(outcome[1].origin.startswith('io:urlparse')),
                      info={'exc': repr(outcome[1])})
        else:
            r = outcome[1]
            ex.oblige(st, 'result_is_4_tuple', z3.BoolVal(r.kind == 'tuple' and len(r.py) == 4))
            if r.kind == 'tuple' and len(r.py) == 4 and 'on_get' not in st.ghost.get('calls', ()):
                pass


@register
class MiddlewareDoPost(FnCheck):
    id = 'C13.middleware_do_post'
    prop = 'C13'
    tag = 'S'
    opaque_ok = True
    exc_attr_nonnull = ('soap_fault',)
    target = f'{MC}:MessageConverterMiddleware.do_post'
    doc = ('do_post: a message that cannot be read is answered with a fault without reaching the dispatcher '
           '(rejected => dispatcher not invoked); every normal result is a (status, reason, body) triple')

    def setup(self, b):
        slf = b.obj('self', cls=(MC, 'MessageConverterMiddleware'))
        return slf, [b.any('headers'), b.any('path'), b.any('peer_name'), b.any('request_bytes')], {}

    def hooks(self, ex):
        return lib.EscapeHooks(io_names=('mk_soap_message', 'mk_reply_soap_message', 'serialize', 'Fault',
                                         'add_reason_text', 'HeaderInformationBlock'),
                               tracked=('on_post', 'read_received_message', 'RequestData',
                                        'consume_current_path_element'))

    def post(self, ex, st0, st, outcome, b):
        calls = st.ghost.get('calls', ())
        if outcome[0] == 'exc':
            return   # escapes only into do_POST, which answers 500 (C13.do_POST_total)
        else:
            r = outcome[1]
            ex.oblige(st, 'result_is_3_tuple', z3.BoolVal(r.kind == 'tuple' and len(r.py) == 3))
            # rejected => not dispatched: if on_post was called, the first read must have returned normally
            if 'on_post' in calls or 'on_post!' in calls:
                calls = tuple('on_post' if c == 'on_post!' else c for c in calls)
                before = calls[:calls.index('on_post')]
                ex.oblige(st, 'dispatch_only_after_successful_read',
                          z3.BoolVal('read_received_message' in before and 'read_received_message!' not in before))


# ---------------------------------------------------------------------------------------------------------------
# [F] parser safety: every XML parse site uses a parser with entity resolution disabled
import ast  # noqa: E402
import os  # noqa: E402

from pyvc.api import ScanCheck  # noqa: E402
from pyvc import SRC_ROOT  # noqa: E402

PARSE_FUNCS = {'fromstring', 'parse', 'XML', 'iterparse', 'XMLID', 'fromstringlist'}
PARSER_CTORS = {'XMLParser', 'ETCompatXMLParser'}
# parse sites that read constants / bundled files of the library itself, never request bytes
LOCAL_ONLY = {('schema_resolver.py', 'mk_schema_validator'), ('provider/dpwshostedservice.py', '_remove_annotations')}


def _parser_call_safe(call: ast.Call):
    if not (isinstance(call, ast.Call) and isinstance(call.func, ast.Attribute) and call.func.attr in PARSER_CTORS):
        return False, 'parser is not a literal etree parser constructor'
    kw = {k.arg: k.value for k in call.keywords}
    re_ = kw.get('resolve_entities')
    if not (isinstance(re_, ast.Constant) and re_.value is False):
        return False, 'resolve_entities is not the constant False'
    for flag, bad in (('load_dtd', True), ('no_network', False), ('huge_tree', True), ('dtd_validation', True),
                      ('attribute_defaults', True)):
        v = kw.get(flag)
        if v is not None and not (isinstance(v, ast.Constant) and v.value is not bad):
            return False, f'{flag} is set unsafely'
    return True, 'resolve_entities=False, no DTD loading, no network'


@register
class ParserSafety(ScanCheck):
    id = 'C13.parser_safety'
    prop = 'C13'
    doc = ('every etree.fromstring/parse/XML call site in src/sdc11073 passes a parser constructed with '
           'resolve_entities=False (and without load_dtd / no_network=False / huge_tree); two sites that only parse '
           'constants or bundled schema files are exempt and listed')
    trusted = ('lxml honours resolve_entities=False / no_network default',)

    def scan(self, repo):
        out = []
        root = os.path.join(SRC_ROOT, 'sdc11073')
        for dirpath, _, files in os.walk(root):
            for fn in sorted(files):
                if not fn.endswith('.py'):
                    continue
                path = os.path.join(dirpath, fn)
                rel = os.path.relpath(path, root)
                tree = ast.parse(open(path, encoding='utf-8').read())
                for func in [n for n in ast.walk(tree) if isinstance(n, (ast.FunctionDef, ast.AsyncFunctionDef))]:
                    assigns = {}
                    for n in ast.walk(func):
                        if isinstance(n, ast.Assign) and len(n.targets) == 1 and isinstance(n.targets[0], ast.Name):
                            assigns.setdefault(n.targets[0].id, []).append(n.value)
                    for n in ast.walk(func):
                        if not (isinstance(n, ast.Call) and isinstance(n.func, ast.Attribute)
                                and n.func.attr in PARSE_FUNCS and isinstance(n.func.value, ast.Name)
                                and n.func.value.id in ('etree', 'ET', 'lxml_etree')):
                            continue
                        # nested function defs are visited on their own
                        site = f'{rel}:{func.name}:{n.func.attr}'
                        info = {'file': rel, 'function': func.name, 'line': n.lineno}
                        if (rel, func.name) in LOCAL_ONLY:
                            out.append((f'site.{site}', True, dict(info, note='exempt: parses library constants only')))
                            continue
                        pk = [k.value for k in n.keywords if k.arg == 'parser']
                        if not pk:
                            out.append((f'site.{site}', False, dict(info, note='no parser= argument')))
                            continue
                        pv = pk[0]
                        if isinstance(pv, ast.Name):
                            cands = assigns.get(pv.id, [])
                            ok = bool(cands) and all(_parser_call_safe(c)[0] for c in cands)
                            note = 'parser variable: ' + ('; '.join(_parser_call_safe(c)[1] for c in cands) or 'unassigned')
                        else:
                            ok, note = _parser_call_safe(pv)
                        out.append((f'site.{site}', ok, dict(info, note=note)))
        # the request path must contain at least the known reader sites (anti-vacuity)
        names = {n for n, _, _ in out}
        out.append(('reader_sites_present', any('msgreader.py:read_received_message' in n for n in names), {}))
        return out


@register
class DeferredDispatcherOnPost(FnCheck):
    id = 'C13.deferred_dispatch_on_post'
    prop = 'C13'
    target = 'sdc11073.consumer.request_handler_deferred:DispatchKeyRegistryDeferred.on_post'
    doc = ('consumer-side deferred dispatcher: a notification is handed to the worker queue only together with an '
           'existing handler; a message with an unknown action is refused with InvalidActionError and leaves the queue '
           '(and so the worker and the MDIB behind it) untouched')

    def setup(self, b):
        self.known = b.bool('handler_registered')
        self.handler = b.obj('handler')
        md = b.obj('message_data', action=b.any('action'))
        self.req = b.obj('request_data', message_data=md)
        self.o = b.obj('self', cls=('sdc11073.consumer.request_handler_deferred', 'DispatchKeyRegistryDeferred'))
        b.st.ghost['puts'] = ()
        return self.o, [self.req], {}

    def callees(self, ex):
        def get_handler(ex_, st, args, kwargs):
            return vany(z3.If(self.known.e, Val.ref(self.handler.e), Val.none), maybe_none=True)

        def put(ex_, st, args, kwargs):
            item = args[0]
            first = item.py[0] if item.kind == 'tuple' else None
            st.ghost['puts'] += ((st.box(first) if first is not None else None, st.box(item.py[1]) if item.kind == 'tuple' else None),)
            return NONE
        alloc = lambda n: Pure(lambda e, s, a, k: s.alloc(n), name=n)   # noqa: E731
        return {'*._get_post_handler': Pure(get_handler, name='_get_post_handler: registered handler or None'),
                'self._queue.put': Pure(put, name='Queue.put (ghost log)'),
                'sdc11073.pysoap.soapenvelope:Fault': alloc('Fault'), '*.add_reason_text': Pure(lambda e, s, a, k: NONE),
                'sdc11073.consumer.request_handler_deferred:EmptyResponse': alloc('EmptyResponse')}

    def post(self, ex, st0, st, outcome, b):
        puts = st.ghost['puts']
        if outcome[0] == 'exc':
            ex.oblige(st, 'refused_only_for_unknown_action', z3.And(z3.BoolVal(outcome[1].cls == 'InvalidActionError'), z3.Not(self.known.e)),
                      info={'exc': repr(outcome[1])})
            ex.oblige(st, 'refused_message_is_not_queued', z3.BoolVal(len(puts) == 0))
            return
        ex.oblige(st, 'accepted_only_with_a_registered_handler', self.known.e)
        ex.oblige(st, 'queued_exactly_once_with_its_handler_and_request', z3.And(
            z3.BoolVal(len(puts) == 1), puts[0][0] == Val.ref(self.handler.e), puts[0][1] == Val.ref(self.req.e))
            if len(puts) == 1 and puts[0][0] is not None else z3.BoolVal(False))


# a request thread that queues an operation must not wait for the worker without bound (no hang)
from contracts import C09 as _c09   # noqa: E402


@register
class EnqueueOperationBounded(_c09.EnqueueOperation):
    id = 'C13.enqueue_operation_bounded'
    prop = 'C13'


# ---------------------------------------------------------------------------------------------------------------
# the dispatch tables below the middleware: an unknown action / path is answered with the documented fault exception
# (turned into a SOAP fault + status line by the middleware, C13.do_post) and no handler runs; a known one runs exactly
# its registered handler once
DK_MOD = 'sdc11073.dispatch.dispatchkey'
PE_MOD = 'sdc11073.dispatch.pathelementregistry'


@register
class DispatcherOnPost(FnCheck):
    id = 'C13.request_dispatcher_on_post'
    prop = 'C13'
    tag = 'S'
    opaque_ok = True
    target = f'{DK_MOD}:RequestDispatcher.on_post'
    doc = ('RequestDispatcher.on_post: a message whose (action, body element) has no registered handler raises '
           'InvalidActionError carrying a SOAP fault - no handler is invoked; otherwise exactly the registered handler is '
           'called once with the request and its answer is returned')

    def setup(self, b):
        self.known = b.bool('handler_registered')
        self.handler = b.obj('registered_handler')
        self.req = b.obj('request_data')
        self.o = b.obj('self', cls=(DK_MOD, 'RequestDispatcher'))
        b.st.ghost['calls'] = ()
        return self.o, [self.req], {}

    def callees(self, ex):
        def get_handler(ex_, st, args, kwargs):
            return vany(z3.If(self.known.e, Val.ref(self.handler.e), Val.none), maybe_none=True, path='func')
        alloc = lambda n: Pure(lambda e, s, a, k: s.alloc(n), name=n)   # noqa: E731
        return {f'{DK_MOD}:RequestDispatcher._get_post_handler': Pure(get_handler, name='_get_post_handler (C13.request_dispatcher_lookup)'),
                'sdc11073.pysoap.soapenvelope:Fault': alloc('Fault'), '*.add_reason_text': Pure(lambda e, s, a, k: NONE),
                'time.monotonic': Pure(lambda e, s, a, k: vreal(fresh(RealS, 't')), name='time.monotonic')}

    def hooks(self, ex):
        chk = self

        class H:
            tracked_names = ('func',)

            @staticmethod
            def on_call_value(ex_, st, f, args, kwargs, node):
                st.ghost['calls'] = st.ghost['calls'] + ((st.box(f), tuple(st.box(a) for a in args)),)
                r = st.alloc('CreatedMessage')
                st.ghost['c:answer'] = r
                return [(st.fork(), Raise(ex_.mk_exc('*', 'handler'))), (st, r)]
        return H

    def post(self, ex, st0, st, outcome, b):
        calls = st.ghost['calls']
        if outcome[0] == 'exc' and outcome[1].origin != 'handler':
            ex.oblige(st, 'only_invalid_action_error_for_unknown_action', z3.And(
                z3.BoolVal(outcome[1].cls == 'InvalidActionError'), z3.Not(self.known.e)), info={'exc': repr(outcome[1])})
            ex.oblige(st, 'unknown_action_invokes_no_handler', z3.BoolVal(len(calls) == 0))
            return
        ex.oblige(st, 'registered_handler_called_exactly_once_with_the_request', z3.And(
            self.known.e, calls[0][0] == Val.ref(self.handler.e), z3.BoolVal(len(calls[0][1]) == 1), calls[0][1][0] == Val.ref(self.req.e))
            if len(calls) == 1 and len(calls[0][1]) == 1 else z3.BoolVal(False))
        if outcome[0] == 'ret':
            ex.oblige(st, 'answer_of_the_handler_is_returned', st.box(outcome[1]) == Val.ref(st.ghost['c:answer'].e)
                      if 'c:answer' in st.ghost else z3.BoolVal(False))


@register
class DispatcherLookup(FnCheck):
    id = 'C13.request_dispatcher_lookup'
    prop = 'C13'
    target = f'{DK_MOD}:RequestDispatcher._get_post_handler'
    container_hints = {'self._post_handlers': 'dict'}
    doc = ('_get_post_handler: the handler registered under DispatchKey(action, body element name) of the message, or '
           'None; total, no side effect on the table')

    def setup(self, b):
        st = b.st
        self.tab = b.obj('_post_handlers')
        st.assume(z3.Select(st.get_arr('C'), self.tab.e) == b.ex.ctx.builtin_class_ids['dict'])
        self.dk0, self.dv0 = z3.Select(st.get_arr('DK'), self.tab.e), z3.Select(st.get_arr('DV'), self.tab.e)
        self.action, self.qname = b.any('action'), b.any('q_name')
        md = b.obj('message_data', action=self.action, q_name=self.qname)
        req = b.obj('request_data', message_data=md)
        self.o = b.obj('self', cls=(DK_MOD, 'RequestDispatcher'), _post_handlers=self.tab)
        b.distinct(self.o, self.tab, md, req)
        self.KEY = z3.Function('DispatchKey', Val, Val, Val)
        return self.o, [req], {}

    def callees(self, ex):
        return {f'{DK_MOD}:DispatchKey': Pure(lambda e, st, a, k: vany(self.KEY(st.box(a[0]), st.box(a[1]))),
                                              name='DispatchKey(action, message_tag): a value (hash / == by both fields)', trusted=True)}

    def post(self, ex, st0, st, outcome, b):
        if outcome[0] == 'exc':
            ex.oblige(st, 'never_raises', z3.BoolVal(False), info={'exc': repr(outcome[1])})
            return
        key = self.KEY(self.action.e, self.qname.e)
        ex.oblige(st, 'registered_handler_or_none', st.box(outcome[1]) == z3.If(z3.Select(self.dk0, key), z3.Select(self.dv0, key), Val.none))
        ex.oblige(st, 'table_untouched', z3.And(z3.Select(st.get_arr('DK'), self.tab.e) == self.dk0,
                                                z3.Select(st.get_arr('DV'), self.tab.e) == self.dv0))


@register
class PathRegistryGet(FnCheck):
    id = 'C13.path_registry_get_instance'
    prop = 'C13'
    tag = 'S'
    opaque_ok = True
    target = f'{PE_MOD}:PathElementRegistry.get_instance'
    container_hints = {'self._instances': 'dict'}
    doc = ('PathElementRegistry.get_instance(path element): the object registered under exactly that path element; an '
           'unknown (or None-valued) element raises InvalidPathError with a SOAP fault - never another exception, never '
           'another component')

    def setup(self, b):
        st = b.st
        self.tab = b.obj('_instances')
        st.assume(z3.Select(st.get_arr('C'), self.tab.e) == b.ex.ctx.builtin_class_ids['dict'])
        self.dk0, self.dv0 = z3.Select(st.get_arr('DK'), self.tab.e), z3.Select(st.get_arr('DV'), self.tab.e)
        self.elem = b.any('path_element', maybe_none=True)
        self.o = b.obj('self', cls=(PE_MOD, 'PathElementRegistry'), _instances=self.tab)
        b.distinct(self.o, self.tab)
        return self.o, [self.elem], {}

    stable_fields = ('_instances',)

    def callees(self, ex):
        alloc = lambda n: Pure(lambda e, s, a, k: s.alloc(n), name=n)   # noqa: E731
        return {'sdc11073.pysoap.soapenvelope:Fault': alloc('Fault'), '*.add_reason_text': Pure(lambda e, s, a, k: NONE)}

    def post(self, ex, st0, st, outcome, b):
        known = z3.And(z3.Select(self.dk0, self.elem.e), z3.Not(Val.is_none(z3.Select(self.dv0, self.elem.e))))
        if outcome[0] == 'exc':
            ex.oblige(st, 'only_invalid_path_error_for_unknown_element', z3.And(z3.BoolVal(outcome[1].cls == 'InvalidPathError'), z3.Not(known)),
                      info={'exc': repr(outcome[1])})
            return
        ex.oblige(st, 'returns_the_object_registered_for_that_element', z3.And(known, st.box(outcome[1]) == z3.Select(self.dv0, self.elem.e)))


@register
class RequestReadsAreLengthBounded(ScanCheck):
    id = 'C13.request_reads_are_length_bounded'
    prop = 'C13'
    doc = ('frame over the request path of the http server: the request handler module never reads from the connection '
           'itself (no read / readline / recv on rfile, connection or request - all reading is delegated to HTTPReader), '
           'and inside HTTPReader.read_request_body, _read_dechunk and _read_until every stream read names its size '
           '(Content-Length, chunk size, 1 or 2 bytes; termination of the chunk loops: C13.read_until / '
           'C13.dechunk_terminates). The one size-less read() of read_request_body sits in the TypeError handler of '
           'int(<header string>), which a header string cannot reach. A read to end-of-stream would block for as long as '
           'the peer keeps the connection open - no status, no fault')

    READS = {'read', 'readline', 'readlines', 'readinto', 'read1', 'recv', 'recv_into', 'recvfrom', 'makefile'}

    def scan(self, repo):
        out = []
        handler = repo.module('sdc11073.httpserver.httprequesthandler')
        own = []
        for n in ast.walk(handler.tree):
            if isinstance(n, ast.Call) and isinstance(n.func, ast.Attribute) and n.func.attr in self.READS:
                recv = ast.unparse(n.func.value)
                if any(k in recv for k in ('rfile', 'connection', 'request', 'socket', 'stream')):
                    own.append((n.lineno, ast.unparse(n.func)))
        out.append(('handler_module_never_reads_the_connection_itself', not own, {'sites': str(own)}))
        reader = repo.module('sdc11073.httpserver.httpreader')
        cdef = reader.classes['HTTPReader']
        sizeless, sized = [], 0
        for fn in [f for f in cdef.body if isinstance(f, ast.FunctionDef) and f.name in ('read_request_body', '_read_dechunk', '_read_until')]:
            excused = set()
            for t in ast.walk(fn):
                if isinstance(t, ast.Try) and any(isinstance(c, ast.Call) and ast.unparse(c.func) == 'int' for s in t.body for c in ast.walk(s)):
                    for h in t.handlers:
                        if h.type is not None and ast.unparse(h.type) == 'TypeError':
                            excused |= {id(c) for s in h.body for c in ast.walk(s)}
            for n in ast.walk(fn):
                if isinstance(n, ast.Call) and isinstance(n.func, ast.Attribute) and n.func.attr in self.READS:
                    if n.args or n.keywords:
                        sized += 1
                    elif id(n) not in excused:
                        sizeless.append((fn.name, n.lineno, ast.unparse(n)))
        out.append(('every_request_read_names_its_size', not sizeless, {'sites': str(sizeless)}))
        out.append(('reads_found', sized >= 4, {'sized_reads': sized}))
        # _read_request only delegates
        cd = handler.classes['DispatchingRequestHandler']
        rr = [f for f in cd.body if isinstance(f, ast.FunctionDef) and f.name == '_read_request']
        body = [s for s in rr[0].body if not (isinstance(s, ast.Expr) and isinstance(s.value, ast.Constant))] if rr else []
        calls = [ast.unparse(c.func) for s in body for c in ast.walk(s) if isinstance(c, ast.Call)]
        # logging is harmless; everything else in _read_request must be the one delegation to the reader
        other = [c for c in calls if c != 'HTTPReader.read_request_body'
                 and c.rsplit('.', 1)[-1] not in ('debug', 'info', 'warning', 'warn', 'error', 'exception', 'log')]
        out.append(('read_request_only_delegates_to_the_reader',
                    bool(rr) and calls.count('HTTPReader.read_request_body') == 1 and not other, {'calls': str(calls)}))
        return out


@register
class RequestBodyReadSize(FnCheck):
    id = 'C13.request_body_read_size'
    prop = 'C13'
    opaque_ok = True
    target = f'{RD}:HTTPReader.read_request_body'
    replay_fn = 'C13:open_connection_framing'
    replay_without_model = True
    doc = ('HTTPReader.read_request_body: whatever the Content-Length / Transfer-Encoding / Content-Encoding header '
           'strings are, every read from the request stream asks for an explicit, NON-NEGATIVE number of bytes '
           '(rfile.read(n) with n < 0, like read(), reads until the peer closes the connection) or goes through the '
           'chunk reader (C13.dechunk_terminates); a header that does not denote such a number raises (answered 400 by '
           'do_POST, C13.do_POST_total)')

    def concretize(self, vc, model):
        return {'framing': None}

    def setup(self, b):
        st = b.st
        self.hdr = {k: b.any(f'header.{k}', maybe_none=True) for k in ('transfer-encoding', 'content-length', 'content-encoding')}
        for v in self.hdr.values():
            st.assume(z3.Or(Val.is_none(v.e), Val.is_str(v.e)))     # header values are strings
        msg = b.obj('http_message', headers=b.obj('headers'), rfile=b.obj('rfile'))
        st.ghost['reads'] = ()
        return V('class', py=(RD, 'HTTPReader')), [msg], {}

    def callees(self, ex):
        def get(ex_, st, args, kwargs):
            k = z3.simplify(args[0].e) if args[0].kind == 'str' else None
            if k is not None and z3.is_string_value(k) and k.as_string().lower() in self.hdr:
                return self.hdr[k.as_string().lower()]
            return vany(fresh(Val, 'hdr'), maybe_none=True)

        def read(ex_, st, args, kwargs):
            st.ghost['reads'] = st.ghost['reads'] + ((tuple(args), st),)
            return vbytes(fresh(StrS, 'body'))
        return {'*.get': Pure(get, name='headers.get(name) -> header string or None'),
                '*.read': Pure(read, name='rfile.read([n]) (ghost: requested sizes)'),
                f'{RD}:HTTPReader._read_dechunk': Pure(lambda e, s, a, k: vbytes(fresh(StrS, 'dechunked')), name='_read_dechunk (C13.dechunk_terminates)', raises=('*',)),
                'cls._read_dechunk': Pure(lambda e, s, a, k: vbytes(fresh(StrS, 'dechunked')), name='_read_dechunk (C13.dechunk_terminates)', raises=('*',)),
                'sdc11073.httpserver.compression:CompressionHandler.decompress_payload':
                    Pure(lambda e, s, a, k: vbytes(fresh(StrS, 'decompressed')), name='decompress_payload', raises=('*',))}

    def finish(self, ex, st0, outcomes, b):
        ex.oblige(st0, 'some_path_reads_the_stream', z3.BoolVal(bool(getattr(self, '_saw_read', False))))

    def post(self, ex, st0, st, outcome, b):
        reads = st.ghost['reads']
        if reads:
            self._saw_read = True
        ex.oblige(st, 'at_most_one_read_per_request', z3.BoolVal(len(reads) <= 1))
        for args, rst in reads:
            ex.oblige(rst, 'every_read_names_its_size', z3.BoolVal(len(args) == 1))
            if len(args) == 1:
                n = ex.concrete_kind(rst, args[0], ('int',))
                ex.oblige(rst, 'requested_size_is_never_negative', (n.e >= 0) if n.kind == 'int' else z3.BoolVal(False))


@register
class ReasonPhrasesNeverQuoteMessageContent(ScanCheck):
    id = 'C13.reason_phrases_never_quote_message_content'
    prop = 'C13'
    doc = ('frame: the `reason` of every HTTPRequestHandlingError raised in the package - it becomes the reason phrase '
           'of the status line, which http.server encodes as strict latin-1 and writes verbatim - is a string constant, '
           'or the f-string of pathelementregistry.get_instance that quotes the request path element (latin-1 by '
           'construction of the request line, no line break). It never quotes message content (element names, values, '
           'parser messages): a non-latin-1 character there would raise UnicodeEncodeError out of send_response (no '
           'status, no fault), a line feed would split the status line')

    def scan(self, repo):
        import os
        exc_mod = repo.module('sdc11073.exceptions')
        classes = {}
        for cname, cd in exc_mod.classes.items():
            if cname == 'HTTPRequestHandlingError' or any(ast.unparse(b2) in classes or ast.unparse(b2) == 'HTTPRequestHandlingError' for b2 in cd.bases):
                classes[cname] = cd
        out = []
        bad_init = []
        for cname, cd in classes.items():
            if cname == 'HTTPRequestHandlingError':
                continue
            for fn in [f for f in cd.body if isinstance(f, ast.FunctionDef) and f.name == '__init__']:
                for c in ast.walk(fn):
                    if isinstance(c, ast.Call) and ast.unparse(c.func) == 'super().__init__' and len(c.args) >= 2:
                        r = c.args[1]
                        if not (isinstance(r, ast.Constant) and isinstance(r.value, str)) and not (isinstance(r, ast.Name) and r.id == 'reason'):
                            bad_init.append((cname, ast.unparse(r)))
        out.append(('exception_classes_use_fixed_reasons_or_forward_the_argument', not bad_init, {'sites': str(bad_init)}))
        takes_reason = {'HTTPRequestHandlingError': 1, 'InvalidPathError': 0, 'ValidationError': 0}
        bad, n_sites = [], 0
        root = os.path.join(repo.roots[0], 'sdc11073')
        for dirpath, _d, files in os.walk(root):
            for fnm in files:
                if not fnm.endswith('.py'):
                    continue
                path = os.path.join(dirpath, fnm)
                rel = os.path.relpath(path, repo.roots[0]).replace(os.sep, '/')
                with open(path) as f:
                    tree = ast.parse(f.read())
                for c in ast.walk(tree):
                    if not (isinstance(c, ast.Call) and ast.unparse(c.func).split('.')[-1] in takes_reason):
                        continue
                    name = ast.unparse(c.func).split('.')[-1]
                    kw = {k.arg: k.value for k in c.keywords}
                    pos = takes_reason[name]
                    r = kw.get('reason', c.args[pos] if len(c.args) > pos else None)
                    if r is None:
                        continue
                    n_sites += 1
                    ok = isinstance(r, ast.Constant) and isinstance(r.value, str)
                    if isinstance(r, ast.JoinedStr):
                        interp = [ast.unparse(v.value) for v in r.values if isinstance(v, ast.FormattedValue)]
                        ok = rel == 'sdc11073/dispatch/pathelementregistry.py' and interp == ['path_element']
                    if not ok:
                        bad.append((rel, c.lineno, ast.unparse(r)[:80]))
        out.append(('raise_sites_found', n_sites >= 2, {'n': n_sites}))
        out.append(('no_reason_phrase_quotes_message_content', not bad, {'sites': str(bad)[:300]}))
        return out
